#!/bin/bash
# merge an agent branch: take its cNN.rs / evidence files, union known_findings.json by id
set -e
b="$1"; cd /verif
files=$(git diff --name-only main...$b | grep -v known_findings.json || true)
for f in $files; do mkdir -p "$(dirname "$f")"; git show "$b:$f" > "$f"; done
git show "$b:known_findings.json" > /tmp/kf_branch.json
python3 - <<'PY'
import json
a=json.load(open('/verif/known_findings.json')); b=json.load(open('/tmp/kf_branch.json'))
ids={f['id'] for f in a['findings']}
for f in b['findings']:
    if f['id'] not in ids: a['findings'].append(f); print('added finding', f['id'])
json.dump(a,open('/verif/known_findings.json','w'),indent=1)
PY
echo "merged files: $files"
