#!/usr/bin/env python3
"""Regenerates MANIFEST.json from the table below (single source of truth for the claims)."""
import json
ALL = [json.loads(l)['id'] for l in open('/verif/properties.jsonl')]
BASE = "cd /repo && cargo nextest run --workspace --no-fail-fast --tool-config-file pb:/w/lib/nextest.toml --profile pb --test-threads 8 --offline"
# id -> (category, technique, text, note, design_ref)
CHECKS = {
 "C15": ("exploration",
   "bounded-exhaustive enumeration of (program, cycle limit) pairs on the real processor",
   "Every limit m from 64 to n+2 (n = exact cycle count) for each program of a fixed family covering spans, respans, loops, calls, stdlib procedures and non-terminating loops is executed on the real Process; success iff m >= n, else CycleLimitExceeded(m) with the clock stopped at m+1; the ExecutionOptions::new grid is enumerated completely. Exhaustive within the stated family and window, which is what an off-by-one in limit enforcement needs to show.",
   "n is measured on the same implementation under the default limit; programs outside the family and limits above 2n are not covered.",
   "DESIGN.md §5 C15"),
}
NA_REASON = "check not built yet in this round (planned, see DESIGN.md §11); no claim is made"
m = {
 "version": 1,
 "setup_cmd": "cd /verif/mc && CARGO_NET_OFFLINE=true cargo build --release --offline -p vmc",
 "hooks": {
   "guard": "--cfg cf_miden_vm_verif",
   "enable": "none needed: the harness uses public API plus the pre-existing `internals` cargo feature of miden-processor/miden-air; no source hooks exist",
   "baseline_off_cmd": BASE,
   "source_commits": [],
   "add_only": True,
 },
 "engines": [
   {"name": "vmc", "path": "mc/crates/vmc", "serves_properties": sorted(CHECKS),
    "kind_free_text": "bounded-exhaustive explorer driving the real miden-vm crates (path dependencies on /repo): explicit-state BFS, finite-space enumeration, single/double fault enumeration; reference models in mc/crates/refvm"},
 ],
 "checks": [],
 "not_applicable": [],
 "notes": "All checks: ./check <id> quick|thorough from /verif; exit 0/1 verdict, 2 machinery failure. known_findings.json lists recorded genuine defects.",
}
for pid in ALL:
    if pid in CHECKS:
        cat, tech, text, note, ref = CHECKS[pid]
        m["checks"].append({
          "property_id": pid,
          "quick_cmd": f"./check {pid} quick",
          "thorough_cmd": f"./check {pid} thorough",
          "evidence_file": f"/verif/evidence/{pid}.json",
          "replay_cmd_template": f"./check {pid} --replay {{path}}",
          "engine": "vmc",
          "level_claimed": {"category": cat, "text": text, "design_ref": ref},
          "level_note": note,
          "technique": tech,
        })
    else:
        m["not_applicable"].append({"property_id": pid, "reason": NA_REASON})
json.dump(m, open('/verif/MANIFEST.json', 'w'), indent=1)
print("wrote MANIFEST.json:", len(m["checks"]), "checks")
