#!/usr/bin/env python3
"""Regenerates MANIFEST.json from the table below (single source of truth for the claims)."""
import json
ALL = [json.loads(l)['id'] for l in open('/verif/properties.jsonl')]
BASE = "cd /repo && cargo nextest run --workspace --no-fail-fast --tool-config-file pb:/w/lib/nextest.toml --profile pb --test-threads 8 --offline"
# id -> (category, technique, text, note, design_ref)
CHECKS = {
 "C15": ("exploration",
   "bounded-exhaustive enumeration of (program, cycle limit) pairs on the real processor",
   "Every limit m from 64 to n+2 (n = exact cycle count) for each program of a fixed family covering spans, respans, loops, calls, stdlib procedures and non-terminating loops is executed on the real Process; success iff m >= n, else CycleLimitExceeded(m) with the clock stopped at m+1; the ExecutionOptions::new grid is enumerated completely. Exhaustive within the stated family and window, which is what an off-by-one in limit enforcement needs to show.",
   "n is measured on the same implementation under the default limit; programs outside the family and limits above 2n are not covered.",
   "DESIGN.md §5 C15"),
 "C05": ("model_checking",
   "explicit-state BFS over instruction sequences + bounded-exhaustive single-step enumeration on the real assembler/processor against a reference interpreter",
   "Every instruction form (421 incl. every index/immediate form and out-of-range parameters) x all operand tuples over an 11-value boundary alphabet x 7 initial depths is executed on the real VM and compared with a reference interpreter written from the instruction reference (documented result, documented failure class incl. error codes, documented-undefined inputs excluded). A breadth-first search over sequences of 65 instructions from 12 initial stacks (depth 2 quick / 3 thorough) re-materialises every state on a fresh VM, also runs each history as one program, and compares both with the reference; LIFO family over pushes/drops across the 16-element boundary.",
   "Reference model refvm is trusted (written from docs/src/user_docs/assembly, self-tested); values outside the alphabet and sequences longer than the BFS depth are not covered; exact depth is compared only where determined at instruction level.",
   "DESIGN.md §5 C05"),
 "C06": ("model_checking",
   "exhaustive enumeration of control-flow nestings x all environment answer sequences (deviation-bounded) on the real assembler/processor against a reference interpreter",
   "All nestings to depth 2 (quick) / 3 (thorough, 32 621 programs) of if/else, if, while, repeat, exec of local and imported procedures with and without locals; every decision point reads its condition from the advice stack, so all binary answer sequences up to the length bound are the explored schedules, plus one non-binary deviation at every decision prefix. Oracles: reference interpreter (marker-spelled path), behavioural equality with the repeat-unrolled / exec-pasted program, and NotBinaryValue for any non-binary condition.",
   "Reference model refvm trusted; one nested construct per body; answer sequences cut at the stated length bound (count reported).",
   "DESIGN.md §5 C06"),
 "C07": ("model_checking",
   "explicit-state BFS over histories of memory / locals / frame-entry actions; every history is assembled and executed on the real VM and interpreted by a reference model whose snapshot is the canonical state",
   "Actions: element/word loads and stores (stack and immediate address forms), mem_stream, adv_pipe over colliding and failing addresses, local loads/stores, sdepth, caller, extra push/drop, entering and leaving exec / call / syscall / dyncall / dynexec frames with 0/1/4 locals; all histories to depth 2 (full alphabet, 84 actions) and 3 (reduced, 41 actions) in the quick tier, 3 and 4 in the thorough tier, from 4 caller stack depths, frame nesting <= 3. Every load is folded into an accumulator, so a wrong value read in any context changes the final stack; compared: full final stack, error class, memory of every context, fmp/ctx after return; plus locaddr distinctness of simultaneously live frames.",
   "Reference model refvm (per-context memory, abstract never-aliasing locals) trusted; absolute addresses inside the regions reserved for locals are not exercised; MAST roots for caller/dyn come from the real assembler.",
   "DESIGN.md §5 C07"),
 "C03": ("exploration",
   "bounded-exhaustive enumeration of program families x capacity hints x stated challenge vectors, with the harness' own evaluation loop over the real AIR",
   "Every program of P1 (every assembly instruction family in every control-flow frame x stack-input regime), the trace-shape family (main-, range-, chiplet-dominated lengths around 2^k, deep outputs) and in the thorough tier all ordered atom pairs, for expected-cycles hints 64/128/1024/8192: every main and auxiliary transition constraint on every non-exempt row and every boundary assertion of ProcessorAir evaluated by the harness (not winterfell's debug validator), trace-length rule checked, main trace identical across hints.",
   "Challenges: K stated vectors from VERIF_SEED (polynomial-identity argument), not the 2^128 space; programs outside the families not covered.",
   "DESIGN.md §5 C03"),
 "C08": ("exploration",
   "bounded-exhaustive enumeration of operation-sequence patterns and MAST shapes against a reference hash/batching model re-implemented from the design docs",
   "All 3^n push/non-push/NOOP patterns for n <= 10 (quick) / 13 (thorough) and all patterns of length <= 6/8 appended to 54..73 plain operations (every alignment of the 9-op group and 8-group batch boundaries): each real Span is checked against the documented batching rules (group/batch limits, immediates in following groups of the same batch, no immediate-carrying op last, groups decode back to the sequence up to NOOPs, zero-padded power-of-two group counts) and hash = reference RPO sponge; 29 060 control-block trees against the reference domain-separated merge; invariance under comments/blank lines/procedure names/debug mode/decorators at every instruction boundary and sensitivity to every instruction/immediate edit over a 207-program corpus; the hash recorded by executions equals the program hash.",
   "RPO permutation and opcode numbering trusted; the exact packing is fixed by the implementation within the documented rules (the rules are what is demanded); error codes of assertions are not treated as hashed immediates.",
   "DESIGN.md §5 C08"),
 "C09": ("fault_enumeration",
   "exhaustive enumeration of (operand, dishonest hint) pairs and single-node Merkle-store corruptions through a scripted Host wrapper on the real VM",
   "For u32clz/ctz/clo/cto, ilog2, ext2inv/ext2div and std::math::u64 div/mod/divmod: structured operand sets x every hint of the plausible range plus boundary values (one dishonest hint, then all dishonest); for mtree_get/set/verify: every tree of depth 1-3 over two leaf words x every single on-path node replaced / removed / siblings swapped / answer replaced; a run that completes must return the mathematically correct result (computed natively by the harness); with the honest host every valid operand succeeds; adv_push.n / adv_loadw / adv_pipe deliver a scripted advice stack in the documented order.",
   "Host-contract shape violations (a Merkle path of the wrong length) are explored and reported as notes only; advice-map content is not varied (no instruction in scope reads it).",
   "DESIGN.md §5 C09"),
 "C18": ("model_checking",
   "explicit-state BFS over SMT and MMR operation histories (real masm procedures on the real VM vs. the native miden-crypto structures) + bounded-exhaustive enumeration for truncate_stack / memcopy / pipe_*",
   "SMT machine (set/get/peek over keys sharing and not sharing a leaf, values {empty, v1, v2}) and MMR machine (add/get/pack/unpack) explored breadth-first to depth 3/5 (quick) and 5/8 (thorough), every transition run on the VM with advice derived from the native pre-state and again as a whole-history run; truncate_stack for every depth 16..48 in four calling situations; memcopy for all (n, read_ptr, write_ptr) in an 8-word window (overlap: frame condition only, the result is unspecified); pipe_* for every word count with correct and wrong commitments; mmr arithmetic helpers on structured inputs.",
   "miden-crypto's Smt/Mmr are the reference; cases the masm documentation marks as unimplemented (leaves with several pairs) are executed, counted and not compared.",
   "DESIGN.md §5 C18"),
 "C13": ("exploration",
   "bounded-exhaustive enumeration of MAST shapes x all decision sequences (chosen by the harness) with a depth-first reference stream, plus documented decoder equations on every row pair",
   "5 610 (quick) directly built MASTs over join/split/loop/call/syscall/dyn with 14 span patterns covering every group/batch fill situation; every decision sequence (both split directions, loops 0..3 iterations, capped at 60 per tree) is supplied as stack inputs and the expected operation stream is generated for exactly those decisions; compared per cycle with the op-bit columns and with VmStateIterator; NOOPs counted against the documented alignment places; block ids nested like a Dyck word; documented in_span / group_count / op-group / op_index equations on every executed row pair; final row carries the program hash; padding rows HALT. The 2 497 assembler-produced programs of P1 + shapes are walked with decisions read from the trace.",
   "Span streams are derived from the span's own operation groups by the documented decoding procedure (batching is C08's subject).",
   "DESIGN.md §5 C13"),
 "C16": ("exploration",
   "bounded-exhaustive enumeration of limb tuples over boundary alphabets for every exported u64 / u256 procedure on the real VM against native integer arithmetic",
   "All 29 exported std::math::u64 procedures and all 8 std::math::u256 procedures (export lists read from the loaded library): every operand pair with limbs over a 7-value (quick) / 16-value (thorough) alphabet, every shift/rotation amount 0..63, structured unary values, zero divisors; full final stack compared including 12 sentinel elements below the operands.",
   "Reference = Rust u64/u128/num-bigint arithmetic; operands outside the limb alphabets are not covered.",
   "DESIGN.md §5 C16"),
 "C17": ("exploration",
   "enumeration of structured finite input sets (all 0/0xFFFFFFFF word patterns, all single-bit and all-but-one-bit inputs, every length for the memory helpers) against the blake3 / sha2 / sha3 crates and Rpo256",
   "Agreement of every exported procedure of the blake3, sha256, keccak256 and native hashing modules with the reference implementations on the stated input sets, which exercise every input bit position in both polarities; equality on all 2^256 / 2^512 inputs cannot be decided by enumeration and is not claimed.",
   "Weakest claim of the set by nature of the property: exhaustive only over the stated structured families.",
   "DESIGN.md §5 C17"),
 "C11": ("model_checking",
   "exhaustive enumeration of compilation histories on one Assembler instance (cross-checked with a stateright BFS over the same machine) + bounded-exhaustive grid of invalid programs",
   "Part S: 8 assembler configurations (library order, kernel, debug mode) x all histories of length <= 2 (quick) / <= 3 (thorough, 163 520 states) over a pool of 27 sources (exec/call/procref through direct and re-exported paths, equal MAST roots with different callsets, call by MAST root, dyn after procref, syscalls, invalid sources): every source compiles to the same program (hash, kernel, code-block-table roots, execution outcome) as on a fresh assembler, never panics, and every statically referenced call / procref target is in the code block table; library order and re-export paths do not change the program. The thorough tier re-explores the same machine with stateright's BFS and requires equal state counts and verdicts. Part E: 632 invalid / boundary sources (parameter ranges, local indices, kernel rules, program shape, constants, decorators) x debug on/off must be Err (or Ok where valid), never a panic.",
   "The assembler's cache is private, so states are histories (no canonicalisation); a source that only assembles because the cache knows a root is counted cache_dependent, not a violation.",
   "DESIGN.md §5 C11"),
 "C14": ("model_checking",
   "exhaustive enumeration of all next/back stepping histories on the real VmStateIterator against a trace-derived reference, plus determinism variants over the program family",
   "All {next, back} histories up to length 10-13 on six programs (deep inputs, crossing the 16-element boundary, call with memory in two contexts, locals/fmp, loop) and on a failing program: every returned VmState equals row t of the trace (top 16, depth, overflow part, fmp, ctx, op, memory), no panic, and the iterator can always be drained to the last clock; determinism of outputs and main trace under repeated runs, tracing flag, debug-mode assembly and decorators inserted at every boundary; clk pushes its row index.",
   "States are histories (private cursor); trace-side overflow/memory views are reconstructed by the harness from the main trace columns.",
   "DESIGN.md §5 C14"),
}
NA_REASON = "check not built yet in this round (planned, see DESIGN.md §11); no claim is made"
m = {
 "version": 1,
 "setup_cmd": "cd /verif/mc && CARGO_NET_OFFLINE=true cargo build --release --offline -p vmc",
 "hooks": {
   "guard": "--cfg cf_miden_vm_verif",
   "enable": "none needed: the harness uses public API plus the pre-existing `internals` cargo feature of miden-processor/miden-air; no source hooks exist",
   "baseline_off_cmd": BASE,
   "source_commits": [],
   "add_only": True,
 },
 "engines": [
   {"name": "vmc", "path": "mc/crates/vmc", "serves_properties": sorted(CHECKS),
    "kind_free_text": "bounded-exhaustive explorer driving the real miden-vm crates (path dependencies on /repo): explicit-state BFS, finite-space enumeration, single/double fault enumeration; reference models in mc/crates/refvm"},
 ],
 "checks": [],
 "not_applicable": [],
 "notes": "All checks: ./check <id> quick|thorough from /verif; exit 0/1 verdict, 2 machinery failure. known_findings.json lists recorded genuine defects.",
}
for pid in ALL:
    if pid in CHECKS:
        cat, tech, text, note, ref = CHECKS[pid]
        m["checks"].append({
          "property_id": pid,
          "quick_cmd": f"./check {pid} quick",
          "thorough_cmd": f"./check {pid} thorough",
          "evidence_file": f"/verif/evidence/{pid}.json",
          "replay_cmd_template": f"./check {pid} --replay {{path}}",
          "engine": "vmc",
          "level_claimed": {"category": cat, "text": text, "design_ref": ref},
          "level_note": note,
          "technique": tech,
        })
    else:
        m["not_applicable"].append({"property_id": pid, "reason": NA_REASON})
json.dump(m, open('/verif/MANIFEST.json', 'w'), indent=1)
print("wrote MANIFEST.json:", len(m["checks"]), "checks")
