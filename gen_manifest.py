#!/usr/bin/env python3
"""Regenerates MANIFEST.json from the table below (single source of truth for the claims)."""
import json
ALL = [json.loads(l)['id'] for l in open('/verif/properties.jsonl')]
BASE = "cd /repo && cargo nextest run --workspace --no-fail-fast --tool-config-file pb:/w/lib/nextest.toml --profile pb --test-threads 8 --offline"
# id -> (category, technique, text, note, design_ref)
CHECKS = {
 "C15": ("exploration",
   "bounded-exhaustive enumeration of (program, cycle limit) pairs on the real processor",
   "Every limit m from 64 to n+2 (n = exact cycle count) for each program of a fixed family covering spans, respans, loops, calls, stdlib procedures and non-terminating loops is executed on the real Process; success iff m >= n, else CycleLimitExceeded(m) with the clock stopped at m+1; the ExecutionOptions::new grid is enumerated completely. Exhaustive within the stated family and window, which is what an off-by-one in limit enforcement needs to show.",
   "n is measured on the same implementation under the default limit; programs outside the family and limits above 2n are not covered.",
   "DESIGN.md §5 C15"),
 "C05": ("model_checking",
   "explicit-state BFS over instruction sequences + bounded-exhaustive single-step enumeration on the real assembler/processor against a reference interpreter",
   "Every instruction form (421 incl. every index/immediate form and out-of-range parameters) x all operand tuples over an 11-value boundary alphabet x 7 initial depths is executed on the real VM and compared with a reference interpreter written from the instruction reference (documented result, documented failure class incl. error codes, documented-undefined inputs excluded). A breadth-first search over sequences of 65 instructions from 12 initial stacks (depth 2 quick / 3 thorough) re-materialises every state on a fresh VM, also runs each history as one program, and compares both with the reference; LIFO family over pushes/drops across the 16-element boundary.",
   "Reference model refvm is trusted (written from docs/src/user_docs/assembly, self-tested); values outside the alphabet and sequences longer than the BFS depth are not covered; exact depth is compared only where determined at instruction level.",
   "DESIGN.md §5 C05"),
 "C06": ("model_checking",
   "exhaustive enumeration of control-flow nestings x all environment answer sequences (deviation-bounded) on the real assembler/processor against a reference interpreter",
   "All nestings to depth 2 (quick) / 3 (thorough, 32 621 programs) of if/else, if, while, repeat, exec of local and imported procedures with and without locals; every decision point reads its condition from the advice stack, so all binary answer sequences up to the length bound are the explored schedules, plus one non-binary deviation at every decision prefix. Oracles: reference interpreter (marker-spelled path), behavioural equality with the repeat-unrolled / exec-pasted program, and NotBinaryValue for any non-binary condition.",
   "Reference model refvm trusted; one nested construct per body; answer sequences cut at the stated length bound (count reported).",
   "DESIGN.md §5 C06"),
 "C07": ("model_checking",
   "explicit-state BFS over histories of memory / locals / frame-entry actions; every history is assembled and executed on the real VM and interpreted by a reference model whose snapshot is the canonical state",
   "Actions: element/word loads and stores (stack and immediate address forms), mem_stream, adv_pipe over colliding and failing addresses, local loads/stores, sdepth, caller, extra push/drop, entering and leaving exec / call / syscall / dyncall / dynexec frames with 0/1/4 locals; all histories to depth 2 (full alphabet, 84 actions) and 3 (reduced, 41 actions) in the quick tier, 3 and 4 in the thorough tier, from 4 caller stack depths, frame nesting <= 3. Every load is folded into an accumulator, so a wrong value read in any context changes the final stack; compared: full final stack, error class, memory of every context, fmp/ctx after return; plus locaddr distinctness of simultaneously live frames.",
   "Reference model refvm (per-context memory, abstract never-aliasing locals) trusted; absolute addresses inside the regions reserved for locals are not exercised; MAST roots for caller/dyn come from the real assembler.",
   "DESIGN.md §5 C07"),
 "C03": ("exploration",
   "bounded-exhaustive enumeration of program families x capacity hints x stated challenge vectors, with the harness' own evaluation loop over the real AIR",
   "Every program of P1 (every assembly instruction family in every control-flow frame x stack-input regime), the trace-shape family (main-, range-, chiplet-dominated lengths around 2^k, deep outputs) and in the thorough tier all ordered atom pairs, for expected-cycles hints 64/128/1024/8192: every main and auxiliary transition constraint on every non-exempt row and every boundary assertion of ProcessorAir evaluated by the harness (not winterfell's debug validator), trace-length rule checked, main trace identical across hints.",
   "Challenges: K stated vectors from VERIF_SEED (polynomial-identity argument), not the 2^128 space; programs outside the families not covered.",
   "DESIGN.md §5 C03"),
}
NA_REASON = "check not built yet in this round (planned, see DESIGN.md §11); no claim is made"
m = {
 "version": 1,
 "setup_cmd": "cd /verif/mc && CARGO_NET_OFFLINE=true cargo build --release --offline -p vmc",
 "hooks": {
   "guard": "--cfg cf_miden_vm_verif",
   "enable": "none needed: the harness uses public API plus the pre-existing `internals` cargo feature of miden-processor/miden-air; no source hooks exist",
   "baseline_off_cmd": BASE,
   "source_commits": [],
   "add_only": True,
 },
 "engines": [
   {"name": "vmc", "path": "mc/crates/vmc", "serves_properties": sorted(CHECKS),
    "kind_free_text": "bounded-exhaustive explorer driving the real miden-vm crates (path dependencies on /repo): explicit-state BFS, finite-space enumeration, single/double fault enumeration; reference models in mc/crates/refvm"},
 ],
 "checks": [],
 "not_applicable": [],
 "notes": "All checks: ./check <id> quick|thorough from /verif; exit 0/1 verdict, 2 machinery failure. known_findings.json lists recorded genuine defects.",
}
for pid in ALL:
    if pid in CHECKS:
        cat, tech, text, note, ref = CHECKS[pid]
        m["checks"].append({
          "property_id": pid,
          "quick_cmd": f"./check {pid} quick",
          "thorough_cmd": f"./check {pid} thorough",
          "evidence_file": f"/verif/evidence/{pid}.json",
          "replay_cmd_template": f"./check {pid} --replay {{path}}",
          "engine": "vmc",
          "level_claimed": {"category": cat, "text": text, "design_ref": ref},
          "level_note": note,
          "technique": tech,
        })
    else:
        m["not_applicable"].append({"property_id": pid, "reason": NA_REASON})
json.dump(m, open('/verif/MANIFEST.json', 'w'), indent=1)
print("wrote MANIFEST.json:", len(m["checks"]), "checks")
