//! Deterministic parallel breadth-first search over a state machine whose transitions call real
//! code. The frontier of each depth is expanded in parallel; successors are merged in the order
//! (parent index, action index), so state counts, transition counts and the first counterexample
//! do not depend on thread scheduling.

use rayon::prelude::*;
use std::collections::HashSet;
use std::time::Instant;

pub trait Model: Sync {
    type State: Clone + Send + Sync;
    type Action: Clone + Send + Sync;
    fn init(&self) -> Vec<Self::State>;
    fn actions(&self, s: &Self::State) -> Vec<Self::Action>;
    /// performs the transition on the real implementation, evaluates the oracle (reporting into the
    /// run context it owns) and returns the successor, or None if the run ends here (error state)
    fn step(&self, s: &Self::State, a: &Self::Action) -> Option<Self::State>;
    /// canonical form used for de-duplication; states with equal canon must have equal futures
    fn canon(&self, s: &Self::State) -> Vec<u8>;
}

#[derive(Default, Debug, Clone)]
pub struct Stats {
    pub states: u64,
    pub transitions: u64,
    pub duplicates: u64,
    pub terminal: u64,
    pub depth_completed: usize,
    pub frontier_sizes: Vec<u64>,
    pub cap_hit: Option<String>,
}

pub fn bfs<M: Model>(m: &M, max_depth: usize, wall_cap_s: f64, state_cap: u64) -> Stats {
    let t0 = Instant::now();
    let mut stats = Stats::default();
    let mut seen: HashSet<Vec<u8>> = HashSet::new();
    let mut frontier: Vec<M::State> = vec![];
    for s in m.init() {
        if seen.insert(m.canon(&s)) {
            frontier.push(s);
        }
    }
    stats.states = frontier.len() as u64;
    stats.frontier_sizes.push(frontier.len() as u64);
    for depth in 0..max_depth {
        if frontier.is_empty() {
            stats.depth_completed = depth;
            return stats;
        }
        if t0.elapsed().as_secs_f64() > wall_cap_s {
            stats.cap_hit = Some(format!("wall cap {wall_cap_s}s before expanding depth {depth}"));
            return stats;
        }
        if stats.states > state_cap {
            stats.cap_hit = Some(format!("state cap {state_cap} before expanding depth {depth}"));
            return stats;
        }
        let expanded: Vec<Vec<Option<(Vec<u8>, M::State)>>> = frontier
            .par_iter()
            .map(|s| {
                m.actions(s)
                    .iter()
                    .map(|a| m.step(s, a).map(|n| (m.canon(&n), n)))
                    .collect()
            })
            .collect();
        let mut next = vec![];
        for succs in expanded {
            for succ in succs {
                stats.transitions += 1;
                match succ {
                    None => stats.terminal += 1,
                    Some((c, n)) => {
                        if seen.insert(c) {
                            next.push(n);
                            stats.states += 1;
                        } else {
                            stats.duplicates += 1;
                        }
                    }
                }
            }
        }
        stats.depth_completed = depth + 1;
        stats.frontier_sizes.push(next.len() as u64);
        frontier = next;
    }
    stats
}
