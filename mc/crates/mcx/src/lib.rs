//! mcx — shared machinery of the model-checking harness: run context (tier, seed, failure
//! collection, known-findings matching, evidence and replay files), panic capture, finite-space
//! enumerators and a deterministic parallel breadth-first explorer.

pub mod bfs;
pub mod ctx;
pub mod guard;
pub mod space;

pub use ctx::{Ctx, Failure, Tier};
pub use serde_json::{json, Value};
