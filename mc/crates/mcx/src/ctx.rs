//! Run context: tier / seed, thread-safe failure collection, known-findings matching,
//! VIOLATION / KNOWN-FINDING lines, replay files and the evidence file.

use serde_json::{json, Map, Value};
use std::collections::BTreeMap;
use std::path::PathBuf;
use std::sync::Mutex;
use std::time::Instant;

#[derive(Clone, Copy, PartialEq, Eq, Debug)]
pub enum Tier {
    Quick,
    Thorough,
}

impl Tier {
    pub fn name(&self) -> &'static str {
        match self {
            Tier::Quick => "quick",
            Tier::Thorough => "thorough",
        }
    }
    pub fn pick<T>(&self, quick: T, thorough: T) -> T {
        match self {
            Tier::Quick => quick,
            Tier::Thorough => thorough,
        }
    }
}

/// One failing case. `signature` is the structured, deterministic identity of the failure (what
/// the known-findings file matches on); `case` is everything `--replay` needs.
#[derive(Clone, Debug)]
pub struct Failure {
    pub signature: Value,
    pub summary: String,
    pub case: Value,
}

pub struct Ctx {
    pub prop: String,
    pub tier: Tier,
    pub seed: u64,
    pub root: PathBuf,
    pub start: Instant,
    /// true when this process was started by `--replay` (no evidence is written)
    pub replaying: bool,
    failures: Mutex<Vec<Failure>>,
    samples: Mutex<Vec<Value>>,
    counters: Mutex<BTreeMap<String, u64>>,
    notes: Mutex<Vec<String>>,
}

const MAX_SAMPLES: usize = 8;
const MAX_REPLAYS: usize = 40;

impl Ctx {
    pub fn new(prop: &str, tier: Tier, seed: u64) -> Self {
        let root = std::env::var("VERIF_ROOT").map(PathBuf::from).unwrap_or_else(|_| PathBuf::from("/verif"));
        crate::guard::install_hook();
        Ctx {
            prop: prop.to_string(),
            tier,
            seed,
            root,
            start: Instant::now(),
            replaying: false,
            failures: Mutex::new(Vec::new()),
            samples: Mutex::new(Vec::new()),
            counters: Mutex::new(BTreeMap::new()),
            notes: Mutex::new(Vec::new()),
        }
    }

    pub fn quick(&self) -> bool {
        self.tier == Tier::Quick
    }

    pub fn fail(&self, signature: Value, summary: impl Into<String>, case: Value) {
        self.failures.lock().unwrap().push(Failure { signature, summary: summary.into(), case });
    }

    pub fn num_failures(&self) -> usize {
        self.failures.lock().unwrap().len()
    }

    /// keeps the first few written-out cases for the evidence file
    pub fn sample(&self, v: Value) {
        let mut s = self.samples.lock().unwrap();
        if s.len() < MAX_SAMPLES {
            s.push(v);
        }
    }

    pub fn want_sample(&self) -> bool {
        self.samples.lock().unwrap().len() < MAX_SAMPLES
    }

    pub fn count(&self, key: &str, n: u64) {
        *self.counters.lock().unwrap().entry(key.to_string()).or_insert(0) += n;
    }

    pub fn counter(&self, key: &str) -> u64 {
        *self.counters.lock().unwrap().get(key).unwrap_or(&0)
    }

    pub fn counters(&self) -> BTreeMap<String, u64> {
        self.counters.lock().unwrap().clone()
    }

    pub fn note(&self, s: impl Into<String>) {
        self.notes.lock().unwrap().push(s.into());
    }

    pub fn elapsed(&self) -> f64 {
        self.start.elapsed().as_secs_f64()
    }

    /// Matches failures against known_findings.json, prints the verdict lines, writes replay files
    /// and the evidence file. Returns the process exit code (0 / 1).
    pub fn finish(&self, level: &str, mut coverage: Value, assumptions: &[&str]) -> i32 {
        let mut failures = std::mem::take(&mut *self.failures.lock().unwrap());
        failures.sort_by(|a, b| {
            (a.signature.to_string(), &a.summary).cmp(&(b.signature.to_string(), &b.summary))
        });
        let known = load_known(&self.root, &self.prop);

        let mut known_hits: BTreeMap<String, (String, u64, String)> = BTreeMap::new();
        let mut violations: BTreeMap<String, (Failure, u64)> = BTreeMap::new();
        for f in failures {
            match known.iter().find(|k| k.status == "known" && sig_matches(&k.signature, &f.signature)) {
                Some(k) => {
                    let e = known_hits.entry(k.id.clone()).or_insert((k.description.clone(), 0, f.summary.clone()));
                    e.1 += 1;
                }
                None => {
                    let key = f.signature.to_string();
                    violations.entry(key).and_modify(|e| e.1 += 1).or_insert((f, 1));
                }
            }
        }

        let mut known_list = Vec::new();
        for (id, (desc, n, first)) in &known_hits {
            println!("KNOWN-FINDING: property={} {} {} [{} case(s), e.g. {}]", self.prop, id, desc, n, first.chars().take(300).collect::<String>());
            known_list.push(json!({"id": id, "cases": n, "example": first}));
        }
        for k in known.iter().filter(|k| k.status == "known" && !known_hits.contains_key(&k.id)) {
            println!("note: known finding {} of {} was not reproduced by this run (tier {})", k.id, self.prop, self.tier.name());
        }

        let mut n_viol_cases = 0u64;
        let mut viol_list = Vec::new();
        let dir = self.root.join("replays").join(&self.prop);
        for (i, (_, (f, n))) in violations.iter().enumerate() {
            n_viol_cases += n;
            if i >= MAX_REPLAYS {
                continue;
            }
            if self.replaying {
                // a replay re-reports through the same oracle; it must not overwrite replay files
                println!("VIOLATION property={} replay=(the replayed case reproduces)", self.prop);
                println!("  signature={} :: {}", f.signature, f.summary.chars().take(400).collect::<String>());
                continue;
            }
            let _ = std::fs::create_dir_all(&dir);
            let path = dir.join(format!("{}-{:03}.json", self.tier.name(), i));
            let body = json!({
                "property": self.prop,
                "signature": f.signature,
                "summary": f.summary,
                "cases_with_this_signature": n,
                "case": f.case,
            });
            let _ = std::fs::write(&path, serde_json::to_string_pretty(&body).unwrap());
            println!("VIOLATION property={} replay={}", self.prop, path.display());
            println!("  signature={} :: {}", f.signature, f.summary.chars().take(400).collect::<String>());
            viol_list.push(json!({"signature": f.signature, "summary": f.summary, "cases": n}));
        }
        if violations.len() > MAX_REPLAYS {
            println!("  ({} further distinct violation signatures not written out)", violations.len() - MAX_REPLAYS);
        }

        if !self.replaying {
            let cov = coverage.as_object_mut().expect("coverage must be an object");
            if !cov.contains_key("samples") {
                cov.insert("samples".into(), Value::Array(self.samples.lock().unwrap().clone()));
            }
            let counters = self.counters.lock().unwrap();
            if !counters.is_empty() {
                let mut m = Map::new();
                for (k, v) in counters.iter() {
                    m.insert(k.clone(), json!(v));
                }
                cov.insert("counters".into(), Value::Object(m));
            }
            let notes = self.notes.lock().unwrap();
            if !notes.is_empty() {
                cov.insert("notes".into(), json!(*notes));
            }
            cov.insert("known_findings_reproduced".into(), Value::Array(known_list));
            cov.insert("violating_signatures".into(), Value::Array(viol_list));
            let ev = json!({
                "property_id": self.prop,
                "tier": self.tier.name(),
                "seed": self.seed,
                "level": level,
                "coverage": coverage,
                "assumptions": assumptions,
                "wall_s": (self.elapsed() * 1000.0).round() / 1000.0,
                "violations": n_viol_cases,
            });
            let dir = self.root.join("evidence");
            let _ = std::fs::create_dir_all(&dir);
            std::fs::write(dir.join(format!("{}.json", self.prop)), serde_json::to_string_pretty(&ev).unwrap())
                .expect("cannot write evidence file");
        }
        println!(
            "{} {}: {} violating case(s) in {} signature(s), {} known finding(s) reproduced, {:.1}s",
            self.prop,
            self.tier.name(),
            n_viol_cases,
            violations.len(),
            known_hits.len(),
            self.elapsed()
        );
        if violations.is_empty() {
            0
        } else {
            1
        }
    }
}

pub struct Known {
    pub id: String,
    pub status: String,
    pub signature: Value,
    pub description: String,
}

pub fn load_known(root: &std::path::Path, prop: &str) -> Vec<Known> {
    let path = root.join("known_findings.json");
    let Ok(text) = std::fs::read_to_string(&path) else { return vec![] };
    let v: Value = serde_json::from_str(&text).expect("known_findings.json is not valid JSON");
    let mut out = vec![];
    for e in v["findings"].as_array().cloned().unwrap_or_default() {
        let props: Vec<String> = match &e["property"] {
            Value::String(s) => vec![s.clone()],
            Value::Array(a) => a.iter().filter_map(|x| x.as_str().map(String::from)).collect(),
            _ => vec![],
        };
        if !props.iter().any(|p| p == prop) {
            continue;
        }
        out.push(Known {
            id: e["id"].as_str().unwrap_or("?").to_string(),
            status: e["status"].as_str().unwrap_or("known").to_string(),
            signature: e["signature"].clone(),
            description: e["description"].as_str().unwrap_or("").to_string(),
        });
    }
    out
}

/// every key of the pattern must be present in the failure's signature with an equal value;
/// a pattern value `{"any_of":[..]}` matches any of the listed values.
pub fn sig_matches(pattern: &Value, sig: &Value) -> bool {
    let (Some(p), Some(s)) = (pattern.as_object(), sig.as_object()) else { return false };
    if p.is_empty() {
        return false;
    }
    p.iter().all(|(k, pv)| match s.get(k) {
        None => false,
        Some(sv) => {
            if let Some(alts) = pv.get("any_of").and_then(|a| a.as_array()) {
                alts.iter().any(|a| a == sv)
            } else {
                pv == sv
            }
        }
    })
}
