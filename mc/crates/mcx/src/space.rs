//! Finite, explicitly enumerated spaces. Every enumerator yields each element exactly once in a
//! fixed order, and its cardinality is computable up front, so "exhaustive" is a checked fact
//! (`visited == cardinality`) and not a label.

/// all tuples of length `n` over `alphabet` (|alphabet|^n tuples, lexicographic)
pub fn tuples<T: Clone>(alphabet: &[T], n: usize) -> Vec<Vec<T>> {
    let mut out: Vec<Vec<T>> = vec![vec![]];
    for _ in 0..n {
        let mut next = Vec::with_capacity(out.len() * alphabet.len());
        for t in &out {
            for a in alphabet {
                let mut t2 = t.clone();
                t2.push(a.clone());
                next.push(t2);
            }
        }
        out = next;
    }
    out
}

pub fn tuples_card(alphabet: usize, n: usize) -> u64 {
    (alphabet as u64).pow(n as u32)
}

/// all sequences of length `lo..=hi` over `alphabet`, shortest first
pub fn sequences<T: Clone>(alphabet: &[T], lo: usize, hi: usize) -> Vec<Vec<T>> {
    let mut out = vec![];
    for n in lo..=hi {
        out.extend(tuples(alphabet, n));
    }
    out
}

pub fn sequences_card(alphabet: usize, lo: usize, hi: usize) -> u64 {
    (lo..=hi).map(|n| tuples_card(alphabet, n)).sum()
}

/// index-based lazy variant of `tuples`: the `idx`-th tuple (mixed radix, most significant first)
pub fn nth_tuple<T: Clone>(alphabet: &[T], n: usize, mut idx: u64) -> Vec<T> {
    let k = alphabet.len() as u64;
    let mut digits = vec![0usize; n];
    for d in digits.iter_mut().rev() {
        *d = (idx % k) as usize;
        idx /= k;
    }
    digits.into_iter().map(|d| alphabet[d].clone()).collect()
}

/// cartesian product of two slices
pub fn product2<A: Clone, B: Clone>(a: &[A], b: &[B]) -> Vec<(A, B)> {
    let mut out = Vec::with_capacity(a.len() * b.len());
    for x in a {
        for y in b {
            out.push((x.clone(), y.clone()));
        }
    }
    out
}

/// all subsets of `0..n` of size exactly `k` (ascending index vectors)
pub fn choose(n: usize, k: usize) -> Vec<Vec<usize>> {
    fn rec(start: usize, n: usize, k: usize, cur: &mut Vec<usize>, out: &mut Vec<Vec<usize>>) {
        if cur.len() == k {
            out.push(cur.clone());
            return;
        }
        for i in start..n {
            cur.push(i);
            rec(i + 1, n, k, cur, out);
            cur.pop();
        }
    }
    let mut out = vec![];
    rec(0, n, k, &mut vec![], &mut out);
    out
}

/// Deviation-bounded enumeration: all ways to replace at most `k` of `points` default answers by one
/// of `alts` alternatives each. Yields vectors of (point index, alternative index); the empty
/// vector (0 deviations) comes first, then all single deviations, then pairs, ...
pub fn deviations(points: usize, alts: usize, k: usize) -> Vec<Vec<(usize, usize)>> {
    let mut out = vec![vec![]];
    for d in 1..=k.min(points) {
        for pos in choose(points, d) {
            for alt in tuples(&(0..alts).collect::<Vec<_>>(), d) {
                out.push(pos.iter().cloned().zip(alt.into_iter()).collect());
            }
        }
    }
    out
}

/// small deterministic generator for the few places that need *stated* opaque values
/// (challenge vectors, payload digests) derived from VERIF_SEED. Never used to sample a space.
#[derive(Clone)]
pub struct SplitMix(pub u64);
impl SplitMix {
    pub fn next(&mut self) -> u64 {
        self.0 = self.0.wrapping_add(0x9E3779B97F4A7C15);
        let mut z = self.0;
        z = (z ^ (z >> 30)).wrapping_mul(0xBF58476D1CE4E5B9);
        z = (z ^ (z >> 27)).wrapping_mul(0x94D049BB133111EB);
        z ^ (z >> 31)
    }
}

#[cfg(test)]
mod tests {
    use super::*;
    #[test]
    fn cards() {
        assert_eq!(tuples(&[0, 1, 2], 3).len() as u64, tuples_card(3, 3));
        assert_eq!(sequences(&[0, 1], 0, 4).len() as u64, sequences_card(2, 0, 4));
        assert_eq!(choose(5, 2).len(), 10);
        assert_eq!(deviations(4, 2, 2).len(), 1 + 4 * 2 + 6 * 4);
        assert_eq!(nth_tuple(&[0, 1, 2], 3, 5), tuples(&[0, 1, 2], 3)[5]);
    }
}
