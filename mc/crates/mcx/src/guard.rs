//! Panic capture: subject calls run inside `catch`, the panic message becomes part of the
//! observation (and of a violation's signature) instead of tearing the explorer down.

use std::cell::RefCell;
use std::panic::{self, AssertUnwindSafe};
use std::sync::Once;

thread_local! {
    static LAST_PANIC: RefCell<Option<String>> = const { RefCell::new(None) };
    static QUIET: RefCell<bool> = const { RefCell::new(false) };
}

static HOOK: Once = Once::new();

/// Installs a panic hook that records message + location in a thread local. While a `catch` is
/// active on the panicking thread nothing is printed; outside of `catch` (harness bugs) the default
/// behaviour of printing to stderr is kept.
pub fn install_hook() {
    HOOK.call_once(|| {
        let default = panic::take_hook();
        panic::set_hook(Box::new(move |info| {
            let msg = if let Some(s) = info.payload().downcast_ref::<&str>() {
                (*s).to_string()
            } else if let Some(s) = info.payload().downcast_ref::<String>() {
                s.clone()
            } else {
                "<non-string panic payload>".to_string()
            };
            let loc = info
                .location()
                .map(|l| format!("{}:{}", l.file(), l.line()))
                .unwrap_or_else(|| "<unknown>".into());
            let quiet = QUIET.with(|q| *q.borrow());
            LAST_PANIC.with(|p| *p.borrow_mut() = Some(format!("{msg} @ {loc}")));
            if !quiet {
                default(info);
            }
        }));
    });
}

/// Runs `f`; a panic is returned as `Err(message @ file:line)`.
pub fn catch<T>(f: impl FnOnce() -> T) -> Result<T, String> {
    install_hook();
    let prev = QUIET.with(|q| q.replace(true));
    LAST_PANIC.with(|p| *p.borrow_mut() = None);
    let r = panic::catch_unwind(AssertUnwindSafe(f));
    QUIET.with(|q| *q.borrow_mut() = prev);
    match r {
        Ok(v) => Ok(v),
        Err(_) => Err(LAST_PANIC
            .with(|p| p.borrow_mut().take())
            .unwrap_or_else(|| "<panic without message>".into())),
    }
}

/// Strips the absolute prefix of a panic location so that signatures are stable across checkouts.
pub fn short_panic(msg: &str) -> String {
    let mut s = msg.to_string();
    if let Some(i) = s.find(" @ ") {
        let (m, loc) = s.split_at(i);
        let loc = &loc[3..];
        let loc = loc
            .rsplit_once("/registry/src/")
            .map(|(_, r)| r.split_once('/').map(|(_, r)| r).unwrap_or(r))
            .unwrap_or(loc);
        let loc = loc.strip_prefix("/repo/").unwrap_or(loc);
        let m: String = m.chars().take(160).collect();
        s = format!("{m} @ {loc}");
    }
    s
}
