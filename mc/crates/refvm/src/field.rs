//! Goldilocks field p = 2^64 - 2^32 + 1 and its quadratic extension x^2 - x + 2.

pub const P: u64 = 0xFFFF_FFFF_0000_0001;

pub fn add(a: u64, b: u64) -> u64 {
    ((a as u128 + b as u128) % P as u128) as u64
}
pub fn sub(a: u64, b: u64) -> u64 {
    ((a as u128 + P as u128 - (b % P) as u128) % P as u128) as u64
}
pub fn mul(a: u64, b: u64) -> u64 {
    ((a as u128 * b as u128) % P as u128) as u64
}
pub fn neg(a: u64) -> u64 {
    sub(0, a)
}
pub fn pow(mut a: u64, mut e: u64) -> u64 {
    let mut r = 1u64;
    while e > 0 {
        if e & 1 == 1 {
            r = mul(r, a);
        }
        a = mul(a, a);
        e >>= 1;
    }
    r
}
/// multiplicative inverse by Fermat; inv(0) = 0 (callers test for zero first)
pub fn inv(a: u64) -> u64 {
    pow(a, P - 2)
}

/// (a0, a1) = a0 + a1 * x  with  x^2 = x - 2
pub type Ext2 = (u64, u64);

pub fn ext2_add(a: Ext2, b: Ext2) -> Ext2 {
    (add(a.0, b.0), add(a.1, b.1))
}
pub fn ext2_sub(a: Ext2, b: Ext2) -> Ext2 {
    (sub(a.0, b.0), sub(a.1, b.1))
}
pub fn ext2_neg(a: Ext2) -> Ext2 {
    (neg(a.0), neg(a.1))
}
pub fn ext2_mul(a: Ext2, b: Ext2) -> Ext2 {
    // (a0 + a1 x)(b0 + b1 x) = a0 b0 + (a0 b1 + a1 b0) x + a1 b1 (x - 2)
    let a1b1 = mul(a.1, b.1);
    let c0 = sub(mul(a.0, b.0), add(a1b1, a1b1));
    let c1 = add(add(mul(a.0, b.1), mul(a.1, b.0)), a1b1);
    (c0, c1)
}
/// inverse via the norm: conj(a0 + a1 x) = (a0 + a1) - a1 x, N = a * conj(a) in the base field
pub fn ext2_inv(a: Ext2) -> Ext2 {
    let conj = (add(a.0, a.1), neg(a.1));
    let n = ext2_mul(a, conj);
    debug_assert_eq!(n.1, 0);
    let ni = inv(n.0);
    (mul(conj.0, ni), mul(conj.1, ni))
}

#[cfg(test)]
mod tests {
    use super::*;
    #[test]
    fn basics() {
        assert_eq!(add(P - 1, 1), 0);
        assert_eq!(sub(0, 1), P - 1);
        assert_eq!(mul(inv(7), 7), 1);
        assert_eq!(pow(2, 64), (1u128 << 64).rem_euclid(P as u128) as u64);
        for a in [(1, 0), (0, 1), (5, 7), (P - 1, P - 2), (1 << 32, 3)] {
            assert_eq!(ext2_mul(a, ext2_inv(a)), (1, 0), "{a:?}");
        }
        // x * x = x - 2
        assert_eq!(ext2_mul((0, 1), (0, 1)), (P - 2, 1));
    }
}
