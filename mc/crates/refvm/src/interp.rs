//! Instruction-level reference interpreter of Miden assembly, written from
//! docs/src/user_docs/assembly/*.md (and docs/src/design/stack/io_ops.md for the element order of
//! memory words). State: unbounded stack with the "never below 16, zeros shifted in" rule,
//! per-context zero-initialised word memory, abstract per-frame locals, advice stack.
//!
//! Every instruction has a result function, a failure predicate and an *undefined* predicate: inputs
//! in the region the documentation calls "Undefined" (or leaves unspecified) end the run with
//! `Stop::DontCare`, which the oracles do not compare.

use crate::ast::{Node, Proc, Prog};
use crate::field as f;
use std::collections::{BTreeMap, BTreeSet, VecDeque};

pub type Word = [u64; 4];
pub const U32: u64 = 1 << 32;

#[derive(Clone, Debug, PartialEq, Eq)]
pub enum Fail {
    DivideByZero,
    NotBinary,
    NotU32,
    /// a u32 assertion (u32assert / u32assert2 / u32assertw) failed: the error carries the
    /// instruction's error code (0 when none is given)
    NotU32Code(u32),
    /// failed assertion with its error code
    Assert(u32),
    AdviceEmpty,
    MemAddr,
    StackDepthOnReturn(usize),
    CallerNotInSyscall,
    SyscallTargetNotInKernel,
    DynTargetNotFound,
    /// documented "Fails if …" without a documented error class (pow2 > 63, ilog2 of 0, exp bits)
    Unclassified(&'static str),
    /// assembly-time rejection (out-of-range parameter)
    Asm(&'static str),
}

#[derive(Clone, Debug, PartialEq, Eq)]
pub enum Stop {
    Fail(Fail),
    /// documented-undefined / unspecified behaviour reached: the run is not compared
    DontCare(String),
    /// the harness asked the reference to interpret something it does not model (harness bug)
    Unsupported(String),
    /// step budget exhausted (non-terminating program)
    Budget,
}

#[derive(Clone, Debug)]
struct Frame {
    /// per local word, per element: None = never written in this frame ("garbage")
    vals: Vec<[Option<u64>; 4]>,
}

#[derive(Clone, Debug)]
pub struct Vm<'a> {
    pub prog: &'a Prog,
    /// procedure name -> MAST root (supplied by the harness; hashing itself is C08's subject)
    pub hashes: BTreeMap<String, Word>,
    /// index 0 = top of stack; len >= 16 always
    pub stack: Vec<u64>,
    /// memory per context, indexed by creation order (0 = root)
    pub mem: Vec<BTreeMap<u64, Word>>,
    pub ctx: usize,
    pub advice: VecDeque<u64>,
    frames: Vec<Frame>,
    pub in_syscall: bool,
    /// hash of the procedure that started each context (root: zeros)
    pub ctx_fn_hash: Vec<Word>,
    /// hash `caller` returns while inside a syscall
    caller_hash: Word,
    pub steps: u64,
    pub max_steps: u64,
    /// names referenced by call/syscall/procref anywhere in code reachable from main
    referenced: BTreeSet<String>,
    /// how many contexts were created, how many calls returned (for coverage counters)
    pub contexts_created: usize,
    /// true once a multi-operation instruction made the stack dip below 16 and rise again: the
    /// real VM clamps the depth per VM operation, so from then on the exact depth (number of
    /// trailing zeros beyond position 15) is not determined at instruction level
    pub depth_uncertain: bool,
    min_len: usize,
    rose_after_dip: bool,
    /// parts of the stack hidden from the current context by enclosing call/syscall frames
    hidden_stack: Vec<Vec<u64>>,
    /// contexts and locals frames of the enclosing (suspended) call frames
    suspended: Vec<(usize, Vec<Frame>, bool)>,
    /// canonical text of the complete VM state recorded by the pseudo instruction `@snap`
    pub snapshot: Option<String>,
}

/// instructions the instruction reference lists with "(1 cycle)": a single VM operation, for which
/// the depth rule (shift left keeps depth 16) applies to the instruction as a whole
fn single_op(name: &str, has_param: bool) -> bool {
    match name {
        "assert" | "neg" | "inv" | "not" | "and" | "or" | "u32assert2" | "u32split"
        | "u32overflowing_add3" | "u32overflowing_madd" | "u32and" | "u32xor" | "drop" | "swapdw" | "cswap"
        | "cswapw" | "sdepth" | "clk" | "caller" | "adv_loadw" | "adv_pipe" | "mem_stream" => true,
        "add" | "mul" | "eq" | "u32overflowing_add" | "u32overflowing_sub" | "u32overflowing_mul"
        | "u32divmod" | "mem_load" | "mem_loadw" | "mem_storew" => !has_param,
        "swapw" | "swap" | "dup" | "movup" | "movdn" => true, // 1 cycle for most indices; none of them dips and rises
        _ => false,
    }
}

fn parse_u64(s: &str) -> Option<u64> {
    if let Some(h) = s.strip_prefix("0x") {
        if h.is_empty() || h.len() > 16 {
            return None;
        }
        u64::from_str_radix(h, 16).ok()
    } else {
        s.parse::<u64>().ok()
    }
}

/// long hex form: 64 hex digits = 4 little-endian 8-byte elements
fn parse_long_hex(s: &str) -> Option<Vec<u64>> {
    let h = s.strip_prefix("0x")?;
    if h.len() != 64 {
        return None;
    }
    let mut out = vec![];
    for i in 0..4 {
        let chunk = &h[i * 16..(i + 1) * 16];
        let mut bytes = [0u8; 8];
        for j in 0..8 {
            bytes[j] = u8::from_str_radix(&chunk[j * 2..j * 2 + 2], 16).ok()?;
        }
        out.push(u64::from_le_bytes(bytes));
    }
    Some(out)
}

fn collect_refs(prog: &Prog, body: &[Node], seen: &mut BTreeSet<String>, refs: &mut BTreeSet<String>) {
    for n in body {
        match n {
            Node::If(a, b) => {
                collect_refs(prog, a, seen, refs);
                collect_refs(prog, b, seen, refs);
            }
            Node::While(b) | Node::Repeat(_, b) => collect_refs(prog, b, seen, refs),
            Node::Exec(name) => {
                if seen.insert(name.clone()) {
                    if let Some(p) = prog.find_proc(name) {
                        collect_refs(prog, &p.body, seen, refs);
                    }
                }
            }
            Node::Call(name) | Node::ProcRef(name) => {
                refs.insert(name.clone());
                if seen.insert(name.clone()) {
                    if let Some(p) = prog.find_proc(name) {
                        collect_refs(prog, &p.body, seen, refs);
                    }
                }
            }
            Node::Syscall(name) => {
                refs.insert(name.clone());
            }
            _ => {}
        }
    }
}

impl<'a> Vm<'a> {
    /// `stack_top_first`: initial stack, element 0 on top (padded with zeros to 16)
    pub fn new(prog: &'a Prog, stack_top_first: &[u64], advice: &[u64], hashes: BTreeMap<String, Word>) -> Self {
        let mut stack = stack_top_first.to_vec();
        while stack.len() < 16 {
            stack.push(0);
        }
        let mut refs = BTreeSet::new();
        collect_refs(prog, &prog.body, &mut BTreeSet::new(), &mut refs);
        Vm {
            prog,
            hashes,
            stack,
            mem: vec![BTreeMap::new()],
            ctx: 0,
            advice: advice.iter().cloned().collect(),
            frames: vec![],
            in_syscall: false,
            ctx_fn_hash: vec![[0; 4]],
            caller_hash: [0; 4],
            steps: 0,
            max_steps: 200_000,
            referenced: refs,
            contexts_created: 0,
            depth_uncertain: false,
            min_len: 16,
            rose_after_dip: false,
            hidden_stack: vec![],
            suspended: vec![],
            snapshot: None,
        }
    }

    pub fn run(&mut self) -> Result<(), Stop> {
        let body = self.prog.body.clone();
        self.exec_body(&body)
    }

    // ---------------------------------------------------------------------------------------
    // stack primitives
    // ---------------------------------------------------------------------------------------
    /// pops without padding: within one instruction the stack may be shorter than 16; it is
    /// padded back with zeros when the instruction completes (`finish_instruction`)
    fn pop(&mut self) -> u64 {
        let v = if self.stack.is_empty() { 0 } else { self.stack.remove(0) };
        self.min_len = self.min_len.min(self.stack.len());
        v
    }
    fn push(&mut self, v: u64) {
        if self.stack.len() < 16 && self.min_len < 16 {
            self.rose_after_dip = true;
        }
        self.stack.insert(0, v);
    }
    fn peek(&self, i: usize) -> u64 {
        self.stack.get(i).cloned().unwrap_or(0)
    }
    fn pad16(&mut self) {
        while self.stack.len() < 16 {
            self.stack.push(0);
        }
    }
    fn popw(&mut self) -> Word {
        // word on top of the stack [s0,s1,s2,s3] <-> memory word [s3,s2,s1,s0]
        let s0 = self.pop();
        let s1 = self.pop();
        let s2 = self.pop();
        let s3 = self.pop();
        [s3, s2, s1, s0]
    }
    fn pushw(&mut self, w: Word) {
        self.push(w[0]);
        self.push(w[1]);
        self.push(w[2]);
        self.push(w[3]);
    }
    fn bin(v: u64) -> Result<u64, Stop> {
        if v > 1 {
            Err(Stop::Fail(Fail::NotBinary))
        } else {
            Ok(v)
        }
    }
    fn tick(&mut self) -> Result<(), Stop> {
        self.steps += 1;
        if self.steps > self.max_steps {
            Err(Stop::Budget)
        } else {
            Ok(())
        }
    }

    // ---------------------------------------------------------------------------------------
    // control flow
    // ---------------------------------------------------------------------------------------
    pub fn exec_body(&mut self, body: &[Node]) -> Result<(), Stop> {
        for n in body {
            self.tick()?;
            match n {
                Node::Op(s) => self.exec_op(s)?,
                Node::If(t, e) => {
                    let c = Self::bin(self.pop())?;
                    self.pad16();
                    if c == 1 {
                        self.exec_body(t)?
                    } else {
                        self.exec_body(e)?
                    }
                }
                Node::While(b) => {
                    let mut c = Self::bin(self.pop())?;
                    self.pad16();
                    while c == 1 {
                        self.tick()?;
                        self.exec_body(b)?;
                        c = Self::bin(self.pop())?;
                        self.pad16();
                    }
                }
                Node::Repeat(k, b) => {
                    for _ in 0..*k {
                        self.exec_body(b)?;
                    }
                }
                Node::Exec(name) => {
                    let p = self
                        .prog
                        .find_proc(name)
                        .ok_or_else(|| Stop::Unsupported(format!("exec of unknown proc {name}")))?;
                    self.run_proc(p)?;
                }
                Node::Call(name) => {
                    let p = self
                        .prog
                        .find_proc(name)
                        .ok_or_else(|| Stop::Unsupported(format!("call of unknown proc {name}")))?;
                    let h = self.hash_of(name)?;
                    self.in_new_context(p, h)?;
                }
                Node::Syscall(name) => {
                    let p = self
                        .prog
                        .find_kernel_proc(name)
                        .ok_or(Stop::Fail(Fail::SyscallTargetNotInKernel))?;
                    self.syscall(p)?;
                }
                Node::ProcRef(name) => {
                    let h = self.hash_of(name)?;
                    // pushes the MAST root so that it can be consumed by dynexec/dyncall:
                    // the element order on the stack is that of a word pushed with push.a.b.c.d
                    self.pushw(h);
                }
                Node::DynExec | Node::DynCall => {
                    let target: Word = [self.peek(3), self.peek(2), self.peek(1), self.peek(0)];
                    let found = self.hashes.iter().find(|(_, h)| **h == target).map(|(n, _)| n.clone());
                    let Some(name) = found else { return Err(Stop::Fail(Fail::DynTargetNotFound)) };
                    if !self.referenced.contains(&name) {
                        return Err(Stop::DontCare(format!("dyn target {name} exists but is not referenced statically")));
                    }
                    let p = self
                        .prog
                        .find_proc(&name)
                        .ok_or_else(|| Stop::Unsupported(format!("dyn target {name} is not a local proc")))?;
                    if matches!(n, Node::DynExec) {
                        self.run_proc(p)?;
                    } else {
                        self.in_new_context(p, target)?;
                    }
                }
            }
        }
        Ok(())
    }

    fn hash_of(&self, name: &str) -> Result<Word, Stop> {
        self.hashes
            .get(name)
            .cloned()
            .ok_or_else(|| Stop::Unsupported(format!("no MAST root supplied for {name}")))
    }

    /// exec semantics: the body pasted at the call site, with its own locals frame
    fn run_proc(&mut self, p: &Proc) -> Result<(), Stop> {
        self.frames.push(Frame { vals: vec![[None; 4]; p.locals as usize] });
        let r = self.exec_body(&p.body);
        self.frames.pop();
        r
    }

    fn in_new_context(&mut self, p: &Proc, fn_hash: Word) -> Result<(), Stop> {
        if self.in_syscall {
            return Err(Stop::DontCare("call inside a syscall".into()));
        }
        let hidden: Vec<u64> = self.stack.split_off(16);
        self.hidden_stack.push(hidden);
        let frames = std::mem::take(&mut self.frames);
        self.suspended.push((self.ctx, frames, false));
        self.mem.push(BTreeMap::new());
        self.ctx_fn_hash.push(fn_hash);
        self.ctx = self.mem.len() - 1;
        self.contexts_created += 1;
        let r = self.run_proc(p);
        let (ctx, frames, _) = self.suspended.pop().unwrap();
        let hidden = self.hidden_stack.pop().unwrap();
        self.frames = frames;
        r?;
        if self.stack.len() != 16 {
            return Err(Stop::Fail(Fail::StackDepthOnReturn(self.stack.len())));
        }
        self.stack.extend(hidden);
        self.ctx = ctx;
        Ok(())
    }

    fn syscall(&mut self, p: &Proc) -> Result<(), Stop> {
        if self.in_syscall {
            return Err(Stop::DontCare("syscall inside a syscall".into()));
        }
        let hidden: Vec<u64> = self.stack.split_off(16);
        self.hidden_stack.push(hidden);
        let saved_caller = self.caller_hash;
        self.caller_hash = self.ctx_fn_hash[self.ctx];
        // the locals frames of the calling context stay live but are not addressable from the
        // kernel procedure: suspend them (abstract frames never alias)
        let frames = std::mem::take(&mut self.frames);
        self.suspended.push((self.ctx, frames, true));
        self.ctx = 0;
        self.in_syscall = true;
        let r = self.run_proc(p);
        let (ctx, frames, _) = self.suspended.pop().unwrap();
        let hidden = self.hidden_stack.pop().unwrap();
        self.frames = frames;
        self.in_syscall = false;
        self.caller_hash = saved_caller;
        r?;
        if self.stack.len() != 16 {
            return Err(Stop::Fail(Fail::StackDepthOnReturn(self.stack.len())));
        }
        self.stack.extend(hidden);
        self.ctx = ctx;
        Ok(())
    }

    /// canonical text of everything that can influence the future of the run
    fn take_snapshot(&self) -> String {
        let mut live: Vec<usize> = self.suspended.iter().map(|s| s.0).collect();
        live.push(self.ctx);
        live.push(0);
        live.sort();
        live.dedup();
        // contexts are renumbered by liveness order so that dead contexts do not distinguish states
        let mems: Vec<String> = live.iter().map(|c| format!("{:?}", self.mem[*c])).collect();
        let frames = |f: &Vec<Frame>| f.iter().map(|x| format!("{:?}", x.vals)).collect::<Vec<_>>().join("|");
        let susp: Vec<String> = self
            .suspended
            .iter()
            .map(|(c, f, sys)| format!("{}:{}:{}", live.iter().position(|x| x == c).unwrap(), frames(f), sys))
            .collect();
        format!(
            "stack={:?};hidden={:?};ctx={};mems={:?};frames={};susp={:?};sys={};caller={:?};fnh={:?};adv={:?};unc={}",
            self.stack,
            self.hidden_stack,
            live.iter().position(|x| *x == self.ctx).unwrap(),
            mems,
            frames(&self.frames),
            susp,
            self.in_syscall,
            self.caller_hash,
            self.ctx_fn_hash[self.ctx],
            self.advice,
            self.depth_uncertain
        )
    }

    // ---------------------------------------------------------------------------------------
    // memory
    // ---------------------------------------------------------------------------------------
    fn addr(a: u64) -> Result<u64, Stop> {
        if a >= U32 {
            Err(Stop::Fail(Fail::MemAddr))
        } else {
            Ok(a)
        }
    }
    fn mem_read(&self, a: u64) -> Word {
        self.mem[self.ctx].get(&a).cloned().unwrap_or([0; 4])
    }
    fn mem_write(&mut self, a: u64, w: Word) {
        self.mem[self.ctx].insert(a, w);
    }
    fn local(&mut self, i: usize) -> Result<&mut [Option<u64>; 4], Stop> {
        let fr = self
            .frames
            .last_mut()
            .ok_or_else(|| Stop::Unsupported("local access outside a procedure".into()))?;
        fr.vals.get_mut(i).ok_or(Stop::Fail(Fail::Asm("local index out of range")))
    }

    // ---------------------------------------------------------------------------------------
    // instructions
    // ---------------------------------------------------------------------------------------
    fn u32pair(&self, n: usize) -> Result<(), Stop> {
        for i in 0..n {
            if self.peek(i) >= U32 {
                return Err(Stop::DontCare(format!("u32 operand {} >= 2^32 (documented undefined)", i)));
            }
        }
        Ok(())
    }
    fn u32checked(&self, n: usize) -> Result<(), Stop> {
        for i in 0..n {
            if self.peek(i) >= U32 {
                return Err(Stop::Fail(Fail::NotU32));
            }
        }
        Ok(())
    }

    pub fn exec_op(&mut self, tok: &str) -> Result<(), Stop> {
        if tok == "@snap" {
            self.snapshot = Some(self.take_snapshot());
            return Ok(());
        }
        self.min_len = self.stack.len();
        self.rose_after_dip = false;
        let r = self.exec_op_inner(tok);
        self.pad16();
        let name = tok.split('.').next().unwrap();
        if self.rose_after_dip && !single_op(name, tok.contains('.')) {
            self.depth_uncertain = true;
        }
        r
    }

    fn exec_op_inner(&mut self, tok: &str) -> Result<(), Stop> {
        let mut parts = tok.split('.');
        let name = parts.next().unwrap();
        let params: Vec<&str> = parts.collect();
        // immediate operand forms: the operand named b is "not present on the stack"
        let imm = |idx: usize| -> Option<u64> { params.get(idx).and_then(|s| parse_u64(s)) };
        let err_code = || -> Result<u32, Stop> {
            match params.first() {
                None => Ok(0),
                Some(p) => {
                    let v = p.strip_prefix("err=").and_then(parse_u64).ok_or(Stop::Unsupported(format!("bad err param {tok}")))?;
                    if v >= U32 {
                        Err(Stop::Fail(Fail::Asm("error code out of range")))
                    } else {
                        Ok(v as u32)
                    }
                }
            }
        };
        // field immediates must be canonical field elements
        let felt_imm = |idx: usize| -> Result<Option<u64>, Stop> {
            match params.get(idx) {
                None => Ok(None),
                Some(s) => match parse_u64(s) {
                    Some(v) if v < f::P => Ok(Some(v)),
                    _ => Err(Stop::Fail(Fail::Asm("immediate is not a field element"))),
                },
            }
        };
        let u32_imm = |idx: usize| -> Result<Option<u64>, Stop> {
            match params.get(idx) {
                None => Ok(None),
                Some(s) => match parse_u64(s) {
                    Some(v) if v < U32 => Ok(Some(v)),
                    _ => Err(Stop::Fail(Fail::Asm("immediate is not a u32"))),
                },
            }
        };
        let idx_in = |lo: u64, hi: u64, default: Option<u64>| -> Result<usize, Stop> {
            match params.first() {
                None => default.map(|d| d as usize).ok_or(Stop::Fail(Fail::Asm("missing parameter"))),
                Some(s) => match parse_u64(s) {
                    Some(v) if v >= lo && v <= hi && !s.starts_with("0x") => Ok(v as usize),
                    _ => Err(Stop::Fail(Fail::Asm("parameter out of range"))),
                },
            }
        };

        match name {
            // ---------------- assertions ----------------
            "assert" => {
                let code = err_code()?;
                if self.pop() != 1 {
                    return Err(Stop::Fail(Fail::Assert(code)));
                }
            }
            "assertz" => {
                let code = err_code()?;
                if self.pop() != 0 {
                    return Err(Stop::Fail(Fail::Assert(code)));
                }
            }
            "assert_eq" => {
                let code = err_code()?;
                let b = self.pop();
                let a = self.pop();
                if a != b {
                    return Err(Stop::Fail(Fail::Assert(code)));
                }
            }
            "assert_eqw" => {
                let code = err_code()?;
                let b = self.popw();
                let a = self.popw();
                if a != b {
                    return Err(Stop::Fail(Fail::Assert(code)));
                }
            }
            // ---------------- field arithmetic ----------------
            "add" | "sub" | "mul" | "div" => {
                let b = match felt_imm(0)? {
                    Some(b) => b,
                    None => self.pop(),
                };
                let a = self.pop();
                let c = match name {
                    "add" => f::add(a, b),
                    "sub" => f::sub(a, b),
                    "mul" => f::mul(a, b),
                    _ => {
                        if b == 0 {
                            if params.is_empty() {
                                return Err(Stop::Fail(Fail::DivideByZero));
                            } else {
                                return Err(Stop::Fail(Fail::Asm("division by zero immediate")));
                            }
                        }
                        f::mul(a, f::inv(b))
                    }
                };
                self.push(c);
            }
            "neg" => {
                let a = self.pop();
                self.push(f::neg(a));
            }
            "inv" => {
                let a = self.pop();
                if a == 0 {
                    return Err(Stop::Fail(Fail::DivideByZero));
                }
                self.push(f::inv(a));
            }
            "pow2" => {
                let a = self.pop();
                if a > 63 {
                    return Err(Stop::Fail(Fail::Unclassified("pow2 exponent > 63")));
                }
                self.push(f::pow(2, a));
            }
            "exp" => {
                // exp: [b, a] -> a^b ; exp.uXX: b must fit XX bits ; exp.b: immediate exponent
                match params.first() {
                    None => {
                        let b = self.pop();
                        let a = self.pop();
                        self.push(f::pow(a, b));
                    }
                    Some(p) if p.starts_with('u') => {
                        let bits: u64 = p[1..].parse().map_err(|_| Stop::Unsupported(format!("bad exp param {tok}")))?;
                        if bits > 64 {
                            return Err(Stop::Fail(Fail::Asm("exp bit length out of range")));
                        }
                        let b = self.pop();
                        let a = self.pop();
                        if bits < 64 && b >= (1u64 << bits) {
                            return Err(Stop::Fail(Fail::Unclassified("exponent does not fit the declared bit length")));
                        }
                        self.push(f::pow(a, b));
                    }
                    Some(_) => {
                        let b = felt_imm(0)?.ok_or(Stop::Unsupported(format!("bad exp param {tok}")))?;
                        let a = self.pop();
                        self.push(f::pow(a, b));
                    }
                }
            }
            "ilog2" => {
                let a = self.pop();
                if a == 0 {
                    return Err(Stop::Fail(Fail::Unclassified("ilog2 of zero")));
                }
                self.push(63 - a.leading_zeros() as u64);
            }
            "not" => {
                let a = Self::bin(self.pop())?;
                self.push(1 - a);
            }
            "and" | "or" | "xor" => {
                let b = self.pop();
                let a = self.pop();
                if a > 1 || b > 1 {
                    return Err(Stop::Fail(Fail::NotBinary));
                }
                self.push(match name {
                    "and" => a & b,
                    "or" => a | b,
                    _ => a ^ b,
                });
            }
            // ---------------- comparisons ----------------
            "eq" | "neq" => {
                let b = match felt_imm(0)? {
                    Some(b) => b,
                    None => self.pop(),
                };
                let a = self.pop();
                self.push(((a == b) == (name == "eq")) as u64);
            }
            "lt" | "lte" | "gt" | "gte" => {
                let b = self.pop();
                let a = self.pop();
                self.push(match name {
                    "lt" => a < b,
                    "lte" => a <= b,
                    "gt" => a > b,
                    _ => a >= b,
                } as u64);
            }
            "is_odd" => {
                let a = self.pop();
                self.push(a & 1);
            }
            "eqw" => {
                let a: Vec<u64> = (0..4).map(|i| self.peek(i)).collect();
                let b: Vec<u64> = (4..8).map(|i| self.peek(i)).collect();
                self.push((a == b) as u64);
            }
            // ---------------- ext2 ----------------
            "ext2add" | "ext2sub" | "ext2mul" | "ext2div" => {
                let b1 = self.pop();
                let b0 = self.pop();
                let a1 = self.pop();
                let a0 = self.pop();
                let c = match name {
                    "ext2add" => f::ext2_add((a0, a1), (b0, b1)),
                    "ext2sub" => f::ext2_sub((a0, a1), (b0, b1)),
                    "ext2mul" => f::ext2_mul((a0, a1), (b0, b1)),
                    _ => {
                        if (b0, b1) == (0, 0) {
                            return Err(Stop::Fail(Fail::Unclassified("ext2div by zero")));
                        }
                        f::ext2_mul((a0, a1), f::ext2_inv((b0, b1)))
                    }
                };
                self.push(c.0);
                self.push(c.1);
            }
            "ext2neg" | "ext2inv" => {
                let a1 = self.pop();
                let a0 = self.pop();
                let c = if name == "ext2neg" {
                    f::ext2_neg((a0, a1))
                } else {
                    if (a0, a1) == (0, 0) {
                        return Err(Stop::Fail(Fail::Unclassified("ext2inv of zero")));
                    }
                    f::ext2_inv((a0, a1))
                };
                self.push(c.0);
                self.push(c.1);
            }
            // ---------------- u32 conversions and tests ----------------
            "u32test" => {
                let a = self.peek(0);
                self.push((a < U32) as u64);
            }
            "u32testw" => {
                let ok = (0..4).all(|i| self.peek(i) < U32);
                self.push(ok as u64);
            }
            "u32assert" | "u32assert2" | "u32assertw" => {
                let code = err_code()?;
                let n = match name {
                    "u32assert" => 1,
                    "u32assert2" => 2,
                    _ => 4,
                };
                if (0..n).any(|i| self.peek(i) >= U32) {
                    // documented: "Fails if a >= 2^32"; the error carries the code
                    return Err(Stop::Fail(Fail::NotU32Code(code)));
                }
            }
            "u32cast" => {
                let a = self.pop();
                self.push(a % U32);
            }
            "u32split" => {
                let a = self.pop();
                self.push(a % U32);
                self.push(a / U32);
            }
            // ---------------- u32 arithmetic ----------------
            "u32overflowing_add" | "u32wrapping_add" | "u32overflowing_sub" | "u32wrapping_sub"
            | "u32overflowing_mul" | "u32wrapping_mul" | "u32div" | "u32mod" | "u32divmod" => {
                let b = match u32_imm(0)? {
                    Some(b) => b,
                    None => {
                        if self.peek(0) >= U32 {
                            return Err(Stop::DontCare("u32 operand b >= 2^32".into()));
                        }
                        self.pop()
                    }
                };
                if self.peek(0) >= U32 {
                    return Err(Stop::DontCare("u32 operand a >= 2^32".into()));
                }
                let a = self.pop();
                match name {
                    "u32overflowing_add" => {
                        let s = a + b;
                        self.push(s % U32);
                        self.push(s / U32);
                    }
                    "u32wrapping_add" => self.push((a + b) % U32),
                    "u32overflowing_sub" => {
                        self.push(a.wrapping_sub(b) % U32);
                        self.push((a < b) as u64);
                    }
                    "u32wrapping_sub" => self.push(a.wrapping_sub(b) % U32),
                    "u32overflowing_mul" => {
                        let m = a * b;
                        self.push(m % U32);
                        self.push(m / U32);
                    }
                    "u32wrapping_mul" => self.push((a * b) % U32),
                    _ => {
                        if b == 0 {
                            if params.is_empty() {
                                return Err(Stop::Fail(Fail::DivideByZero));
                            } else {
                                return Err(Stop::Fail(Fail::Asm("division by zero immediate")));
                            }
                        }
                        match name {
                            "u32div" => self.push(a / b),
                            "u32mod" => self.push(a % b),
                            _ => {
                                self.push(a / b);
                                self.push(a % b);
                            }
                        }
                    }
                }
            }
            "u32overflowing_add3" | "u32wrapping_add3" => {
                self.u32pair(3)?;
                let c = self.pop();
                let b = self.pop();
                let a = self.pop();
                let s = a + b + c;
                self.push(s % U32);
                if name == "u32overflowing_add3" {
                    self.push(s / U32);
                }
            }
            "u32overflowing_madd" | "u32wrapping_madd" => {
                self.u32pair(3)?;
                let b = self.pop();
                let a = self.pop();
                let c = self.pop();
                let s = a * b + c;
                self.push(s % U32);
                if name == "u32overflowing_madd" {
                    self.push(s / U32);
                }
            }
            // ---------------- u32 bitwise ----------------
            "u32and" | "u32or" | "u32xor" => {
                self.u32checked(2)?;
                let b = self.pop();
                let a = self.pop();
                self.push(match name {
                    "u32and" => a & b,
                    "u32or" => a | b,
                    _ => a ^ b,
                });
            }
            "u32not" => {
                self.u32checked(1)?;
                let a = self.pop();
                self.push(!a & (U32 - 1));
            }
            "u32shl" | "u32shr" | "u32rotl" | "u32rotr" => {
                let b = match params.first() {
                    Some(s) => match parse_u64(s) {
                        Some(v) if v <= 31 => v,
                        _ => return Err(Stop::Fail(Fail::Asm("shift amount out of range"))),
                    },
                    None => {
                        let b = self.pop();
                        if b > 31 {
                            return Err(Stop::DontCare("shift amount > 31 (documented undefined)".into()));
                        }
                        b
                    }
                };
                if self.peek(0) >= U32 {
                    return Err(Stop::DontCare("u32 operand a >= 2^32".into()));
                }
                let a = self.pop() as u32;
                let b = b as u32;
                self.push(match name {
                    "u32shl" => a.wrapping_shl(b),
                    "u32shr" => a.wrapping_shr(b),
                    "u32rotl" => a.rotate_left(b),
                    _ => a.rotate_right(b),
                } as u64);
            }
            "u32popcnt" | "u32clz" | "u32ctz" | "u32clo" | "u32cto" => {
                self.u32pair(1)?;
                let a = self.pop() as u32;
                self.push(match name {
                    "u32popcnt" => a.count_ones(),
                    "u32clz" => a.leading_zeros(),
                    "u32ctz" => a.trailing_zeros(),
                    "u32clo" => a.leading_ones(),
                    _ => a.trailing_ones(),
                } as u64);
            }
            "u32lt" | "u32lte" | "u32gt" | "u32gte" | "u32min" | "u32max" => {
                self.u32pair(2)?;
                let b = self.pop();
                let a = self.pop();
                self.push(match name {
                    "u32lt" => (a < b) as u64,
                    "u32lte" => (a <= b) as u64,
                    "u32gt" => (a > b) as u64,
                    "u32gte" => (a >= b) as u64,
                    "u32min" => a.min(b),
                    _ => a.max(b),
                });
            }
            // ---------------- stack manipulation ----------------
            "drop" => {
                self.pop();
            }
            "dropw" => {
                for _ in 0..4 {
                    self.pop();
                }
            }
            "padw" => {
                for _ in 0..4 {
                    self.push(0);
                }
            }
            "dup" => {
                let n = idx_in(0, 15, Some(0))?;
                let v = self.peek(n);
                self.push(v);
            }
            "dupw" => {
                let n = idx_in(0, 3, Some(0))?;
                let w: Vec<u64> = (0..4).map(|i| self.peek(4 * n + i)).collect();
                for v in w.iter().rev() {
                    self.push(*v);
                }
            }
            "swap" => {
                let n = idx_in(1, 15, Some(1))?;
                self.pad16();
                self.stack.swap(0, n);
            }
            "swapw" => {
                let n = idx_in(1, 3, Some(1))?;
                for i in 0..4 {
                    self.stack.swap(i, 4 * n + i);
                }
            }
            "swapdw" => {
                for i in 0..8 {
                    self.stack.swap(i, 8 + i);
                }
            }
            "movup" => {
                let n = idx_in(2, 15, None)?;
                let v = self.stack.remove(n);
                self.stack.insert(0, v);
            }
            "movdn" => {
                let n = idx_in(2, 15, None)?;
                let v = self.stack.remove(0);
                self.stack.insert(n, v);
            }
            "movupw" => {
                let n = idx_in(2, 3, None)?;
                let w: Vec<u64> = self.stack.drain(4 * n..4 * n + 4).collect();
                for (i, v) in w.into_iter().enumerate() {
                    self.stack.insert(i, v);
                }
            }
            "movdnw" => {
                let n = idx_in(2, 3, None)?;
                let w: Vec<u64> = self.stack.drain(0..4).collect();
                for (i, v) in w.into_iter().enumerate() {
                    self.stack.insert(4 * n + i, v);
                }
            }
            "cswap" => {
                let c = Self::bin(self.peek(0))?;
                self.pop();
                self.pad16();
                if c == 1 {
                    self.stack.swap(0, 1);
                }
            }
            "cswapw" => {
                let c = Self::bin(self.peek(0))?;
                self.pop();
                self.pad16();
                if c == 1 {
                    for i in 0..4 {
                        self.stack.swap(i, 4 + i);
                    }
                }
            }
            "cdrop" => {
                // [c, b, a] -> [d] ; d = a if c = 0, b if c = 1
                let c = Self::bin(self.peek(0))?;
                self.pop();
                let b = self.pop();
                let a = self.pop();
                self.push(if c == 1 { b } else { a });
            }
            "cdropw" => {
                let c = Self::bin(self.peek(0))?;
                self.pop();
                let b: Vec<u64> = (0..4).map(|_| self.pop()).collect();
                let a: Vec<u64> = (0..4).map(|_| self.pop()).collect();
                let d = if c == 1 { b } else { a };
                for v in d.iter().rev() {
                    self.push(*v);
                }
            }
            // ---------------- constants / environment ----------------
            "push" => {
                if params.is_empty() {
                    return Err(Stop::Fail(Fail::Asm("push without value")));
                }
                let mut vals = vec![];
                if params.len() == 1 && params[0].len() == 66 {
                    vals = parse_long_hex(params[0]).ok_or(Stop::Fail(Fail::Asm("bad long hex")))?;
                } else {
                    for p in &params {
                        vals.push(parse_u64(p).ok_or(Stop::Fail(Fail::Asm("bad push value")))?);
                    }
                }
                if vals.len() > 16 {
                    return Err(Stop::Fail(Fail::Asm("too many push values")));
                }
                for v in vals {
                    if v >= f::P {
                        return Err(Stop::Fail(Fail::Asm("push value is not a field element")));
                    }
                    self.push(v);
                }
            }
            "sdepth" => {
                let d = self.stack.len() as u64;
                self.push(d);
            }
            "clk" => return Err(Stop::DontCare("clk: the reference is not cycle-accurate".into())),
            "caller" => {
                if !self.in_syscall {
                    return Err(Stop::Fail(Fail::CallerNotInSyscall));
                }
                let h = self.caller_hash;
                for _ in 0..4 {
                    self.pop();
                }
                self.pushw(h);
            }
            "locaddr" => return Err(Stop::DontCare("locaddr: local addresses are abstract in the reference".into())),
            // ---------------- advice ----------------
            "adv_push" => {
                let n = idx_in(1, 16, None)?;
                for _ in 0..n {
                    let v = self.advice.pop_front().ok_or(Stop::Fail(Fail::AdviceEmpty))?;
                    self.push(v);
                }
            }
            "adv_loadw" => {
                if self.advice.len() < 4 {
                    return Err(Stop::Fail(Fail::AdviceEmpty));
                }
                for _ in 0..4 {
                    self.pop();
                }
                for _ in 0..4 {
                    let v = self.advice.pop_front().unwrap();
                    self.push(v);
                }
            }
            "adv_pipe" => {
                // [C, B, A, a, ...] -> [E, D, A, a+2, ...]; D = first word popped -> mem[a], E -> mem[a+1]
                let a = self.peek(12);
                if self.advice.len() < 8 {
                    return Err(Stop::Fail(Fail::AdviceEmpty));
                }
                Self::addr(a)?;
                Self::addr(a + 1)?;
                let d: Vec<u64> = (0..4).map(|_| self.advice.pop_front().unwrap()).collect();
                let e: Vec<u64> = (0..4).map(|_| self.advice.pop_front().unwrap()).collect();
                self.mem_write(a, [d[0], d[1], d[2], d[3]]);
                self.mem_write(a + 1, [e[0], e[1], e[2], e[3]]);
                for i in 0..4 {
                    self.stack[7 - i] = d[i];
                    self.stack[3 - i] = e[i];
                }
                self.stack[12] = a + 2;
            }
            // ---------------- memory ----------------
            "mem_load" => {
                let a = match u32_imm(0)? {
                    Some(a) => a,
                    None => self.pop(),
                };
                let a = Self::addr(a)?;
                let w = self.mem_read(a);
                self.push(w[0]);
            }
            "mem_loadw" => {
                let a = match u32_imm(0)? {
                    Some(a) => a,
                    None => self.pop(),
                };
                let a = Self::addr(a)?;
                let w = self.mem_read(a);
                for _ in 0..4 {
                    self.pop();
                }
                self.pushw(w);
            }
            "mem_store" => {
                let a = match u32_imm(0)? {
                    Some(a) => a,
                    None => self.pop(),
                };
                let a = Self::addr(a)?;
                let v = self.pop();
                let mut w = self.mem_read(a);
                w[0] = v;
                self.mem_write(a, w);
            }
            "mem_storew" => {
                let a = match u32_imm(0)? {
                    Some(a) => a,
                    None => self.pop(),
                };
                let a = Self::addr(a)?;
                let w = [self.peek(3), self.peek(2), self.peek(1), self.peek(0)];
                self.mem_write(a, w);
            }
            "mem_stream" => {
                let a = self.peek(12);
                Self::addr(a)?;
                Self::addr(a + 1)?;
                let w1 = self.mem_read(a);
                let w2 = self.mem_read(a + 1);
                for i in 0..4 {
                    self.stack[7 - i] = w1[i];
                    self.stack[3 - i] = w2[i];
                }
                self.stack[12] = a + 2;
            }
            "loc_load" | "loc_loadw" | "loc_store" | "loc_storew" => {
                let i = match params.first().and_then(|s| parse_u64(s)) {
                    Some(i) if i < 65536 => i as usize,
                    _ => return Err(Stop::Fail(Fail::Asm("bad local index"))),
                };
                match name {
                    "loc_load" => {
                        let v = self.local(i)?[0].ok_or(Stop::DontCare("read of an unwritten local".into()))?;
                        self.push(v);
                    }
                    "loc_loadw" => {
                        let l = *self.local(i)?;
                        if l.iter().any(|x| x.is_none()) {
                            return Err(Stop::DontCare("read of an unwritten local".into()));
                        }
                        for _ in 0..4 {
                            self.pop();
                        }
                        self.pushw([l[0].unwrap(), l[1].unwrap(), l[2].unwrap(), l[3].unwrap()]);
                    }
                    "loc_store" => {
                        self.local(i)?; // index check before the pop
                        let v = self.pop();
                        self.local(i)?[0] = Some(v);
                    }
                    _ => {
                        let w = [self.peek(3), self.peek(2), self.peek(1), self.peek(0)];
                        *self.local(i)? = [Some(w[0]), Some(w[1]), Some(w[2]), Some(w[3])];
                    }
                }
            }
            // ---------------- decorators: no effect on VM state ----------------
            "emit" | "trace" | "debug" | "breakpoint" => {}
            "adv" => return Err(Stop::Unsupported(format!("advice injector {tok} not modelled"))),
            _ => return Err(Stop::Unsupported(format!("instruction {tok} not modelled"))),
        }
        let _ = imm;
        Ok(())
    }
}

#[cfg(test)]
mod tests {
    use super::*;
    use crate::ast::*;

    fn run(src: &str, stack: &[u64]) -> (Result<(), Stop>, Vec<u64>) {
        let p = Prog::simple(ops(src));
        let mut vm = Vm::new(&p, stack, &[], BTreeMap::new());
        let r = vm.run();
        (r, vm.stack.clone())
    }

    #[test]
    fn basics() {
        let (r, s) = run("add", &[1, 2, 3]);
        assert!(r.is_ok());
        assert_eq!(&s[..3], &[3, 3, 0]);
        assert_eq!(s.len(), 16);
        let (r, s) = run("push.1.2.3.4 mem_storew.5 dropw mem_load.5", &[]);
        assert!(r.is_ok());
        assert_eq!(s[0], 1);
        let (r, _) = run("div", &[0, 5]);
        assert_eq!(r, Err(Stop::Fail(Fail::DivideByZero)));
        let (r, s) = run("movup.3", &[1, 2, 3, 4, 5]);
        assert!(r.is_ok());
        assert_eq!(&s[..5], &[4, 1, 2, 3, 5]);
        let (r, s) = run("movdn.3", &[1, 2, 3, 4, 5]);
        assert!(r.is_ok());
        assert_eq!(&s[..5], &[2, 3, 4, 1, 5]);
    }
}
