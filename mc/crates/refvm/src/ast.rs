//! The harness' own AST of Miden assembly programs. Programs are generated as this AST, printed as
//! source text for the real assembler, and interpreted directly by `interp` — the assembly crate's
//! parser is never on the reference side.

#[derive(Clone, Debug, PartialEq, Eq, Hash)]
pub enum Node {
    /// one instruction in its textual form, e.g. "add", "add.5", "push.1.2", "movup.3"
    Op(String),
    If(Vec<Node>, Vec<Node>),
    While(Vec<Node>),
    Repeat(u32, Vec<Node>),
    Exec(String),
    Call(String),
    Syscall(String),
    ProcRef(String),
    DynExec,
    DynCall,
}

#[derive(Clone, Debug, PartialEq, Eq, Hash)]
pub struct Proc {
    pub name: String,
    pub locals: u16,
    pub body: Vec<Node>,
}

#[derive(Clone, Debug, Default, PartialEq, Eq, Hash)]
pub struct Prog {
    pub procs: Vec<Proc>,
    /// exported kernel procedures (compiled as the kernel module), may be empty
    pub kernel: Vec<Proc>,
    pub body: Vec<Node>,
    /// `use.<path>` lines of the program (e.g. "lib::m")
    pub uses: Vec<String>,
    /// procedures of an imported library module, named as the program refers to them
    /// ("m::g0"); printed by `lib_source` (without the module prefix), never by `to_source`
    pub lib_procs: Vec<Proc>,
}

pub fn op(s: &str) -> Node {
    Node::Op(s.to_string())
}

pub fn ops(s: &str) -> Vec<Node> {
    s.split_whitespace().map(op).collect()
}

fn fmt_body(body: &[Node], out: &mut String, ind: usize) {
    let pad = "    ".repeat(ind);
    if body.is_empty() {
        // the assembler rejects empty bodies; generators avoid them, print a harmless marker
        out.push_str(&format!("{pad}push.0 drop\n"));
    }
    for n in body {
        match n {
            // pseudo instructions of the harness (e.g. "@snap") are not part of the program text
            Node::Op(s) if s.starts_with('@') => {}
            Node::Op(s) => out.push_str(&format!("{pad}{s}\n")),
            Node::If(t, e) => {
                out.push_str(&format!("{pad}if.true\n"));
                fmt_body(t, out, ind + 1);
                if !e.is_empty() {
                    out.push_str(&format!("{pad}else\n"));
                    fmt_body(e, out, ind + 1);
                }
                out.push_str(&format!("{pad}end\n"));
            }
            Node::While(b) => {
                out.push_str(&format!("{pad}while.true\n"));
                fmt_body(b, out, ind + 1);
                out.push_str(&format!("{pad}end\n"));
            }
            Node::Repeat(k, b) => {
                out.push_str(&format!("{pad}repeat.{k}\n"));
                fmt_body(b, out, ind + 1);
                out.push_str(&format!("{pad}end\n"));
            }
            Node::Exec(f) => out.push_str(&format!("{pad}exec.{f}\n")),
            Node::Call(f) => out.push_str(&format!("{pad}call.{f}\n")),
            Node::Syscall(f) => out.push_str(&format!("{pad}syscall.{f}\n")),
            Node::ProcRef(f) => out.push_str(&format!("{pad}procref.{f}\n")),
            Node::DynExec => out.push_str(&format!("{pad}dynexec\n")),
            Node::DynCall => out.push_str(&format!("{pad}dyncall\n")),
        }
    }
}

impl Prog {
    pub fn simple(body: Vec<Node>) -> Self {
        Prog { procs: vec![], kernel: vec![], body, uses: vec![], lib_procs: vec![] }
    }

    pub fn to_source(&self) -> String {
        let mut s = String::new();
        for u in &self.uses {
            s.push_str(&format!("use.{u}\n"));
        }
        for p in &self.procs {
            s.push_str(&format!("proc.{}.{}\n", p.name, p.locals));
            fmt_body(&p.body, &mut s, 1);
            s.push_str("end\n");
        }
        s.push_str("begin\n");
        fmt_body(&self.body, &mut s, 1);
        s.push_str("end\n");
        s
    }

    pub fn kernel_source(&self) -> Option<String> {
        if self.kernel.is_empty() {
            return None;
        }
        let mut s = String::new();
        for p in &self.kernel {
            s.push_str(&format!("export.{}.{}\n", p.name, p.locals));
            fmt_body(&p.body, &mut s, 1);
            s.push_str("end\n");
        }
        Some(s)
    }

    /// source of the imported library module: every `lib_procs` entry as an exported procedure;
    /// references between library procedures are printed without the module prefix
    pub fn lib_source(&self) -> Option<String> {
        if self.lib_procs.is_empty() {
            return None;
        }
        let mut s = String::new();
        for p in &self.lib_procs {
            let short = p.name.rsplit("::").next().unwrap();
            s.push_str(&format!("export.{}.{}\n", short, p.locals));
            let mut body = String::new();
            fmt_body(&p.body, &mut body, 1);
            // inside the module its own procedures are referred to by their bare names
            let prefix = &p.name[..p.name.len() - short.len()];
            s.push_str(&body.replace(&format!("exec.{prefix}"), "exec.").replace(&format!("call.{prefix}"), "call."));
            s.push_str("end\n");
        }
        Some(s)
    }

    pub fn find_proc(&self, name: &str) -> Option<&Proc> {
        self.procs.iter().chain(self.lib_procs.iter()).find(|p| p.name == name)
    }
    pub fn find_kernel_proc(&self, name: &str) -> Option<&Proc> {
        self.kernel.iter().find(|p| p.name == name)
    }
}
