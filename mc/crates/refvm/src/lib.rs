//! refvm — reference models written from docs/src/user_docs and docs/src/design, deliberately
//! boring: Goldilocks arithmetic on u64/u128, an instruction-level interpreter of Miden assembly
//! over the harness' own AST, and (in `mast`) the operation batching / MAST hashing reference.
//! Nothing here depends on the miden crates.

pub mod ast;
pub mod field;
pub mod interp;
pub mod mast;
