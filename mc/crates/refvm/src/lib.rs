pub fn x(){}
