pub fn placeholder() {}
