//! Reference for the program commitment, written from docs/src/design/programs.md ("Program hash
//! computation"), docs/src/design/decoder/main.md (operation groups / batches / batch flags) and
//! docs/src/design/chiplets/hasher.md (state layout: capacity h0..h3 with the domain in h1, rate
//! h4..h11, digest h4..h7; linear hashing absorbs 8 elements per permutation keeping the capacity).
//! The RPO permutation itself is the trusted primitive, supplied by the caller.

pub type Word = [u64; 4];

pub trait Perm {
    fn permute(&self, state: &mut [u64; 12]);
}

/// hash of a span: linear hash of all batches (8 elements each); the number of elements is a multiple
/// of the rate width, so the first capacity element is 0; no domain
pub fn hash_batches(batches: &[[u64; 8]], p: &dyn Perm) -> Word {
    let mut st = [0u64; 12];
    for b in batches {
        st[4..12].copy_from_slice(b);
        p.permute(&mut st);
    }
    [st[4], st[5], st[6], st[7]]
}

/// hash_domain(a, b): 2-to-1 hash with the domain in the second capacity element
pub fn merge_in_domain(a: Word, b: Word, domain: u64, p: &dyn Perm) -> Word {
    let mut st = [0u64; 12];
    st[1] = domain;
    st[4..8].copy_from_slice(&a);
    st[8..12].copy_from_slice(&b);
    p.permute(&mut st);
    [st[4], st[5], st[6], st[7]]
}

#[derive(Debug, Clone, PartialEq, Eq)]
pub struct DecodedOp {
    pub opcode: u8,
    pub imm: Option<u64>,
}

/// The documented batching of a span (docs/src/design/programs.md "Span block", decoder/main.md
/// "Operation batch flags"): operations are taken in order; a group holds up to 9 operations or one
/// immediate; a batch holds up to 8 groups; the immediate of an operation goes to the next group of
/// the same batch that has not been handed out; an operation carrying an immediate is never the
/// 9th operation of its group; a batch is closed only when the next operation (with its immediate)
/// cannot be placed in it under these rules. Returns the 8 group values of every batch (missing
/// groups are zero = NOOP padding). `ops` = (opcode, immediate).
pub fn batch_greedy(ops: &[(u8, Option<u64>)]) -> Vec<[u64; 8]> {
    batch_greedy_layout(ops)
        .iter()
        .map(|batch| {
            let mut o = [0u64; 8];
            for (i, g) in batch.iter().enumerate() {
                o[i] = match g {
                    Slot::Imm(v) => *v,
                    Slot::Ops(v) => v.iter().enumerate().map(|(k, c)| (c.0 as u64) << (7 * k)).sum(),
                };
            }
            o
        })
        .collect()
}

/// one group of a batch: up to 9 operations (opcode, carries an immediate) or one immediate value
#[derive(Debug, Clone, PartialEq, Eq)]
pub enum Slot {
    Ops(Vec<(u8, bool)>),
    Imm(u64),
}

/// the documented batching as a layout: per batch, its groups in order
pub fn batch_greedy_layout(ops: &[(u8, Option<u64>)]) -> Vec<Vec<Slot>> {
    fn place(batch: &mut Vec<Slot>, cur: &mut Option<usize>, op: (u8, Option<u64>)) -> bool {
        let in_cur = cur.map(|c| match &batch[c] {
            Slot::Ops(v) => v.len(),
            Slot::Imm(_) => unreachable!(),
        });
        match op.1 {
            None => {
                if let (Some(c), Some(n)) = (*cur, in_cur) {
                    if n < 9 {
                        if let Slot::Ops(v) = &mut batch[c] {
                            v.push((op.0, false));
                        }
                        return true;
                    }
                }
                if batch.len() < 8 {
                    batch.push(Slot::Ops(vec![(op.0, false)]));
                    *cur = Some(batch.len() - 1);
                    return true;
                }
                false
            }
            Some(imm) => {
                if let (Some(c), Some(n)) = (*cur, in_cur) {
                    if n < 8 {
                        // stays in the current group (not in its last position): needs one group for the immediate
                        if batch.len() < 8 {
                            if let Slot::Ops(v) = &mut batch[c] {
                                v.push((op.0, true));
                            }
                            batch.push(Slot::Imm(imm));
                            return true;
                        }
                        return false;
                    }
                }
                // opens a new group: needs that group and one for the immediate
                if batch.len() + 2 <= 8 {
                    batch.push(Slot::Ops(vec![(op.0, true)]));
                    *cur = Some(batch.len() - 1);
                    batch.push(Slot::Imm(imm));
                    return true;
                }
                false
            }
        }
    }
    let mut out = vec![];
    let mut batch: Vec<Slot> = vec![];
    let mut cur: Option<usize> = None;
    for &op in ops {
        if !place(&mut batch, &mut cur, op) {
            out.push(std::mem::take(&mut batch));
            cur = None;
            assert!(place(&mut batch, &mut cur, op), "an empty batch accepts any operation");
        }
    }
    if !batch.is_empty() {
        out.push(batch);
    }
    out
}

/// The operations the VM executes for a span, per batch (between SPAN / RESPAN and the next RESPAN /
/// END): the program's operations in order - NOOPs of the program included, wherever they sit - plus
/// only the documented alignment NOOPs: one after an immediate-carrying operation that ends its
/// group (programs.md) and one per group added to bring the batch to 1, 2, 4 or 8 groups
/// (decoder/main.md, operation batch flags).
pub fn span_stream(ops: &[(u8, Option<u64>)]) -> Vec<Vec<u8>> {
    batch_greedy_layout(ops)
        .iter()
        .map(|batch| {
            let mut out = vec![];
            for g in batch {
                if let Slot::Ops(v) = g {
                    out.extend(v.iter().map(|o| o.0));
                    if v.last().map(|o| o.1).unwrap_or(false) {
                        out.push(opcode::NOOP);
                    }
                }
            }
            for _ in batch.len()..batch.len().next_power_of_two() {
                out.push(opcode::NOOP);
            }
            out
        })
        .collect()
}

/// Decodes one batch given its 8 group values and the number of groups it declares, checking the
/// documented rules on the way. `carries_imm(opcode)` tells which opcodes carry an immediate.
/// Returns the operations in order (NOOPs included as they appear; trailing NOOPs of a group are
/// indistinguishable from padding and are not reported).
pub fn decode_batch(groups: &[u64; 8], num_groups: usize, carries_imm: &dyn Fn(u8) -> bool) -> Result<Vec<DecodedOp>, String> {
    if ![1usize, 2, 4, 8].contains(&num_groups) {
        return Err(format!("number of groups {num_groups} is not one of 1, 2, 4, 8"));
    }
    for (i, g) in groups.iter().enumerate().skip(num_groups) {
        if *g != 0 {
            return Err(format!("group {i} beyond the declared {num_groups} groups is not zero"));
        }
    }
    let mut is_imm = [false; 8];
    let mut next_free = 1usize; // groups are handed out in order: op groups and immediates interleave
    let mut out = vec![];
    let mut gi = 0usize;
    while gi < num_groups {
        if is_imm[gi] {
            gi += 1;
            continue;
        }
        if gi >= next_free {
            next_free = gi + 1;
        }
        let mut v = groups[gi];
        let mut ops_in_group: Vec<u8> = vec![];
        // read opcodes, first operation in the least significant position
        let mut count = 0;
        while v != 0 {
            if count == 9 {
                return Err(format!("group {gi} encodes more than 9 operations"));
            }
            ops_in_group.push((v & 0x7f) as u8);
            v >>= 7;
            count += 1;
        }
        for (pos, &opc) in ops_in_group.iter().enumerate() {
            if carries_imm(opc) {
                if pos == 8 {
                    return Err(format!("operation with an immediate is in the last position of group {gi}"));
                }
                if pos + 1 == ops_in_group.len() {
                    // it is the last non-NOOP operation of the group: allowed, a NOOP (value 0) follows
                    // implicitly since pos < 8
                }
                // its immediate is the next group that has not been handed out yet
                let mut k = next_free;
                while k < 8 && is_imm[k] {
                    k += 1;
                }
                if k >= num_groups {
                    return Err(format!("immediate of an operation in group {gi} does not fit into the batch ({num_groups} groups)"));
                }
                is_imm[k] = true;
                next_free = k + 1;
                out.push(DecodedOp { opcode: opc, imm: Some(groups[k]) });
            } else {
                out.push(DecodedOp { opcode: opc, imm: None });
            }
        }
        gi += 1;
    }
    Ok(out)
}

/// opcodes as documented in docs/src/design/stack/op_constraints.md
pub mod opcode {
    pub const NOOP: u8 = 0;
    pub const SPLIT: u8 = 84;
    pub const LOOP: u8 = 85;
    pub const SPAN: u8 = 86;
    pub const JOIN: u8 = 87;
    pub const DYN: u8 = 88;
    pub const PUSH: u8 = 100;
    pub const SYSCALL: u8 = 104;
    pub const CALL: u8 = 108;
    pub const END: u8 = 112;
    pub const REPEAT: u8 = 116;
    pub const RESPAN: u8 = 120;
    pub const HALT: u8 = 124;
}
