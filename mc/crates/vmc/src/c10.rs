//! C10 — serialised code and data round-trip and recompile to the same program.
//!
//! Space (bounded-exhaustive enumeration, every element run through the real serialisers):
//!   * every instruction spelling of the parser (every arm of `parse_op_token`) × boundary
//!     immediates, each inside a program and inside a module; coverage is measured: the set of
//!     leading opcode bytes of the serialised instruction nodes must equal the set of bytes the real
//!     node decoder accepts as an opcode (probed byte by byte);
//!   * containers: programs / modules with 0–3 procedures × locals {0,1,255,65535}, docs, imports
//!     (used and unused), re-exports (plain and aliased), every nesting of {if-else, if, while,
//!     repeat} to depth 3, empty else, repeat counts {1,2,65536,2^32-1};
//!   * each of the above with and without serialised imports, with source locations written by
//!     `write_source_locations` and reloaded by `load_source_locations`;
//!   * `MaslLibrary` (small, small with locations, the whole stdlib), `ProgramInfo`, `Kernel`
//!     (0, 1, 3, 255 procedures), `StackInputs` / `StackOutputs` (depth 0,1,16,17,40),
//!     `ExecutionProof` (both layouts) from a tiny proof.
//! Oracle: decode(encode(x)) == x (after reloading locations / re-attaching imports that were not
//! serialised), encode(decode(encode(x))) == encode(x); compiling the round-tripped AST on a fresh
//! assembler gives the same MAST root, kernel and code-block table and the same execution outcome
//! on a fixed input as compiling the original (or fails with the same error).

use crate::common::*;
use assembly::{
    ast::{AstSerdeOptions, ModuleAst, Node, ProgramAst},
    Assembler, AssemblyContext, LibraryNamespace, LibraryPath, MaslLibrary, Module, Version,
};
use mcx::{guard, json, Ctx, Tier, Value};
use miden::{ExecutionProof, ProvingOptions};
use processor::{
    AdviceExtractor, AdviceInjector, DefaultHost, ExecutionError, ExecutionOptions, Host, HostResponse,
    MemAdviceProvider, ProcessState, Program,
};
use rayon::prelude::*;
use std::collections::{BTreeMap, BTreeSet};
use std::sync::Mutex;
use vm_core::utils::{ByteReader, Deserializable, Serializable, SliceReader};
use vm_core::{Felt, Kernel, ProgramInfo, StackInputs, StackOutputs};

const KERNEL_SRC: &str = "export.foo push.1 drop end";
const MODULE_PATH: &str = "test::subject";

/// every first token `parse_op_token` has an arm for (assembly/src/ast/parsers/context.rs)
const PARSER_ARMS: &[&str] = &[
    "assert", "assertz", "assert_eq", "assert_eqw", "add", "sub", "mul", "div", "neg", "inv", "pow2", "exp",
    "ilog2", "not", "and", "or", "xor", "eq", "neq", "lt", "lte", "gt", "gte", "is_odd", "eqw", "ext2add",
    "ext2sub", "ext2mul", "ext2div", "ext2neg", "ext2inv", "u32test", "u32testw", "u32assert", "u32assert2",
    "u32assertw", "u32cast", "u32split", "u32wrapping_add", "u32overflowing_add", "u32overflowing_add3",
    "u32wrapping_add3", "u32wrapping_sub", "u32overflowing_sub", "u32wrapping_mul", "u32overflowing_mul",
    "u32overflowing_madd", "u32wrapping_madd", "u32div", "u32mod", "u32divmod", "u32and", "u32or", "u32xor",
    "u32not", "u32shr", "u32shl", "u32rotr", "u32rotl", "u32popcnt", "u32clz", "u32ctz", "u32clo", "u32cto",
    "u32lt", "u32lte", "u32gt", "u32gte", "u32min", "u32max", "drop", "dropw", "padw", "dup", "dupw", "swap",
    "swapw", "swapdw", "movup", "movupw", "movdn", "movdnw", "cswap", "cswapw", "cdrop", "cdropw", "push",
    "sdepth", "locaddr", "caller", "clk", "mem_load", "loc_load", "mem_loadw", "loc_loadw", "mem_store",
    "loc_store", "mem_storew", "loc_storew", "mem_stream", "adv_pipe", "adv_push", "adv_loadw", "adv", "hash",
    "hmerge", "hperm", "mtree_get", "mtree_set", "mtree_merge", "mtree_verify", "fri_ext2fold4", "rcomb_base",
    "exec", "call", "syscall", "dynexec", "dyncall", "procref", "breakpoint", "debug", "emit", "trace",
];

// HOST WITHOUT CONSOLE OUTPUT
// ================================================================================================

struct QuietHost(DefaultHost<MemAdviceProvider>);

impl Host for QuietHost {
    fn get_advice<S: ProcessState>(&mut self, process: &S, extractor: AdviceExtractor) -> Result<HostResponse, ExecutionError> {
        self.0.get_advice(process, extractor)
    }
    fn set_advice<S: ProcessState>(&mut self, process: &S, injector: AdviceInjector) -> Result<HostResponse, ExecutionError> {
        self.0.set_advice(process, injector)
    }
    fn on_event<S: ProcessState>(&mut self, _: &S, _: u32) -> Result<HostResponse, ExecutionError> {
        Ok(HostResponse::None)
    }
    fn on_trace<S: ProcessState>(&mut self, _: &S, _: u32) -> Result<HostResponse, ExecutionError> {
        Ok(HostResponse::None)
    }
    fn on_debug<S: ProcessState>(&mut self, _: &S, _: &vm_core::DebugOptions) -> Result<HostResponse, ExecutionError> {
        Ok(HostResponse::None)
    }
}

fn execute_fixed(program: &Program) -> String {
    let stack: Vec<u64> = (1..=16).collect();
    let r = guard::catch(|| {
        processor::execute(program, stack_inputs(&stack), QuietHost(host(&[1, 2, 3, 4, 5, 6, 7, 8])), ExecutionOptions::default())
    });
    match r {
        Err(p) => format!("panic: {}", guard::short_panic(&p)),
        Ok(Err(e)) => format!("err: {e:?}"),
        Ok(Ok(t)) => format!("ok: {:?} / {:?}", t.stack_outputs().stack(), t.stack_outputs().overflow_addrs()),
    }
}

// THE SPACE
// ================================================================================================

const P_MINUS_1: u64 = 0xFFFF_FFFF_0000_0000;

fn instruction_spellings() -> Vec<String> {
    let mut v: Vec<String> = vec![];
    let simple = [
        "assert", "assertz", "assert_eq", "assert_eqw", "add", "sub", "mul", "div", "neg", "inv", "pow2", "exp",
        "ilog2", "not", "and", "or", "xor", "eq", "neq", "lt", "lte", "gt", "gte", "is_odd", "eqw", "ext2add",
        "ext2sub", "ext2mul", "ext2div", "ext2neg", "ext2inv", "u32test", "u32testw", "u32assert", "u32assert2",
        "u32assertw", "u32cast", "u32split", "u32wrapping_add", "u32overflowing_add", "u32overflowing_add3",
        "u32wrapping_add3", "u32wrapping_sub", "u32overflowing_sub", "u32wrapping_mul", "u32overflowing_mul",
        "u32overflowing_madd", "u32wrapping_madd", "u32div", "u32mod", "u32divmod", "u32and", "u32or", "u32xor",
        "u32not", "u32shr", "u32shl", "u32rotr", "u32rotl", "u32popcnt", "u32clz", "u32ctz", "u32clo", "u32cto",
        "u32lt", "u32lte", "u32gt", "u32gte", "u32min", "u32max", "drop", "dropw", "padw", "dup", "dupw", "swap",
        "swapw", "swapdw", "cswap", "cswapw", "cdrop", "cdropw", "sdepth", "caller", "clk", "mem_load",
        "mem_loadw", "mem_store", "mem_storew", "mem_stream", "adv_pipe", "adv_loadw", "hash", "hmerge", "hperm",
        "mtree_get", "mtree_set", "mtree_merge", "mtree_verify", "fri_ext2fold4", "rcomb_base", "dynexec",
        "dyncall", "breakpoint",
        // spellings that need a parameter are expected to be rejected by the parser (counted, not judged)
        "movup", "push", "locaddr", "adv_push", "emit",
    ];
    v.extend(simple.iter().map(|s| s.to_string()));
    for op in ["assert", "assertz", "assert_eq", "assert_eqw", "u32assert", "u32assert2", "u32assertw"] {
        for n in [0u64, 1, 255, 65536, u32::MAX as u64, 1 << 32] {
            v.push(format!("{op}.err={n}"));
        }
    }
    let felt_imms = [0u64, 1, 2, 255, 256, 65535, 65536, u32::MAX as u64, 1 << 32, P_MINUS_1, P_MINUS_1 + 1];
    for op in ["add", "sub", "mul", "div", "exp", "eq", "neq"] {
        for n in felt_imms {
            v.push(format!("{op}.{n}"));
        }
    }
    for n in [0u32, 1, 8, 32, 63, 64, 65] {
        v.push(format!("exp.u{n}"));
    }
    for op in [
        "u32wrapping_add", "u32overflowing_add", "u32wrapping_sub", "u32overflowing_sub", "u32wrapping_mul",
        "u32overflowing_mul", "u32div", "u32mod", "u32divmod",
    ] {
        for n in [0u64, 1, 2, 255, 256, 65535, 65536, 1 << 31, u32::MAX as u64, 1 << 32] {
            v.push(format!("{op}.{n}"));
        }
    }
    for op in ["u32shr", "u32shl", "u32rotr", "u32rotl"] {
        for n in [0, 1, 15, 16, 31, 32, 255] {
            v.push(format!("{op}.{n}"));
        }
    }
    for n in 0..=16 {
        v.push(format!("dup.{n}"));
        v.push(format!("swap.{n}"));
        v.push(format!("movup.{n}"));
        v.push(format!("movdn.{n}"));
    }
    for n in 0..=4 {
        v.push(format!("dupw.{n}"));
        v.push(format!("swapw.{n}"));
        v.push(format!("movupw.{n}"));
        v.push(format!("movdnw.{n}"));
    }
    // push: every size class, single values, lists of 2, 4, 5 and 16, hex forms
    let classes: [(&str, u64); 4] = [("u8", 255), ("u16", 65535), ("u32", u32::MAX as u64), ("felt", P_MINUS_1)];
    for n in [0u64, 1, 255, 256, 65535, 65536, u32::MAX as u64, 1 << 32, P_MINUS_1, P_MINUS_1 + 1] {
        v.push(format!("push.{n}"));
    }
    for (_, max) in classes {
        for len in [2usize, 3, 4, 5, 15, 16, 17] {
            let vals: Vec<String> = (0..len).map(|i| if i == len / 2 { max.to_string() } else { (i as u64 % 7).to_string() }).collect();
            v.push(format!("push.{}", vals.join(".")));
        }
    }
    for h in ["0x00", "0xff", "0x0100", "0xffffffff", "0x0100000000", "0xffffffff00000000", "0xffffffff00000001"] {
        v.push(format!("push.{h}"));
    }
    v.push("push.0x01.0x0200.3".into());
    v.push(format!("push.0x{}", "0100000000000000".repeat(4)));
    v.push(format!("push.0x{}", "00000000ffffffff".repeat(4)));
    for op in ["locaddr", "loc_load", "loc_loadw", "loc_store", "loc_storew"] {
        for n in [0u32, 1, 3, 4, 255, 256, 65535, 65536] {
            v.push(format!("{op}.{n}"));
        }
    }
    for op in ["mem_load", "mem_loadw", "mem_store", "mem_storew"] {
        for n in [0u64, 1, 255, 65536, u32::MAX as u64, 1 << 32] {
            v.push(format!("{op}.{n}"));
        }
    }
    for n in [0, 1, 2, 15, 16, 17] {
        v.push(format!("adv_push.{n}"));
    }
    for inj in [
        "push_u64div", "push_ext2intt", "push_smtget", "push_smtset", "push_smtpeek", "push_mapval", "push_mapval.0",
        "push_mapval.1", "push_mapval.12", "push_mapval.13", "push_mapvaln", "push_mapvaln.0", "push_mapvaln.1",
        "push_mapvaln.12", "push_mtnode", "insert_mem", "insert_hdword", "insert_hdword.0", "insert_hdword.1",
        "insert_hdword.255", "insert_hperm", "push_sig.rpo_falcon512",
    ] {
        v.push(format!("adv.{inj}"));
    }
    let root = "0x".to_string() + &"c9b007301fbe49f9c96698ea31f251b61d51674c892fbb2d8d349280bbd4a273"[..64];
    for t in [
        "exec.foo", "exec.u64::wrapping_add", "call.foo", "call.u64::wrapping_add", "syscall.foo", "procref.foo",
        "procref.u64::wrapping_add",
    ] {
        v.push(t.to_string());
    }
    v.push(format!("call.{root}"));
    v.push(format!("call.0x{}", "00".repeat(32)));
    for d in [
        "stack", "stack.1", "stack.65535", "mem", "mem.1", "mem.4294967295", "mem.0.0", "mem.1.4294967295", "local",
        "local.0", "local.65535", "local.0.65535", "local.2.3",
    ] {
        v.push(format!("debug.{d}"));
    }
    for op in ["emit", "trace"] {
        for n in [0u64, 1, 65536, u32::MAX as u64] {
            v.push(format!("{op}.{n}"));
        }
    }
    v
}

fn instr_program(instr: &str) -> String {
    format!("use.std::math::u64\nproc.foo\n    push.7 drop\nend\nproc.bar.4\n    {instr}\nend\nbegin\n    exec.bar\nend\n")
}

fn instr_module(instr: &str) -> String {
    format!("#! module around `{instr}`\n\nuse.std::math::u64\n\n#! helper\nexport.foo\n    push.7 drop\nend\n\n#! subject\n#! second doc line\nexport.bar.4\n    {instr}\nend\n")
}

/// all nestings of {if-else, if, while, repeat} of depth 1..=3 around `push.5 drop`
fn nested_bodies(repeat: u64) -> Vec<(String, String)> {
    fn wrap(kind: usize, inner: &str, repeat: u64) -> String {
        match kind {
            0 => format!("push.1 if.true {inner} else push.3 drop end"),
            1 => format!("push.1 if.true {inner} end"),
            2 => format!("push.1 while.true {inner} push.0 end"),
            _ => format!("repeat.{repeat} {inner} end"),
        }
    }
    let names = ["ifelse", "if", "while", "repeat"];
    let mut out = vec![];
    for depth in 1..=3usize {
        for code in 0..4usize.pow(depth as u32) {
            let kinds: Vec<usize> = (0..depth).map(|i| (code / 4usize.pow(i as u32)) % 4).collect();
            let mut body = "push.5 drop".to_string();
            for &k in kinds.iter().rev() {
                body = wrap(k, &body, repeat);
            }
            out.push((kinds.iter().map(|&k| names[k]).collect::<Vec<_>>().join(">"), body));
        }
    }
    out
}

/// (name, source, compile?) of the container programs
fn container_programs() -> Vec<(String, String, bool)> {
    let mut v = vec![];
    for (name, body) in nested_bodies(2) {
        v.push((format!("nest:{name}"), format!("begin {body} end"), true));
    }
    for r in [1u64, 2, 65536, u32::MAX as u64] {
        v.push((format!("repeat.{r}"), format!("begin repeat.{r} push.1 drop end end"), r <= 65536));
        v.push((format!("repeat.{r}>if"), format!("begin repeat.{r} push.1 if.true push.2 drop end end end"), r <= 2));
    }
    v.push(("empty-else".into(), "begin push.1 if.true push.2 drop else end end".into(), true));
    v.push(("empty-if-with-else".into(), "begin push.0 if.true else push.2 drop end end".into(), true));
    v.push(("empty-while".into(), "begin push.0 while.true end end".into(), true));
    v.push(("empty-body".into(), "begin end".into(), true));
    // 0..3 procedures × locals
    for k in 0..=3usize {
        for locals in [0u32, 1, 255, 65535] {
            let mut s = String::new();
            for i in 0..k {
                let l = if locals == 0 { String::new() } else { format!(".{locals}") };
                let body = if locals == 0 { "push.1 drop".to_string() } else { format!("push.9 loc_store.{} loc_load.0 drop", locals - 1) };
                let call = if i == 0 { String::new() } else { format!(" exec.p{}", i - 1) };
                s += &format!("proc.p{i}{l}\n    {body}{call}\nend\n");
            }
            let calls: String = (0..k).map(|i| format!(" exec.p{i} call.p{i}")).collect();
            s += &format!("begin\n    push.4{calls} drop\nend\n");
            v.push((format!("procs:{k}:locals:{locals}"), s, true));
        }
    }
    // imports: none / used / unused / several
    v.push(("imports:used".into(), "use.std::math::u64\nbegin exec.u64::wrapping_add end".into(), true));
    v.push(("imports:unused".into(), "use.std::math::u64\nuse.std::sys\nbegin push.1 drop end".into(), true));
    v.push((
        "imports:several".into(),
        "use.std::math::u64\nuse.std::sys\nuse.std::mem\nproc.q exec.u64::wrapping_mul end\nbegin exec.q call.u64::wrapping_add exec.sys::truncate_stack procref.u64::overflowing_add dropw end".into(),
        true,
    ));
    v.push(("constants".into(), "const.A=7\nconst.B=A*2+1\nbegin push.A push.B add emit.A mem_store.B end".into(), true));
    v
}

fn container_modules() -> Vec<(String, String)> {
    let mut v = vec![];
    for (name, body) in nested_bodies(3) {
        v.push((format!("nest:{name}"), format!("export.f\n    {body}\nend\n")));
    }
    for k in 0..=3usize {
        for locals in [0u32, 1, 255, 65535] {
            for docs in [false, true] {
                let mut s = String::new();
                if docs {
                    s += "#! module documentation\n#! with two lines and a non-ASCII letter: é\n\n";
                }
                for i in 0..k {
                    let l = if locals == 0 { String::new() } else { format!(".{locals}") };
                    let body = if locals == 0 { "push.1 drop".to_string() } else { format!("push.9 loc_store.{} loc_load.0 drop", locals - 1) };
                    let call = if i == 0 { String::new() } else { format!(" exec.p{}", i - 1) };
                    let kw = if i % 2 == 0 { "export" } else { "proc" };
                    if docs && i % 2 == 0 {
                        s += &format!("#! documentation of p{i} with non-ASCII letters: \u{e9} \u{2208} \u{1f600}\n#!\n#! more\n");
                    }
                    s += &format!("{kw}.p{i}{l}\n    {body}{call}\nend\n\n");
                }
                v.push((format!("procs:{k}:locals:{locals}:docs:{docs}"), s));
            }
        }
    }
    v.push(("reexport".into(), "use.std::math::u64\nexport.u64::wrapping_add\n".into()));
    v.push(("reexport:alias".into(), "use.std::math::u64\n#! aliased\nexport.u64::wrapping_add->plus\n".into()));
    // length prefixes of documentation strings count bytes, not characters
    v.push(("reexport:non-ascii-docs".into(), "use.std::math::u64\n#! aliased: x \u{2208} [0, 2^64), \u{e9}\u{1f600}\nexport.u64::wrapping_add->plus\n\n#! plain \u{e9}\nexport.u64::wrapping_sub\n\n#! local \u{2208}\nexport.l\n    push.1 drop\nend\n".into()));
    v.push((
        "reexport+procs+imports".into(),
        "#! docs\n\nuse.std::math::u64\nuse.std::math::u256\nuse.std::sys\n\n#! re-exported\nexport.u64::wrapping_mul\n\nexport.u256::add_unsafe->add256\n\n#! local\nexport.l.2\n    exec.u64::wrapping_add call.u64::wrapping_sub procref.u64::overflowing_mul dropw\nend\n\nproc.internal\n    exec.l\nend\n".into(),
    ));
    v.push(("imports:unused".into(), "use.std::math::u64\nexport.f push.1 drop end\n".into()));
    v
}

// ORACLES
// ================================================================================================

struct Tag<'a> {
    family: &'a str,
    instr: &'a str,
    name: &'a str,
}

fn instr_name(instr: &str) -> String {
    instr.split('.').next().unwrap_or("").to_string()
}

fn fail(ctx: &Ctx, tag: &Tag, container: &str, stage: &str, detail: String, case: &Value) {
    // "stage(mode)" → stage and serialisation mode as separate signature keys
    let (stage_name, mode) = match stage.split_once('(') {
        Some((s, m)) => (s, m.trim_end_matches(')')),
        None => (stage, ""),
    };
    let mut sig = json!({"kind": "roundtrip", "container": container, "stage": stage_name, "family": tag.family});
    if !mode.is_empty() {
        sig["mode"] = json!(mode);
    }
    if !tag.instr.is_empty() {
        sig["instr"] = json!(instr_name(tag.instr));
    }
    let what = if tag.instr.is_empty() { tag.name.to_string() } else { format!("`{}`", tag.instr) };
    if ctx.replaying {
        println!("observed: {container} {what}: {stage}: {detail}");
    }
    ctx.fail(sig, format!("{container} {what}: {stage}: {detail}"), case.clone());
}

fn fresh_assembler() -> Assembler {
    assembler_with_kernel(KERNEL_SRC)
}

enum Compiled {
    Ok { hash: String, kernel: Kernel, cb_table: String, exec: String },
    Err(String),
    Panic(String),
}

impl Compiled {
    fn class(&self) -> &'static str {
        match self {
            Compiled::Ok { .. } => "compiled",
            Compiled::Err(_) => "compile_error",
            Compiled::Panic(_) => "compile_panic",
        }
    }
}

fn compile_program(ast: &ProgramAst) -> Compiled {
    let asm = fresh_assembler();
    match guard::catch(|| asm.compile_ast(ast)) {
        Err(p) => Compiled::Panic(guard::short_panic(&p)),
        Ok(Err(e)) => Compiled::Err(e.to_string()),
        Ok(Ok(p)) => Compiled::Ok {
            hash: format!("{:?}", p.hash()),
            kernel: p.kernel().clone(),
            cb_table: format!("{:?}", p.cb_table()),
            exec: execute_fixed(&p),
        },
    }
}

fn compare_compiled(a: &Compiled, b: &Compiled) -> Option<(&'static str, String)> {
    match (a, b) {
        (Compiled::Ok { hash: h1, kernel: k1, cb_table: c1, exec: e1 }, Compiled::Ok { hash: h2, kernel: k2, cb_table: c2, exec: e2 }) => {
            if h1 != h2 {
                Some(("mast_root_differs", format!("original {h1} round-tripped {h2}")))
            } else if k1 != k2 {
                Some(("kernel_differs", format!("original {k1:?} round-tripped {k2:?}")))
            } else if c1 != c2 {
                Some(("cb_table_differs", "code-block tables of the two programs differ".into()))
            } else if e1 != e2 {
                Some(("execution_differs", format!("original {e1} round-tripped {e2}")))
            } else {
                None
            }
        }
        (Compiled::Err(x), Compiled::Err(y)) | (Compiled::Panic(x), Compiled::Panic(y)) => {
            if x == y {
                None
            } else {
                Some(("compile_error_differs", format!("original '{x}' round-tripped '{y}'")))
            }
        }
        _ => Some(("compile_outcome_differs", format!("original {} round-tripped {}", a.class(), b.class()))),
    }
}

struct Stats {
    classes: Mutex<BTreeMap<String, u64>>,
    opcodes: Mutex<BTreeSet<u8>>,
    arms: Mutex<BTreeSet<String>>,
    encodings: Mutex<BTreeSet<Vec<u8>>>,
    nested_locations_lost: Mutex<u64>,
}

impl Stats {
    fn class(&self, c: &str) {
        *self.classes.lock().unwrap().entry(c.to_string()).or_insert(0) += 1;
    }
}

/// records the leading opcode byte of every instruction node (recursively) and the number of
/// nested bodies
fn walk_nodes(nodes: &[Node], ops: &mut BTreeSet<u8>, nested_bodies: &mut u64) {
    for n in nodes {
        let bytes = Serializable::to_bytes(n);
        if let Some(b) = bytes.first() {
            ops.insert(*b);
        }
        match n {
            Node::Instruction(_) => {}
            Node::IfElse { true_case, false_case } => {
                *nested_bodies += 2;
                walk_nodes(true_case.nodes(), ops, nested_bodies);
                walk_nodes(false_case.nodes(), ops, nested_bodies);
            }
            Node::Repeat { body, .. } | Node::While { body } => {
                *nested_bodies += 1;
                walk_nodes(body.nodes(), ops, nested_bodies);
            }
        }
    }
}

fn check_program(ctx: &Ctx, st: &Stats, tag: &Tag, src: &str, compile: bool) {
    let case = json!({"kind": "program", "family": tag.family, "instr": tag.instr, "name": tag.name, "src": src, "compile": compile});
    let ast = match guard::catch(|| ProgramAst::parse(src)) {
        Ok(Ok(a)) => a,
        Ok(Err(_)) => return st.class("program:not_parsable"),
        Err(_) => return st.class("program:parser_panic"),
    };
    if !tag.instr.is_empty() {
        st.arms.lock().unwrap().insert(instr_name(tag.instr));
    }
    {
        let (mut ops, mut nested) = (BTreeSet::new(), 0u64);
        walk_nodes(ast.body().nodes(), &mut ops, &mut nested);
        for p in ast.procedures() {
            walk_nodes(p.body.nodes(), &mut ops, &mut nested);
        }
        st.opcodes.lock().unwrap().extend(ops);
        *st.nested_locations_lost.lock().unwrap() += nested;
    }
    let original = if compile { Some(compile_program(&ast)) } else { None };
    if let Some(c) = &original {
        st.class(&format!("program:original:{}", c.class()));
    }
    for with_imports in [true, false] {
        let opt = AstSerdeOptions::new(with_imports);
        let stage = |s: &str| format!("{s}({})", if with_imports { "with imports" } else { "without imports" });
        let bytes = match guard::catch(|| ast.to_bytes(opt)) {
            Ok(b) => b,
            Err(p) => return fail(ctx, tag, "program", &stage("encode_panic"), guard::short_panic(&p), &case),
        };
        if with_imports {
            st.encodings.lock().unwrap().insert(bytes.clone());
        }
        let dec = match guard::catch(|| ProgramAst::from_bytes(&bytes)) {
            Ok(Ok(d)) => d,
            Ok(Err(e)) => return fail(ctx, tag, "program", &stage("decode_err"), format!("{e:?} ({} bytes)", bytes.len()), &case),
            Err(p) => return fail(ctx, tag, "program", &stage("decode_panic"), guard::short_panic(&p), &case),
        };
        // byte stability and second generation
        let bytes2 = dec.to_bytes(opt);
        if bytes2 != bytes {
            return fail(ctx, tag, "program", &stage("reencode_differs"), format!("{} vs {} bytes", bytes.len(), bytes2.len()), &case);
        }
        // reload locations, re-attach imports that were not serialised, compare
        let mut locs = Vec::new();
        ast.write_source_locations(&mut locs);
        let mut full = dec.clone();
        let mut rd = SliceReader::new(&locs);
        if let Err(e) = full.load_source_locations(&mut rd) {
            return fail(ctx, tag, "program", &stage("load_locations_err"), format!("{e:?}"), &case);
        }
        if rd.has_more_bytes() {
            return fail(ctx, tag, "program", &stage("locations_not_consumed"), "bytes left after load_source_locations".into(), &case);
        }
        if !with_imports {
            let mut stripped = ast.clone();
            stripped.clear_imports();
            if stripped != full {
                return fail(ctx, tag, "program", &stage("not_equal"), "decode(encode(x)) != x with imports cleared".into(), &case);
            }
            full = full.with_import_info(ast.import_info().clone());
        }
        if full != ast {
            return fail(ctx, tag, "program", &stage("not_equal"), "decode(encode(x)) + locations != x".into(), &case);
        }
        let same_locs = ast.source_locations().eq(full.source_locations())
            && ast.procedures().iter().zip(full.procedures()).all(|(a, b)| a.source_locations().eq(b.source_locations()));
        if !same_locs {
            return fail(ctx, tag, "program", &stage("locations_differ"), "reloaded source locations differ".into(), &case);
        }
        if let Some(orig) = &original {
            let rt = compile_program(&full);
            if let Some((what, detail)) = compare_compiled(orig, &rt) {
                return fail(ctx, tag, "program", &stage(what), detail, &case);
            }
            if !with_imports {
                // informational: the AST as decoded, without its import table
                st.class(&format!("program:compile_without_import_table:{}", compile_program(&dec).class()));
            }
        }
        st.class("program:roundtrip_ok");
    }
}

fn compile_module(ast: &ModuleAst) -> Result<String, String> {
    let asm = fresh_assembler();
    let path = LibraryPath::new(MODULE_PATH).expect("path");
    match guard::catch(|| asm.compile_module(ast, Some(&path), &mut AssemblyContext::for_module(false))) {
        Err(p) => Err(format!("panic: {}", guard::short_panic(&p))),
        Ok(Err(e)) => Err(format!("error: {e}")),
        Ok(Ok(roots)) => Ok(format!("{roots:?}")),
    }
}

fn check_module(ctx: &Ctx, st: &Stats, tag: &Tag, src: &str) {
    let case = json!({"kind": "module", "family": tag.family, "instr": tag.instr, "name": tag.name, "src": src});
    let ast = match guard::catch(|| ModuleAst::parse(src)) {
        Ok(Ok(a)) => a,
        Ok(Err(_)) => return st.class("module:not_parsable"),
        Err(_) => return st.class("module:parser_panic"),
    };
    {
        let (mut ops, mut nested) = (BTreeSet::new(), 0u64);
        for p in ast.procs() {
            walk_nodes(p.body.nodes(), &mut ops, &mut nested);
        }
        st.opcodes.lock().unwrap().extend(ops);
        *st.nested_locations_lost.lock().unwrap() += nested;
    }
    let original = compile_module(&ast);
    st.class(&format!("module:original:{}", if original.is_ok() { "compiled" } else { "compile_error" }));
    for with_imports in [true, false] {
        let opt = AstSerdeOptions::new(with_imports);
        let stage = |s: &str| format!("{s}({})", if with_imports { "with imports" } else { "without imports" });
        let bytes = match guard::catch(|| ast.to_bytes(opt)) {
            Ok(b) => b,
            Err(p) => return fail(ctx, tag, "module", &stage("encode_panic"), guard::short_panic(&p), &case),
        };
        if with_imports {
            st.encodings.lock().unwrap().insert(bytes.clone());
        }
        let dec = match guard::catch(|| ModuleAst::from_bytes(&bytes)) {
            Ok(Ok(d)) => d,
            Ok(Err(e)) => return fail(ctx, tag, "module", &stage("decode_err"), format!("{e:?} ({} bytes)", bytes.len()), &case),
            Err(p) => return fail(ctx, tag, "module", &stage("decode_panic"), guard::short_panic(&p), &case),
        };
        let bytes2 = dec.to_bytes(opt);
        if bytes2 != bytes {
            return fail(ctx, tag, "module", &stage("reencode_differs"), format!("{} vs {} bytes", bytes.len(), bytes2.len()), &case);
        }
        // without locations: equal to the original with locations cleared
        let mut cleared = ast.clone();
        cleared.clear_locations();
        if !with_imports {
            cleared.clear_imports();
        }
        if cleared != dec {
            return fail(ctx, tag, "module", &stage("not_equal"), "decode(encode(x)) != x with locations cleared".into(), &case);
        }
        let mut locs = Vec::new();
        ast.write_source_locations(&mut locs);
        let mut full = dec.clone();
        let mut rd = SliceReader::new(&locs);
        if let Err(e) = full.load_source_locations(&mut rd) {
            return fail(ctx, tag, "module", &stage("load_locations_err"), format!("{e:?}"), &case);
        }
        if rd.has_more_bytes() {
            return fail(ctx, tag, "module", &stage("locations_not_consumed"), "bytes left after load_source_locations".into(), &case);
        }
        if !with_imports {
            full = full.with_import_info(ast.import_info().clone());
        }
        if full != ast {
            return fail(ctx, tag, "module", &stage("not_equal"), "decode(encode(x)) + locations != x".into(), &case);
        }
        let same_locs = ast.procs().iter().zip(full.procs()).all(|(a, b)| a.source_locations().eq(b.source_locations()));
        if !same_locs {
            return fail(ctx, tag, "module", &stage("locations_differ"), "reloaded source locations differ".into(), &case);
        }
        let rt = compile_module(&full);
        if rt != original {
            return fail(ctx, tag, "module", &stage("compile_differs"), format!("original {original:?} round-tripped {rt:?}"), &case);
        }
        st.class("module:roundtrip_ok");
    }
}

// LIBRARIES AND DATA
// ================================================================================================

fn small_library(with_locations: bool) -> MaslLibrary {
    let mods = container_modules();
    let get = |name: &str| ModuleAst::parse(&mods.iter().find(|m| m.0 == name).expect("module").1).expect("module must parse");
    MaslLibrary::new(
        LibraryNamespace::new("mylib").expect("namespace"),
        Version { major: 0, minor: 7, patch: 65535 },
        with_locations,
        vec![
            Module::new(LibraryPath::new("mylib::a").expect("path"), get("procs:3:locals:1:docs:true")),
            Module::new(LibraryPath::new("mylib::deep::b").expect("path"), get("reexport+procs+imports")),
            Module::new(LibraryPath::new("mylib::deep::c").expect("path"), get("nest:ifelse>while>repeat")),
        ],
        vec![LibraryNamespace::new("std").expect("namespace")],
    )
    .expect("library")
}

fn library_by_name(which: &str) -> MaslLibrary {
    match which {
        "small" => small_library(false),
        "small+locations" => small_library(true),
        "stdlib" => stdlib::StdLibrary::default().into(),
        _ => panic!("unknown library {which}"),
    }
}

const LIB_USER: &str = "use.std::math::u64\nuse.std::sys\nuse.std::crypto::hashes::blake3\nuse.std::collections::smt\nbegin exec.u64::wrapping_mul call.u64::wrapping_add exec.blake3::hash_2to1 procref.smt::get dropw exec.sys::truncate_stack end";
const SMALL_LIB_USER: &str = "use.mylib::a\nuse.mylib::deep::b\nuse.mylib::deep::c\nbegin exec.a::p0 exec.a::p2 exec.b::l exec.b::add256 call.b::wrapping_mul exec.c::f end";

fn library_program_hash(lib: &MaslLibrary, which: &str) -> String {
    let r = guard::catch(|| {
        let asm = if which == "stdlib" {
            Assembler::default().with_library(lib)
        } else {
            Assembler::default().with_library(&stdlib::StdLibrary::default()).and_then(|a| a.with_library(lib))
        };
        asm.and_then(|a| a.compile(if which == "stdlib" { LIB_USER } else { SMALL_LIB_USER }))
            .map(|p| format!("{:?} / {}", p.hash(), execute_fixed(&p)))
            .map_err(|e| e.to_string())
    });
    format!("{r:?}")
}

fn check_library(ctx: &Ctx, st: &Stats, which: &str) {
    let tag = Tag { family: "library", instr: "", name: which };
    let case = json!({"kind": "library", "which": which});
    let lib = library_by_name(which);
    let bytes = Serializable::to_bytes(&lib);
    let dec = match guard::catch(|| MaslLibrary::read_from_bytes(&bytes)) {
        Ok(Ok(d)) => d,
        Ok(Err(e)) => return fail(ctx, &tag, "library", "decode_err", format!("{e:?}"), &case),
        Err(p) => return fail(ctx, &tag, "library", "decode_panic", guard::short_panic(&p), &case),
    };
    // a library written without source locations comes back without them
    let mut expected = lib.clone();
    if which == "small" {
        expected.clear_locations();
    }
    if dec != expected {
        return fail(ctx, &tag, "library", "not_equal", "decode(encode(lib)) != lib".into(), &case);
    }
    if Serializable::to_bytes(&dec) != bytes {
        return fail(ctx, &tag, "library", "reencode_differs", "encode(decode(encode(lib))) != encode(lib)".into(), &case);
    }
    let (h1, h2) = (library_program_hash(&lib, which), library_program_hash(&dec, which));
    if h1 != h2 || !h1.starts_with("Ok(Ok(") {
        return fail(ctx, &tag, "library", "compile_differs", format!("program using the library: original {h1} round-tripped {h2}"), &case);
    }
    st.encodings.lock().unwrap().insert(bytes);
    st.class("library:roundtrip_ok");
}

fn digests(n: usize) -> Vec<vm_core::crypto::hash::RpoDigest> {
    (0..n as u64)
        .map(|i| {
            vm_core::crypto::hash::RpoDigest::new([
                Felt::new(i * 7 + 1),
                Felt::new(P_MINUS_1 - i),
                Felt::new(i << 32),
                Felt::new(0x0123_4567_89ab_cdef ^ i),
            ])
        })
        .collect()
}

fn stack_values(n: usize) -> Vec<u64> {
    (0..n as u64).map(|i| match i % 4 { 0 => P_MINUS_1 - i, 1 => i, 2 => u32::MAX as u64 + i, _ => 0 }).collect()
}

fn data_roundtrip<T: Serializable + Deserializable>(
    ctx: &Ctx,
    st: &Stats,
    ty: &str,
    param: u64,
    value: &T,
    equal: impl Fn(&T, &T) -> bool,
) {
    let name = format!("{ty}:{param}");
    let tag = Tag { family: "data", instr: "", name: &name };
    let case = json!({"kind": "data", "type": ty, "param": param});
    let bytes = Serializable::to_bytes(value);
    let dec = match guard::catch(|| T::read_from_bytes(&bytes)) {
        Ok(Ok(d)) => d,
        Ok(Err(e)) => return fail(ctx, &tag, ty, "decode_err", format!("{e:?}"), &case),
        Err(p) => return fail(ctx, &tag, ty, "decode_panic", guard::short_panic(&p), &case),
    };
    if !equal(value, &dec) {
        return fail(ctx, &tag, ty, "not_equal", "decode(encode(x)) != x".into(), &case);
    }
    if Serializable::to_bytes(&dec) != bytes {
        return fail(ctx, &tag, ty, "reencode_differs", "encode(decode(encode(x))) != encode(x)".into(), &case);
    }
    st.encodings.lock().unwrap().insert(bytes);
    st.class(&format!("{ty}:roundtrip_ok"));
}

fn check_data(ctx: &Ctx, st: &Stats, ty: &str, param: u64) {
    let n = param as usize;
    match ty {
        "Kernel" => data_roundtrip(ctx, st, ty, param, &Kernel::new(&digests(n)).expect("kernel"), |a, b| a == b),
        "ProgramInfo" => {
            let d = digests(n + 1);
            let info = ProgramInfo::new(d[n], Kernel::new(&d[..n]).expect("kernel"));
            data_roundtrip(ctx, st, ty, param, &info, |a, b| a == b)
        }
        "StackInputs" => {
            let si = StackInputs::try_from_values(stack_values(n)).expect("stack inputs");
            data_roundtrip(ctx, st, ty, param, &si, |a, b| a.values() == b.values())
        }
        "StackOutputs" => {
            let ov: Vec<u64> = if n > 16 { (0..(n + 1 - 16) as u64).map(|i| i * 3 + 1).collect() } else { vec![] };
            let so = StackOutputs::new(stack_values(n), ov).expect("stack outputs");
            data_roundtrip(ctx, st, ty, param, &so, |a, b| a == b)
        }
        _ => panic!("unknown data type {ty}"),
    }
}

const PROOF_PROGRAMS: [(&str, &str); 2] = [
    ("add", "begin push.3 push.5 add swap drop end"),
    ("kernel+overflow", "proc.f.1 loc_load.0 loc_store.0 end begin syscall.foo call.f repeat.20 dup end push.1 if.true hperm else drop end end"),
];

fn check_proof(ctx: &Ctx, st: &Stats, which: usize) {
    let (name, src) = PROOF_PROGRAMS[which];
    let pname = format!("proof:{name}");
    let tag = Tag { family: "proof", instr: "", name: &pname };
    let case = json!({"kind": "proof", "which": which});
    let program = fresh_assembler().compile(src).expect("proof program must assemble");
    let inputs = stack_inputs(&[7, 8, 9]);
    let (outputs, proof) = miden::prove(&program, inputs.clone(), host(&[]), ProvingOptions::with_96_bit_security(false))
        .expect("proof program must be provable");
    let info = ProgramInfo::from(program);
    // layout 1: to_bytes / from_bytes; layout 2: Serializable / Deserializable
    let b1 = proof.to_bytes();
    let b2 = Serializable::to_bytes(&proof);
    let layouts: [(&str, &Vec<u8>, fn(&[u8]) -> Result<ExecutionProof, vm_core::utils::DeserializationError>, fn(&ExecutionProof) -> Vec<u8>); 2] = [
        ("to_bytes/from_bytes", &b1, ExecutionProof::from_bytes, ExecutionProof::to_bytes),
        ("Serializable/Deserializable", &b2, <ExecutionProof as Deserializable>::read_from_bytes, |p| Serializable::to_bytes(p)),
    ];
    for (lname, bytes, decode, encode) in layouts {
        let dec = match guard::catch(|| decode(bytes)) {
            Ok(Ok(d)) => d,
            Ok(Err(e)) => return fail(ctx, &tag, "proof", "decode_err", format!("{lname}: {e:?}"), &case),
            Err(p) => return fail(ctx, &tag, "proof", "decode_panic", format!("{lname}: {}", guard::short_panic(&p)), &case),
        };
        if dec != proof {
            return fail(ctx, &tag, "proof", "not_equal", format!("{lname}: decode(encode(proof)) != proof"), &case);
        }
        if encode(&dec) != **bytes {
            return fail(ctx, &tag, "proof", "reencode_differs", format!("{lname}: bytes differ"), &case);
        }
        match guard::catch(|| miden::verify(info.clone(), inputs.clone(), outputs.clone(), dec)) {
            Ok(Ok(_)) => {}
            other => return fail(ctx, &tag, "proof", "roundtripped_proof_rejected", format!("{lname}: {other:?}"), &case),
        }
        st.encodings.lock().unwrap().insert((*bytes).clone());
        st.class("proof:roundtrip_ok");
    }
    // the statement travels with the proof
    let statement = guard::catch(|| {
        Ok::<_, vm_core::utils::DeserializationError>((
            ProgramInfo::read_from_bytes(&Serializable::to_bytes(&info))?,
            StackInputs::read_from_bytes(&Serializable::to_bytes(&inputs))?,
            StackOutputs::read_from_bytes(&Serializable::to_bytes(&outputs))?,
        ))
    });
    let (i2, s2, o2) = match statement {
        Ok(Ok(x)) => x,
        other => return fail(ctx, &tag, "proof", "statement_decode_err", format!("{:?}", other.map(|r| r.map(|_| ()))), &case),
    };
    match guard::catch(|| miden::verify(i2, s2, o2, proof)) {
        Ok(Ok(_)) => st.class("proof:statement_roundtrip_ok"),
        other => fail(ctx, &tag, "proof", "roundtripped_statement_rejected", format!("{other:?}"), &case),
    }
}

/// the set of bytes the real node decoder accepts as an opcode: a byte followed by zeros either
/// decodes or fails for a reason other than "not an opcode"
fn accepted_opcodes() -> BTreeSet<u8> {
    let mut set = BTreeSet::new();
    for b in 0..=255u8 {
        let mut bytes = vec![b];
        bytes.extend([0u8; 80]);
        match guard::catch(|| Node::read_from_bytes(&bytes)) {
            Ok(Err(e)) if format!("{e:?}").contains("could not read a valid opcode") => {}
            _ => {
                set.insert(b);
            }
        }
    }
    set
}

// ENTRY POINT
// ================================================================================================

enum Case {
    Program { family: &'static str, instr: String, name: String, src: String, compile: bool },
    Module { family: &'static str, instr: String, name: String, src: String },
    Library(&'static str),
    Data(&'static str, u64),
    Proof(usize),
}

fn run_case(ctx: &Ctx, st: &Stats, c: &Case) {
    match c {
        Case::Program { family, instr, name, src, compile } => check_program(ctx, st, &Tag { family, instr, name }, src, *compile),
        Case::Module { family, instr, name, src } => check_module(ctx, st, &Tag { family, instr, name }, src),
        Case::Library(w) => check_library(ctx, st, w),
        Case::Data(ty, p) => check_data(ctx, st, ty, *p),
        Case::Proof(w) => check_proof(ctx, st, *w),
    }
}

pub fn run(ctx: &Ctx, replay: Option<&Value>) -> i32 {
    let st = Stats {
        classes: Mutex::new(BTreeMap::new()),
        opcodes: Mutex::new(BTreeSet::new()),
        arms: Mutex::new(BTreeSet::new()),
        encodings: Mutex::new(BTreeSet::new()),
        nested_locations_lost: Mutex::new(0),
    };
    if let Some(case) = replay {
        let s = |k: &str| case[k].as_str().unwrap_or("").to_string();
        let leak = |x: String| -> &'static str { Box::leak(x.into_boxed_str()) };
        let c = match case["kind"].as_str().unwrap_or("") {
            "program" => Case::Program { family: leak(s("family")), instr: s("instr"), name: s("name"), src: s("src"), compile: case["compile"].as_bool().unwrap_or(true) },
            "module" => Case::Module { family: leak(s("family")), instr: s("instr"), name: s("name"), src: s("src") },
            "library" => Case::Library(leak(s("which"))),
            "data" => Case::Data(leak(s("type")), case["param"].as_u64().unwrap()),
            "proof" => Case::Proof(case["which"].as_u64().unwrap() as usize),
            k => panic!("unknown replay case kind {k}"),
        };
        if let Case::Program { src, .. } | Case::Module { src, .. } = &c {
            println!("source:\n{src}");
        }
        run_case(ctx, &st, &c);
        println!("observed outcome classes: {:?}", st.classes.lock().unwrap());
        println!("expected: decode(encode(x)) == x, identical re-encoding, and the same MAST root / kernel / code-block table / execution outcome after recompiling the round-tripped object");
        return ctx.finish("exploration", json!({}), &[]);
    }

    let mut cases: Vec<Case> = vec![];
    let spellings = instruction_spellings();
    for i in &spellings {
        cases.push(Case::Program { family: "instruction", instr: i.clone(), name: String::new(), src: instr_program(i), compile: true });
        cases.push(Case::Module { family: "instruction", instr: i.clone(), name: String::new(), src: instr_module(i) });
    }
    let cps = container_programs();
    let cms = container_modules();
    for (name, src, compile) in &cps {
        cases.push(Case::Program { family: "container", instr: String::new(), name: name.clone(), src: src.clone(), compile: *compile });
    }
    for (name, src) in &cms {
        cases.push(Case::Module { family: "container", instr: String::new(), name: name.clone(), src: src.clone() });
    }
    for w in ["small", "small+locations", "stdlib"] {
        cases.push(Case::Library(w));
    }
    for n in [0u64, 1, 3, 255] {
        cases.push(Case::Data("Kernel", n));
        cases.push(Case::Data("ProgramInfo", n));
    }
    for n in [0u64, 1, 16, 17, 40] {
        cases.push(Case::Data("StackInputs", n));
        cases.push(Case::Data("StackOutputs", n));
    }
    cases.push(Case::Proof(0));
    let mut pair_alphabet = 0usize;
    if ctx.tier == Tier::Thorough {
        cases.push(Case::Proof(1));
        // every ordered pair of instruction encodings (one representative spelling per opcode byte)
        // in one procedure body: framing errors between neighbouring nodes (AST round trip only)
        let mut reps: BTreeMap<u8, String> = BTreeMap::new();
        for i in &spellings {
            if let Ok(Ok(ast)) = guard::catch(|| ProgramAst::parse(&instr_program(i))) {
                if let Some(b) = ast.procedures().get(1).and_then(|p| p.body.nodes().first()).and_then(|n| Serializable::to_bytes(n).first().copied()) {
                    reps.entry(b).or_insert_with(|| i.clone());
                }
            }
        }
        pair_alphabet = reps.len();
        for a in reps.values() {
            for b in reps.values() {
                let both = format!("{a} {b}");
                cases.push(Case::Program { family: "instruction-pair", instr: both.clone(), name: String::new(), src: instr_program(&both), compile: false });
            }
        }
    }

    cases.par_iter().for_each(|c| run_case(ctx, &st, c));

    // measured coverage of the instruction encodings
    let accepted = accepted_opcodes();
    let seen = st.opcodes.lock().unwrap().clone();
    let missing: Vec<u8> = accepted.difference(&seen).copied().collect();
    let unexpected: Vec<u8> = seen.difference(&accepted).copied().collect();
    let arms = st.arms.lock().unwrap().clone();
    let arms_missing: Vec<&str> = PARSER_ARMS.iter().filter(|a| !arms.contains(**a)).copied().collect();
    // a coverage hole with no violation means the corpus is stale (machinery failure); with
    // violations recorded it is their consequence (an instruction serialised under a wrong opcode)
    if ctx.num_failures() == 0 {
        assert!(
            missing.is_empty() && unexpected.is_empty(),
            "C10 instruction coverage is incomplete: opcode bytes accepted by the decoder but never produced: {missing:?}; produced but not accepted: {unexpected:?}"
        );
        assert!(arms_missing.is_empty(), "C10: parser arms never exercised by a parsable spelling: {arms_missing:?}");
    } else if !(missing.is_empty() && unexpected.is_empty()) {
        ctx.note(format!("opcode bytes accepted by the decoder but never produced: {missing:?}; produced but not accepted: {unexpected:?}"));
    }

    for c in cases.iter().step_by(cases.len() / 7 + 1) {
        match c {
            Case::Program { src, name, instr, .. } => ctx.sample(json!({"kind": "program", "name": name, "instr": instr, "src": src})),
            Case::Module { src, name, instr, .. } => ctx.sample(json!({"kind": "module", "name": name, "instr": instr, "src": src})),
            Case::Library(w) => ctx.sample(json!({"kind": "library", "which": w})),
            Case::Data(t, p) => ctx.sample(json!({"kind": "data", "type": t, "param": p})),
            Case::Proof(w) => ctx.sample(json!({"kind": "proof", "program": PROOF_PROGRAMS[*w].1})),
        }
    }
    let classes = st.classes.lock().unwrap().clone();
    let evaluations: u64 = classes.iter().filter(|(k, _)| k.ends_with("roundtrip_ok")).map(|(_, v)| *v).sum::<u64>() + ctx.num_failures() as u64;
    let cov = json!({
        "evaluations": evaluations,
        "distinct_nontrivial": st.encodings.lock().unwrap().len(),
        "rule": "evaluation = one (object, serialisation mode) pair taken through encode → decode → compare → re-encode → recompile/execute; distinct_nontrivial = number of distinct byte encodings (mode: with imports) among the objects that parse / can be built",
        "exhaustive": true,
        "cases": cases.len(),
        "instruction_spellings_generated": spellings.len(),
        "parser_arms_listed": PARSER_ARMS.len(),
        "parser_arms_covered": arms.len(),
        "opcode_bytes_accepted_by_decoder": accepted.len(),
        "opcode_bytes_seen_in_serialised_nodes": seen.len(),
        "opcode_bytes_missing": missing,
        "instruction_pair_alphabet": pair_alphabet,
        "instruction_pairs": pair_alphabet * pair_alphabet,
        "container_programs": cps.len(),
        "container_modules": cms.len(),
        "outcome_classes": classes,
        "nested_bodies_whose_locations_are_not_serialised": *st.nested_locations_lost.lock().unwrap(),
        "serialisation_modes": ["with imports", "without imports"],
        "bounds": "boundary immediates per instruction family (see instruction_spellings in c10.rs); nestings of 4 block kinds to depth 3; 0..3 procedures x locals {0,1,255,65535}; repeat {1,2,65536,2^32-1} (compiled up to 65536); thorough: all ordered pairs of one spelling per opcode byte in one body (not compiled); kernel sizes {0,1,3,255}; stack depths {0,1,16,17,40}",
    });
    ctx.finish("exploration", cov, &[
        "equality is the types' PartialEq: for code bodies it ignores source locations when one side has none, and locations of nested blocks are never serialised (counted, not judged)",
        "a spelling the parser rejects is outside the space (counted as not_parsable)",
        "programs are compiled with the stdlib and a one-procedure kernel on a fresh assembler per compilation and executed on one fixed input",
    ])
}
