//! C17 — standard-library hash functions agree with their reference definitions.
//!
//! Subjects: `std::crypto::hashes::blake3::{hash_1to1, hash_2to1}`, `sha256::{hash_1to1, hash_2to1,
//! hash_memory}`, `keccak256::{hash, to_bit_interleaved, from_bit_interleaved}` and
//! `native::{hash_memory, hash_memory_even, state_to_digest}` — i.e. every exported procedure of the
//! four modules (the export lists are read from the loaded StdLibrary and must coincide with the list
//! this module covers, otherwise exit 2).
//! References: crates `blake3`, `sha2`, `sha3::Keccak256` on the byte string the documented word
//! encoding denotes (blake3: little-endian words, sha256: big-endian words, keccak: little-endian
//! u64 lanes given as (hi, lo) u32 pairs), and `Rpo256::{hash_elements, apply_permutation}` (the VM's
//! own hasher) for the native helpers.
//! Inputs are enumerated from structured finite sets, never sampled (see `hash_inputs`): every
//! input whose 32-bit words are each 0 or 0xFFFFFFFF (all 2^8 for 8-word inputs; for 16-word inputs
//! the sub-family `masks_for(function, tier)` — all 2^16 in thorough for blake3 / sha256, 2^14 for
//! keccak), every single-bit input, every all-ones-but-one-bit input, counting patterns.
//! The operands sit on top of 8 pairwise distinct sentinels; the whole final stack is compared.

use crate::common::*;
use mcx::{guard, json, Ctx, Tier, Value};
use processor::Program;
use rayon::prelude::*;
use sha2::Digest as _;
use std::collections::{BTreeMap, BTreeSet};
use vm_core::crypto::hash::Rpo256;
use vm_core::{Felt, StarkField};

const M32: u64 = 0xFFFF_FFFF;

/// pairwise distinct, none of them a valid u32
const SENT: [u64; 8] = [
    0xC17E_0100_0101_0101,
    0xC17E_0200_0202_0202,
    0xC17E_0300_0303_0303,
    0xC17E_0400_0404_0404,
    0xC17E_0500_0505_0505,
    0xC17E_0600_0606_0606,
    0xC17E_0700_0707_0707,
    0xC17E_0800_0808_0808,
];

/// Performance only. One keccak256::hash run builds a 2^17-row trace (~90 MB). On this box a page
/// that the process touches for the first time costs ~100 us (measured: first run of a thread 4 s,
/// later runs 55 ms; with glibc's defaults, which mmap / munmap every column, *every* run costs
/// 1.2 s). So (1) glibc is told never to give memory back: no mmap for blocks < 32 MB, no trimming,
/// and a top pad larger than a 64 MB arena heap, which keeps `heap_trim` from deleting the heaps of
/// the per-thread arenas; (2) the runs of this check use a private pool with few threads in the
/// quick tier (footprint = threads x 90 MB is what costs wall time, not CPU).
fn tune_allocator() {
    unsafe {
        libc::mallopt(libc::M_MMAP_THRESHOLD, 32 << 20);
        libc::mallopt(libc::M_TRIM_THRESHOLD, 1 << 30);
        libc::mallopt(libc::M_TOP_PAD, 1 << 30);
    }
}

fn worker_pool(tier: Tier) -> rayon::ThreadPool {
    let n = std::env::var("C17_THREADS").ok().and_then(|s| s.parse().ok()).unwrap_or(tier.pick(6usize, 16usize));
    rayon::ThreadPoolBuilder::new().num_threads(n).stack_size(64 << 20).build().expect("thread pool")
}

fn hex(v: &[u64]) -> String {
    let parts: Vec<String> = v.iter().map(|x| format!("{x:x}")).collect();
    format!("[{}]", parts.join(","))
}

fn strip_zeros(s: &[u64]) -> &[u64] {
    let n = s.iter().rposition(|&x| x != 0).map(|i| i + 1).unwrap_or(0);
    &s[..n]
}

fn u64s(v: &Value) -> Vec<u64> {
    v.as_array().expect("array of integers").iter().map(|x| x.as_u64().expect("u64")).collect()
}

// ------------------------------------------------------------------------------------------------
// the five byte-oriented hash procedures
// ------------------------------------------------------------------------------------------------

#[derive(Clone, Copy, PartialEq, Eq, Debug)]
enum Func {
    Blake3One,
    Blake3Two,
    Sha256One,
    Sha256Two,
    Keccak,
}

const FUNCS: [Func; 5] = [Func::Blake3One, Func::Blake3Two, Func::Sha256One, Func::Sha256Two, Func::Keccak];

impl Func {
    fn module(self) -> &'static str {
        match self {
            Func::Blake3One | Func::Blake3Two => "blake3",
            Func::Sha256One | Func::Sha256Two => "sha256",
            Func::Keccak => "keccak256",
        }
    }
    fn proc(self) -> &'static str {
        match self {
            Func::Blake3One | Func::Sha256One => "hash_1to1",
            Func::Blake3Two | Func::Sha256Two => "hash_2to1",
            Func::Keccak => "hash",
        }
    }
    fn path(self) -> String {
        format!("std::crypto::hashes::{}::{}", self.module(), self.proc())
    }
    fn from_path(p: &str) -> Func {
        *FUNCS.iter().find(|f| f.path() == p).unwrap_or_else(|| panic!("unknown function {p}"))
    }
    fn n_words(self) -> usize {
        match self {
            Func::Blake3One | Func::Sha256One => 8,
            _ => 16,
        }
    }
    /// the byte string denoted by the stack words (top first), per the documented encoding
    fn bytes(self, words: &[u32]) -> Vec<u8> {
        match self {
            // "msg_i -> 32-bit message word", blake3 words are little-endian
            Func::Blake3One | Func::Blake3Two => words.iter().flat_map(|w| w.to_le_bytes()).collect(),
            // "packing 4 consecutive bytes into single word, maintaining big endian byte order"
            Func::Sha256One | Func::Sha256Two => words.iter().flat_map(|w| w.to_be_bytes()).collect(),
            // 64-bit lanes read from a little-endian byte array, each given as (higher, lower) 32 bits
            Func::Keccak => words
                .chunks(2)
                .flat_map(|p| ((((p[0] as u64) << 32) | p[1] as u64)).to_le_bytes())
                .collect(),
        }
    }
    /// the eight digest words (top first) denoted by a 32-byte digest
    fn words_of_digest(self, d: &[u8]) -> Vec<u64> {
        assert_eq!(d.len(), 32);
        match self {
            Func::Blake3One | Func::Blake3Two => {
                d.chunks(4).map(|c| u32::from_le_bytes([c[0], c[1], c[2], c[3]]) as u64).collect()
            }
            Func::Sha256One | Func::Sha256Two => {
                d.chunks(4).map(|c| u32::from_be_bytes([c[0], c[1], c[2], c[3]]) as u64).collect()
            }
            Func::Keccak => d
                .chunks(8)
                .flat_map(|c| {
                    let lane = u64::from_le_bytes([c[0], c[1], c[2], c[3], c[4], c[5], c[6], c[7]]);
                    [lane >> 32, lane & M32]
                })
                .collect(),
        }
    }
    fn reference(self, words: &[u32]) -> Vec<u64> {
        let bytes = self.bytes(words);
        let d: Vec<u8> = match self {
            Func::Blake3One | Func::Blake3Two => blake3::hash(&bytes).as_bytes().to_vec(),
            Func::Sha256One | Func::Sha256Two => sha2::Sha256::digest(&bytes).to_vec(),
            Func::Keccak => sha3::Keccak256::digest(&bytes).to_vec(),
        };
        self.words_of_digest(&d)
    }
    fn compile(self) -> Program {
        let m = self.module();
        let src = format!("use.std::crypto::hashes::{m}\nbegin\n    exec.{m}::{}\nend", self.proc());
        assembler().compile(&src).unwrap_or_else(|e| panic!("SUBJECT: family program must assemble: {src}: {e}"))
    }
}

/// Sub-families of the 2^16 zero/all-ones word patterns of a 16-word input. The 16-bit mask m
/// (bit i set <=> word i = 0xFFFFFFFF) is included
///  * `Masks::Lanes` (256 masks): iff its bits come in equal pairs (words 2i and 2i+1 equal: every
///    64-bit lane is 0 or all ones);
///  * `Masks::Quick` (976 masks): iff (a) Lanes, or (b) its high byte equals its low byte (both
///    32-byte halves equal), or (c) its high byte is 0, or (d) its low byte is 0 (one half zero, the
///    other one ranging over all 2^8);
///  * `Masks::LastLanes` (2^14 masks): iff bits 12, 13 are equal and bits 14, 15 are equal (the last
///    two 64-bit lanes are 0 or all ones, the first 12 words range over all 2^12 patterns);
///  * `Masks::All`: all 2^16.
#[derive(Clone, Copy, PartialEq, Eq, Debug)]
enum Masks {
    Lanes,
    Quick,
    LastLanes,
    All,
}

fn masks16(which: Masks) -> Vec<u32> {
    (0u32..65536)
        .filter(|&m| {
            let pairs = (0..8).all(|i| (m >> (2 * i)) & 1 == (m >> (2 * i + 1)) & 1);
            let (hi, lo) = (m >> 8, m & 0xFF);
            match which {
                Masks::Lanes => pairs,
                Masks::Quick => pairs || hi == lo || hi == 0 || lo == 0,
                Masks::LastLanes => (m >> 12) & 1 == (m >> 13) & 1 && (m >> 14) & 1 == (m >> 15) & 1,
                Masks::All => true,
            }
        })
        .collect()
}

/// keccak256::hash costs ~55 ms of CPU and ~90 MB of trace per run (blake3 2 ms, sha256 5-8 ms), so
/// it gets the smaller sub-family in each tier
fn masks_for(f: Func, tier: Tier) -> Masks {
    match (f == Func::Keccak, tier) {
        (true, Tier::Quick) => Masks::Lanes,
        (true, Tier::Thorough) => Masks::LastLanes,
        (false, Tier::Quick) => Masks::Quick,
        (false, Tier::Thorough) => Masks::All,
    }
}

/// the enumerated input set for an n-word procedure: (words top first, class)
fn hash_inputs(n: usize, which: Masks) -> Vec<(Vec<u32>, &'static str)> {
    let mut seen: BTreeSet<Vec<u32>> = BTreeSet::new();
    let mut out: Vec<(Vec<u32>, &'static str)> = vec![];
    let mut put = |w: Vec<u32>, tag: &'static str| {
        if seen.insert(w.clone()) {
            out.push((w, tag));
        }
    };
    let masks: Vec<u32> = if n == 8 { (0..256).collect() } else { masks16(which) };
    for m in masks {
        put((0..n).map(|i| if (m >> i) & 1 == 1 { u32::MAX } else { 0 }).collect(), "word_pattern");
    }
    for k in 0..32 * n {
        let mut w = vec![0u32; n];
        w[k / 32] = 1 << (k % 32);
        put(w.clone(), "single_bit");
        put(w.iter().map(|x| !x).collect(), "all_but_one_bit");
    }
    // counting patterns: byte j = j (as big-endian and as little-endian words), word i = i + 1,
    // byte j = 255 - j, word i = 0x01010101 * (i + 1)
    let bytes: Vec<u8> = (0..4 * n).map(|j| j as u8).collect();
    put(bytes.chunks(4).map(|c| u32::from_be_bytes([c[0], c[1], c[2], c[3]])).collect(), "counting");
    put(bytes.chunks(4).map(|c| u32::from_le_bytes([c[0], c[1], c[2], c[3]])).collect(), "counting");
    put((0..n).map(|i| i as u32 + 1).collect(), "counting");
    put(bytes.chunks(4).map(|c| !u32::from_be_bytes([c[0], c[1], c[2], c[3]])).collect(), "counting");
    put((0..n).map(|i| 0x0101_0101 * (i as u32 + 1)).collect(), "counting");
    out
}

fn judge_stack(
    ctx: &Ctx,
    proc_path: &str,
    class: &str,
    what: &str,
    case: &Value,
    out: &Outcome,
    want_top: &[u64],
    n_sent: usize,
    verbose: bool,
) -> &'static str {
    let mut want = want_top.to_vec();
    want.extend_from_slice(&SENT[..n_sent]);
    if verbose {
        println!("expected: success, final stack (zeros below) = {}", hex(&want));
        match out {
            Outcome::Ok(s) => println!("observed: success, final stack = {}", hex(s)),
            o => println!("observed: {}", o.brief()),
        }
    }
    let fail = |kind: &str, extra: Option<(&str, Value)>, detail: String| {
        let mut sig = json!({"kind": kind, "proc": proc_path, "input_class": class});
        if let Some((k, v)) = extra {
            sig.as_object_mut().unwrap().insert(k.into(), v);
        }
        ctx.fail(sig, format!("{proc_path} {what} {detail}"), case.clone());
    };
    match out {
        Outcome::Panic(p) => {
            fail("panic", Some(("panic", json!(guard::short_panic(p)))), guard::short_panic(p));
            "panic"
        }
        Outcome::AsmErr(e) => panic!("SUBJECT: family program must assemble: {e}"),
        Outcome::Err(e) => {
            fail("unexpected_failure", Some(("error", json!(err_variant(e)))), format!("failed with {e}"));
            "unexpected_failure"
        }
        Outcome::Ok(s) => {
            let s = strip_zeros(s);
            let got: Vec<u64> = (0..want_top.len()).map(|i| s.get(i).copied().unwrap_or(0)).collect();
            if s == &want[..] {
                "ok_match"
            } else if got != want_top {
                fail("wrong_digest", None, format!("result={} expected={}", hex(&got), hex(want_top)));
                "wrong_digest"
            } else {
                fail(
                    "stack_disturbed",
                    None,
                    format!("below the result: {} expected {}", hex(s.get(want_top.len()..).unwrap_or(&[])), hex(&SENT[..n_sent])),
                );
                "stack_disturbed"
            }
        }
    }
}

fn check_hash(ctx: &Ctx, f: Func, prog: &Program, words: &[u32], class: &str, verbose: bool) -> (&'static str, Option<Vec<u64>>) {
    let mut st: Vec<u64> = words.iter().map(|&w| w as u64).collect();
    st.extend_from_slice(&SENT);
    let out = run_program(prog, &st, &[]);
    let want = f.reference(words);
    let case = json!({"kind": "hash", "func": f.path(), "words": words, "class": class});
    let what = format!("input words(top first)={}", hex(&st[..words.len()]));
    let c = judge_stack(ctx, &f.path(), class, &what, &case, &out, &want, SENT.len(), verbose);
    let digest = match &out {
        Outcome::Ok(s) => Some(s[..8].to_vec()),
        _ => None,
    };
    (c, digest)
}

/// "start from non-initial states": `first` runs on input `a`, its digest is dropped, then `second`
/// runs on input `b` in the same execution (same context, same frame: the locals of the second
/// procedure occupy the memory the first one left behind). Only the second digest is compared.
fn compile_chain(first: Func, second: Func) -> Program {
    let mut uses = vec![format!("use.std::crypto::hashes::{}", first.module())];
    if second.module() != first.module() {
        uses.push(format!("use.std::crypto::hashes::{}", second.module()));
    }
    let src = format!(
        "{}\nbegin\n    exec.{}::{}\n    dropw dropw\n    exec.{}::{}\nend",
        uses.join("\n"),
        first.module(),
        first.proc(),
        second.module(),
        second.proc()
    );
    assembler().compile(&src).unwrap_or_else(|e| panic!("SUBJECT: family program must assemble: {src}: {e}"))
}

fn check_chain(ctx: &Ctx, first: Func, second: Func, prog: &Program, a: &[u32], b: &[u32], verbose: bool) -> &'static str {
    let mut st: Vec<u64> = a.iter().chain(b.iter()).map(|&w| w as u64).collect();
    st.extend_from_slice(&SENT);
    let out = run_program(prog, &st, &[]);
    let want = second.reference(b);
    let class = format!("second_call_after_{}::{}", first.module(), first.proc());
    let case = json!({"kind": "chain", "first": first.path(), "func": second.path(), "first_words": a, "words": b, "class": class});
    let what = format!("after {} on {}: input words(top first)={}", first.path(), hex(&st[..a.len()]), hex(&st[a.len()..a.len() + b.len()]));
    judge_stack(ctx, &second.path(), &class, &what, &case, &out, &want, SENT.len(), verbose)
}

// ------------------------------------------------------------------------------------------------
// native (RPO) helpers
// ------------------------------------------------------------------------------------------------

const P_MINUS_1: u64 = P - 1;
const GUARD_WORD: [u64; 4] = [0xDEAD_0001, 0xDEAD_0002, 0xDEAD_0003, 0xDEAD_0004];

/// `push.e0.e1.e2.e3.addr mem_storew dropw` for every word of `data` (word i at start + i), plus
/// non-zero guard words right before and after the range (a read outside the range changes the hash)
fn mem_prologue(start: u64, data: &[u64]) -> String {
    let mut s = String::new();
    let mut store = |addr: u64, w: &[u64]| {
        s += &format!("    push.{}.{}.{}.{}.{} mem_storew dropw\n", w[0], w[1], w[2], w[3], addr);
    };
    let n_words = (data.len() / 4) as u64;
    if start > 0 {
        store(start - 1, &GUARD_WORD);
    }
    store(start + n_words, &GUARD_WORD);
    store(start + n_words + 1, &GUARD_WORD);
    for (i, w) in data.chunks(4).enumerate() {
        store(start + i as u64, w);
    }
    s
}

fn rpo_digest_top_first(elements: &[u64]) -> Vec<u64> {
    let d = Rpo256::hash_elements(&felts(elements));
    let mut v: Vec<u64> = d.as_elements().iter().map(|e| e.as_int()).collect();
    v.reverse();
    v
}

fn data_pattern(name: &str, n: usize, seed: u64) -> Vec<u64> {
    match name {
        "counting" => (0..n as u64).map(|j| j + 1).collect(),
        "max" => vec![P_MINUS_1; n],
        "alternating" => (0..n).map(|j| if j % 2 == 0 { 0 } else { P_MINUS_1 }).collect(),
        "seeded" => {
            let mut g = mcx::space::SplitMix(seed ^ 0xC17);
            (0..n).map(|_| g.next() % P).collect()
        }
        _ => panic!("unknown pattern {name}"),
    }
}

const PATTERNS: [&str; 4] = ["counting", "max", "alternating", "seeded"];
/// even and odd word addresses (parity of the start decides the parity of the end for a given length)
const STARTS: [u64; 6] = [0, 1, 1000, 1001, (1 << 32) - 64, (1 << 32) - 63];

/// native::hash_memory: [start_addr, end_addr, ...] -> [H, ...], addresses are word addresses
fn check_hash_memory(ctx: &Ctx, start: u64, data: &[u64], class: &str, verbose: bool) -> &'static str {
    let n_words = (data.len() / 4) as u64;
    let src = format!(
        "use.std::crypto::hashes::native\nbegin\n{}    push.{} push.{}\n    exec.native::hash_memory\nend",
        mem_prologue(start, data),
        start + n_words,
        start
    );
    let out = run_source(&assembler(), &src, &SENT, &[]);
    let path = "std::crypto::hashes::native::hash_memory";
    let case = json!({"kind": "hash_memory", "start": start, "data": data, "class": class});
    let what = format!("start={start} words={n_words} data={}", hex(data));
    if verbose {
        println!("program:\n{src}");
    }
    if n_words == 0 {
        // "Requires start_addr < end_addr": outside the contract; a failure is the documented
        // enforcement, the hash of the empty sequence would also be an agreement with Rpo256
        if verbose {
            println!("expected: failure (empty range is rejected), or the RPO hash of the empty sequence; observed: {}", out.brief());
        }
        return match &out {
            Outcome::Err(_) => "empty_range_rejected",
            Outcome::Ok(s) if strip_zeros(s) == [rpo_digest_top_first(&[]), SENT.to_vec()].concat() => "empty_range_hash_of_empty",
            _ => judge_stack(ctx, path, class, &what, &case, &out, &rpo_digest_top_first(&[]), SENT.len(), false),
        };
    }
    judge_stack(ctx, path, class, &what, &case, &out, &rpo_digest_top_first(data), SENT.len(), verbose)
}

/// native::hash_memory_even: [C, B, A, start, end, ...] -> [C', B', A', end, end, ...]
/// `state` is in hasher order (state[0..4] = capacity A, [4..8] = B, [8..12] = C); on the stack the
/// state is reversed (state[11] on top)
fn check_hash_memory_even(ctx: &Ctx, start: u64, data: &[u64], state: &[u64], class: &str, verbose: bool) -> &'static str {
    assert!(data.len() % 8 == 0 && state.len() == 12);
    let n_words = (data.len() / 4) as u64;
    let end = start + n_words;
    let src = format!(
        "use.std::crypto::hashes::native\nbegin\n{}    exec.native::hash_memory_even\nend",
        mem_prologue(start, data)
    );
    let mut st: Vec<u64> = state.iter().rev().cloned().collect();
    st.push(start);
    st.push(end);
    st.extend_from_slice(&SENT);
    let out = run_source(&assembler(), &src, &st, &[]);
    // reference: the rate (state[4..12]) is overwritten by two consecutive words, then permuted
    let mut s: [Felt; 12] = core::array::from_fn(|i| Felt::new(state[i]));
    for pair in data.chunks(8) {
        for (i, &e) in pair.iter().enumerate() {
            s[4 + i] = Felt::new(e);
        }
        Rpo256::apply_permutation(&mut s);
    }
    let mut want: Vec<u64> = s.iter().rev().map(|e| e.as_int()).collect();
    want.push(end);
    want.push(end);
    let case = json!({"kind": "hash_memory_even", "start": start, "data": data, "state": state, "class": class});
    let what = format!("start={start} words={n_words} state={} data={}", hex(state), hex(data));
    if verbose {
        println!("program:\n{src}\nstack inputs (top first) = {}", hex(&st));
    }
    judge_stack(ctx, "std::crypto::hashes::native::hash_memory_even", class, &what, &case, &out, &want, SENT.len(), verbose)
}

/// native::state_to_digest: [C, B, A, ...] -> [B, ...]; with `permute` the program is
/// `hperm exec.native::state_to_digest` and the reference is the digest part of the permuted state
fn check_state_to_digest(ctx: &Ctx, state: &[u64], permute: bool, class: &str, verbose: bool) -> &'static str {
    assert!(state.len() == 12);
    let src = format!(
        "use.std::crypto::hashes::native\nbegin\n    {}exec.native::state_to_digest\nend",
        if permute { "hperm " } else { "" }
    );
    let mut st: Vec<u64> = state.iter().rev().cloned().collect();
    st.extend_from_slice(&SENT);
    let out = run_source(&assembler(), &src, &st, &[]);
    let mut s: [Felt; 12] = core::array::from_fn(|i| Felt::new(state[i]));
    if permute {
        Rpo256::apply_permutation(&mut s);
    }
    let want: Vec<u64> = s[4..8].iter().rev().map(|e| e.as_int()).collect();
    let case = json!({"kind": "state_to_digest", "state": state, "permute": permute, "class": class});
    let what = format!("state={} permute={permute}", hex(state));
    if verbose {
        println!("program:\n{src}\nstack inputs (top first) = {}", hex(&st));
    }
    judge_stack(ctx, "std::crypto::hashes::native::state_to_digest", class, &what, &case, &out, &want, SENT.len(), verbose)
}

// ------------------------------------------------------------------------------------------------
// sha256::hash_memory and the keccak bit-interleaving helpers
// ------------------------------------------------------------------------------------------------

/// sha256::hash_memory: [addr, len, ...] -> [dig0..dig7, ...]; the message is `len` bytes packed
/// big-endian, 4 bytes per element and 4 elements per memory word, starting at word address `addr`;
/// "the padding space after the message must be all zeros". The element order inside a memory word
/// is not in the doc comment; it is the one stdlib/tests/crypto/sha256.rs uses (a word is stored with
/// `mem_storew` while the first message element is on top, i.e. word = [m3, m2, m1, m0]).
fn check_sha256_memory(ctx: &Ctx, addr: u64, msg: &[u8], class: &str, verbose: bool) -> &'static str {
    let mut padded = msg.to_vec();
    while padded.len() % 16 != 0 {
        padded.push(0);
    }
    let elems: Vec<u64> = padded.chunks(4).map(|c| u32::from_be_bytes([c[0], c[1], c[2], c[3]]) as u64).collect();
    let mut src = String::from("use.std::crypto::hashes::sha256\nbegin\n");
    for (i, w) in elems.chunks(4).enumerate() {
        src += &format!("    push.{}.{}.{}.{}.{} mem_storew dropw\n", w[3], w[2], w[1], w[0], addr + i as u64);
    }
    src += &format!("    push.{} push.{}\n    exec.sha256::hash_memory\nend", msg.len(), addr);
    let out = run_source(&assembler(), &src, &SENT, &[]);
    let want = Func::Sha256One.words_of_digest(&sha2::Sha256::digest(msg));
    let case = json!({"kind": "sha256_memory", "addr": addr, "msg": msg, "class": class});
    let what = format!("addr={addr} len={} msg={:02x?}", msg.len(), msg);
    if verbose {
        println!("program:\n{src}");
    }
    judge_stack(ctx, "std::crypto::hashes::sha256::hash_memory", class, &what, &case, &out, &want, SENT.len(), verbose)
}

/// section 2.1 of the Keccak implementation overview: a 64-bit lane is stored as two 32-bit words,
/// one with the bits at even positions and one with the bits at odd positions
fn interleave(lane: u64) -> (u64, u64) {
    let (mut even, mut odd) = (0u64, 0u64);
    for i in 0..32 {
        even |= ((lane >> (2 * i)) & 1) << i;
        odd |= ((lane >> (2 * i + 1)) & 1) << i;
    }
    (even, odd)
}

/// to_bit_interleaved: [hi, lo, ...] -> [even, odd, ...]; from_bit_interleaved: [even, odd, ...] -> [hi, lo, ...]
fn check_interleave(ctx: &Ctx, progs: &(Program, Program), lane: u64, class: &str, verbose: bool) -> &'static str {
    let (even, odd) = interleave(lane);
    let (hi, lo) = (lane >> 32, lane & M32);
    let mut worst = "ok_match";
    for (name, prog, input, want) in [
        ("to_bit_interleaved", &progs.0, [hi, lo], [even, odd]),
        ("from_bit_interleaved", &progs.1, [even, odd], [hi, lo]),
    ] {
        let mut st = input.to_vec();
        st.extend_from_slice(&SENT);
        let out = run_program(prog, &st, &[]);
        let path = format!("std::crypto::hashes::keccak256::{name}");
        let case = json!({"kind": "interleave", "lane": lane, "class": class});
        if verbose {
            println!("{name}: stack inputs (top first) = {}", hex(&st));
        }
        let c = judge_stack(ctx, &path, class, &format!("lane={lane:#018x} input={}", hex(&input)), &case, &out, &want, SENT.len(), verbose);
        if c != "ok_match" {
            worst = c;
        }
    }
    worst
}

fn compile_interleave() -> (Program, Program) {
    let c = |name: &str| {
        let src = format!("use.std::crypto::hashes::keccak256\nbegin\n    exec.keccak256::{name}\nend");
        assembler().compile(&src).unwrap_or_else(|e| panic!("SUBJECT: family program must assemble: {src}: {e}"))
    };
    (c("to_bit_interleaved"), c("from_bit_interleaved"))
}

fn lane_values() -> Vec<(u64, &'static str)> {
    let mut seen = BTreeSet::new();
    let mut out = vec![];
    let mut put = |v: u64, tag: &'static str| {
        if seen.insert(v) {
            out.push((v, tag));
        }
    };
    for hi in [0u64, M32] {
        for lo in [0u64, M32] {
            put((hi << 32) | lo, "word_pattern");
        }
    }
    for i in 0..64 {
        put(1u64 << i, "single_bit");
        put(!(1u64 << i), "all_but_one_bit");
    }
    for v in [0x5555_5555_5555_5555u64, 0xAAAA_AAAA_AAAA_AAAA, 0x0123_4567_89AB_CDEF, 0x0706_0504_0302_0100, 0xFFFF_0000_FFFF_0000] {
        put(v, "counting");
    }
    out
}

// ------------------------------------------------------------------------------------------------
// driver
// ------------------------------------------------------------------------------------------------

fn exported(module_path: &str) -> BTreeSet<String> {
    use assembly::Library;
    let lib = stdlib::StdLibrary::default();
    let m = lib
        .modules()
        .find(|m| m.path.to_string() == module_path)
        .unwrap_or_else(|| panic!("module {module_path} not in StdLibrary"));
    let mut s: BTreeSet<String> =
        m.ast.procs().iter().filter(|p| p.is_export).map(|p| p.name.to_string()).collect();
    s.extend(m.ast.reexported_procs().iter().map(|p| p.name().to_string()));
    s
}

fn set(names: &[&str]) -> BTreeSet<String> {
    names.iter().map(|s| s.to_string()).collect()
}

fn sha_memory_messages(tier: Tier) -> Vec<(Vec<u8>, &'static str)> {
    // every length 0..=max with the counting pattern byte j = j + 1; plus all-0xFF messages at the
    // padding boundaries
    let max = tier.pick(130usize, 300usize);
    let mut v: Vec<(Vec<u8>, &'static str)> = (0..=max).map(|n| ((0..n).map(|j| (j + 1) as u8).collect(), "counting")).collect();
    for n in [1usize, 3, 4, 55, 56, 63, 64, 65, 119, 120, 128] {
        v.push((vec![0xFF; n], "word_pattern"));
    }
    v
}

pub fn run(ctx: &Ctx, replay: Option<&Value>) -> i32 {
    tune_allocator();
    if let Some(case) = replay {
        let class = case["class"].as_str().unwrap_or("replay").to_string();
        let verdict = match case["kind"].as_str().expect("case.kind") {
            "hash" => {
                let f = Func::from_path(case["func"].as_str().expect("case.func"));
                let words: Vec<u32> = u64s(&case["words"]).into_iter().map(|x| x as u32).collect();
                println!("program: use.std::crypto::hashes::{m} begin exec.{m}::{} end", f.proc(), m = f.module());
                println!("input bytes = {:02x?}", f.bytes(&words));
                check_hash(ctx, f, &f.compile(), &words, &class, true).0
            }
            "chain" => {
                let (f, g) = (Func::from_path(case["first"].as_str().expect("case.first")), Func::from_path(case["func"].as_str().expect("case.func")));
                let a: Vec<u32> = u64s(&case["first_words"]).into_iter().map(|x| x as u32).collect();
                let b: Vec<u32> = u64s(&case["words"]).into_iter().map(|x| x as u32).collect();
                println!("program: exec {} ; dropw dropw ; exec {}", f.path(), g.path());
                check_chain(ctx, f, g, &compile_chain(f, g), &a, &b, true)
            }
            "hash_memory" => check_hash_memory(ctx, case["start"].as_u64().unwrap(), &u64s(&case["data"]), &class, true),
            "hash_memory_even" => check_hash_memory_even(
                ctx,
                case["start"].as_u64().unwrap(),
                &u64s(&case["data"]),
                &u64s(&case["state"]),
                &class,
                true,
            ),
            "state_to_digest" => check_state_to_digest(ctx, &u64s(&case["state"]), case["permute"].as_bool().unwrap(), &class, true),
            "sha256_memory" => {
                let msg: Vec<u8> = u64s(&case["msg"]).into_iter().map(|x| x as u8).collect();
                check_sha256_memory(ctx, case["addr"].as_u64().unwrap(), &msg, &class, true)
            }
            "interleave" => check_interleave(ctx, &compile_interleave(), case["lane"].as_u64().unwrap(), &class, true),
            k => panic!("unknown case kind {k}"),
        };
        println!("verdict for this case: {verdict}");
        return ctx.finish("exploration", json!({}), &[]);
    }

    // every exported procedure of the four modules is covered (computed, not assumed)
    let h = "std::crypto::hashes::";
    assert_eq!(exported(&format!("{h}blake3")), set(&["hash_1to1", "hash_2to1"]), "exports of blake3 changed");
    assert_eq!(exported(&format!("{h}sha256")), set(&["hash_1to1", "hash_2to1", "hash_memory"]), "exports of sha256 changed");
    assert_eq!(
        exported(&format!("{h}keccak256")),
        set(&["hash", "to_bit_interleaved", "from_bit_interleaved"]),
        "exports of keccak256 changed"
    );
    assert_eq!(
        exported(&format!("{h}native")),
        set(&["state_to_digest", "hash_memory_even", "hash_memory"]),
        "exports of native changed"
    );

    let pool = worker_pool(ctx.tier);
    let mut per_proc = serde_json::Map::new();
    let mut evaluations = 0u64;
    let mut nontrivial = 0u64;
    let mut hist: BTreeMap<String, u64> = BTreeMap::new();
    let bump = |hist: &mut BTreeMap<String, u64>, c: &str| *hist.entry(c.to_string()).or_insert(0) += 1;

    // ---- the five byte-oriented hash procedures
    for f in FUNCS {
        let t0 = std::time::Instant::now();
        let prog = f.compile();
        let inputs = hash_inputs(f.n_words(), masks_for(f, ctx.tier));
        // determinism of the machinery
        for (w, _) in inputs.iter().take(8) {
            let st: Vec<u64> = w.iter().map(|&x| x as u64).chain(SENT.iter().cloned()).collect();
            let (a, b) = (run_program(&prog, &st, &[]), run_program(&prog, &st, &[]));
            assert!(a == b, "non-deterministic observation for {}", f.path());
        }
        let res: Vec<(&'static str, Option<Vec<u64>>)> =
            pool.install(|| inputs.par_iter().map(|(w, c)| check_hash(ctx, f, &prog, w, c, false)).collect());
        let mut classes: BTreeMap<&str, u64> = BTreeMap::new();
        let mut by_input_class: BTreeMap<&str, u64> = BTreeMap::new();
        let mut digests: BTreeSet<&Vec<u64>> = BTreeSet::new();
        for ((w, tag), (c, d)) in inputs.iter().zip(res.iter()) {
            *classes.entry(c).or_insert(0) += 1;
            *by_input_class.entry(tag).or_insert(0) += 1;
            bump(&mut hist, c);
            if let Some(d) = d {
                digests.insert(d);
            }
            if w.iter().any(|&x| x != 0) {
                nontrivial += 1;
            }
        }
        evaluations += inputs.len() as u64;
        let wall = t0.elapsed().as_secs_f64();
        per_proc.insert(
            f.path(),
            json!({
                "inputs": inputs.len(),
                "by_input_class": by_input_class,
                "outcome_classes": classes,
                "distinct_observed_digests": digests.len(),
                "wall_s": (wall * 1000.0).round() / 1000.0,
            }),
        );
        let (w, tag) = &inputs[inputs.len() / 2];
        ctx.sample(json!({
            "proc": f.path(),
            "input_class": tag,
            "input_words_top_first": hex(&w.iter().map(|&x| x as u64).collect::<Vec<_>>()),
            "reference_digest_words_top_first": hex(&f.reference(w)),
        }));
    }

    // ---- the same procedures from a non-initial state: every ordered pair (first, second), the second
    // call's digest compared (memory / locals left behind by the first call must not matter)
    {
        let t0 = std::time::Instant::now();
        let mut chain_cases: Vec<(Func, Func, Vec<u32>, Vec<u32>)> = vec![];
        for f in FUNCS {
            let a_inputs: Vec<Vec<u32>> = vec![(0..f.n_words()).map(|i| 0x0101_0101 * (i as u32 + 1)).collect(), vec![u32::MAX; f.n_words()]];
            for g in FUNCS {
                let all = hash_inputs(g.n_words(), Masks::Lanes);
                let step = ctx.tier.pick(all.len() / 20 + 1, all.len() / 150 + 1);
                for a in &a_inputs {
                    for (b, _) in all.iter().step_by(step).chain(all.iter().rev().take(5)) {
                        chain_cases.push((f, g, a.clone(), b.clone()));
                    }
                }
            }
        }
        let progs: BTreeMap<(usize, usize), Program> = FUNCS
            .iter()
            .enumerate()
            .flat_map(|(i, f)| FUNCS.iter().enumerate().map(move |(j, g)| ((i, j), compile_chain(*f, *g))))
            .collect();
        let idx = |f: Func| FUNCS.iter().position(|x| *x == f).unwrap();
        let res: Vec<&'static str> = pool.install(|| {
            chain_cases.par_iter().map(|(f, g, a, b)| check_chain(ctx, *f, *g, &progs[&(idx(*f), idx(*g))], a, b, false)).collect()
        });
        let mut classes: BTreeMap<&str, u64> = BTreeMap::new();
        for c in &res {
            *classes.entry(c).or_insert(0) += 1;
            bump(&mut hist, c);
        }
        evaluations += chain_cases.len() as u64;
        nontrivial += chain_cases.len() as u64;
        per_proc.insert(
            "second call in one execution (every ordered pair of the five procedures)".into(),
            json!({"cases": chain_cases.len(), "ordered_pairs": 25, "outcome_classes": classes, "wall_s": (t0.elapsed().as_secs_f64() * 1000.0).round() / 1000.0}),
        );
    }

    // ---- native::hash_memory: every length 0..=17 words x 6 start addresses (even and odd) x 4 data patterns
    let mut hm_cases: Vec<(u64, Vec<u64>, &'static str)> = vec![];
    for &start in &STARTS {
        for len in 0..=17usize {
            for pat in PATTERNS {
                if len == 0 && pat != "counting" {
                    continue; // the empty sequence has one pattern
                }
                hm_cases.push((start, data_pattern(pat, 4 * len, ctx.seed), pat));
            }
        }
    }
    let t0 = std::time::Instant::now();
    let res: Vec<&'static str> =
        pool.install(|| hm_cases.par_iter().map(|(s, d, p)| check_hash_memory(ctx, *s, d, p, false)).collect());
    let mut classes: BTreeMap<&str, u64> = BTreeMap::new();
    for (c, (_, d, _)) in res.iter().zip(hm_cases.iter()) {
        *classes.entry(c).or_insert(0) += 1;
        bump(&mut hist, c);
        if !d.is_empty() {
            nontrivial += 1;
        }
    }
    evaluations += hm_cases.len() as u64;
    per_proc.insert(
        format!("{h}native::hash_memory"),
        json!({"cases": hm_cases.len(), "lengths_in_words": "0..=17 (all)", "start_addresses": STARTS, "data_patterns": PATTERNS,
               "outcome_classes": classes, "wall_s": (t0.elapsed().as_secs_f64() * 1000.0).round() / 1000.0}),
    );
    ctx.sample(json!({"proc": "std::crypto::hashes::native::hash_memory", "start": 1000, "data": data_pattern("counting", 12, 0),
                      "reference_top_first": hex(&rpo_digest_top_first(&data_pattern("counting", 12, 0)))}));

    // ---- native::hash_memory_even: every even length 0..=16 words x 6 starts x 4 patterns x 2 initial states
    let states: [(&str, Vec<u64>); 2] = [("zero_state", vec![0; 12]), ("distinct_state", (101..113).collect())];
    let mut hme_cases: Vec<(u64, Vec<u64>, Vec<u64>, &'static str)> = vec![];
    for &start in &STARTS {
        for pairs in 0..=8usize {
            for pat in PATTERNS {
                if pairs == 0 && pat != "counting" {
                    continue;
                }
                for (_, st) in &states {
                    hme_cases.push((start, data_pattern(pat, 8 * pairs, ctx.seed), st.clone(), pat));
                }
            }
        }
    }
    let t0 = std::time::Instant::now();
    let res: Vec<&'static str> =
        pool.install(|| hme_cases.par_iter().map(|(s, d, st, p)| check_hash_memory_even(ctx, *s, d, st, p, false)).collect());
    let mut classes: BTreeMap<&str, u64> = BTreeMap::new();
    for c in &res {
        *classes.entry(c).or_insert(0) += 1;
        bump(&mut hist, c);
    }
    evaluations += hme_cases.len() as u64;
    nontrivial += hme_cases.iter().filter(|c| !c.1.is_empty()).count() as u64;
    per_proc.insert(
        format!("{h}native::hash_memory_even"),
        json!({"cases": hme_cases.len(), "lengths_in_words": "0,2,..,16 (all)", "start_addresses": STARTS, "data_patterns": PATTERNS,
               "initial_states": states.iter().map(|s| s.0).collect::<Vec<_>>(),
               "outcome_classes": classes, "wall_s": (t0.elapsed().as_secs_f64() * 1000.0).round() / 1000.0}),
    );

    // ---- native::state_to_digest: 4 states x {as is, after hperm}
    let mut classes: BTreeMap<&str, u64> = BTreeMap::new();
    let mut n_std = 0u64;
    for pat in PATTERNS {
        for permute in [false, true] {
            let c = check_state_to_digest(ctx, &data_pattern(pat, 12, ctx.seed), permute, pat, false);
            *classes.entry(c).or_insert(0) += 1;
            bump(&mut hist, c);
            n_std += 1;
        }
    }
    evaluations += n_std;
    nontrivial += n_std;
    per_proc.insert(format!("{h}native::state_to_digest"), json!({"cases": n_std, "outcome_classes": classes}));

    // ---- sha256::hash_memory: every message length 0..=max (counting bytes) at 3 addresses (even and odd)
    let msgs = sha_memory_messages(ctx.tier);
    let sha_cases: Vec<(u64, &Vec<u8>, &'static str)> =
        [100u64, 101, 1 << 20].iter().flat_map(|&a| msgs.iter().map(move |(m, c)| (a, m, *c))).collect();
    let t0 = std::time::Instant::now();
    let res: Vec<&'static str> =
        pool.install(|| sha_cases.par_iter().map(|(a, m, c)| check_sha256_memory(ctx, *a, m, c, false)).collect());
    let mut classes: BTreeMap<&str, u64> = BTreeMap::new();
    for c in &res {
        *classes.entry(c).or_insert(0) += 1;
        bump(&mut hist, c);
    }
    evaluations += sha_cases.len() as u64;
    nontrivial += sha_cases.iter().filter(|c| !c.1.is_empty()).count() as u64;
    per_proc.insert(
        format!("{h}sha256::hash_memory"),
        json!({"cases": sha_cases.len(), "message_lengths_in_bytes": format!("0..={} (all, counting bytes) + all-0xFF at 11 padding-boundary lengths", ctx.tier.pick(130, 300)),
               "addresses": [100u64, 101, 1 << 20], "outcome_classes": classes, "wall_s": (t0.elapsed().as_secs_f64() * 1000.0).round() / 1000.0}),
    );

    // ---- keccak256 bit (de)interleaving helpers
    let lanes = lane_values();
    let progs = compile_interleave();
    let res: Vec<&'static str> =
        pool.install(|| lanes.par_iter().map(|(v, c)| check_interleave(ctx, &progs, *v, c, false)).collect());
    let mut classes: BTreeMap<&str, u64> = BTreeMap::new();
    for c in &res {
        *classes.entry(c).or_insert(0) += 1;
        bump(&mut hist, c);
    }
    evaluations += 2 * lanes.len() as u64;
    nontrivial += 2 * lanes.iter().filter(|l| l.0 != 0).count() as u64;
    per_proc.insert(format!("{h}keccak256::to/from_bit_interleaved"), json!({"lanes": lanes.len(), "outcome_classes": classes}));

    let cov = json!({
        "evaluations": evaluations,
        "distinct_nontrivial": nontrivial,
        "rule": "case = (procedure, input); inputs of a procedure are de-duplicated, so all cases are distinct; non-trivial = the input (message words / memory elements / state) is not empty and not all-zero",
        "input_sets": {
            "8_word_inputs": "all 2^8 words-in-{0,0xFFFFFFFF} patterns, 256 single-bit, 256 all-ones-but-one-bit, 5 counting patterns (de-duplicated)",
            "16_word_inputs": format!(
                "{} of the 2^16 words-in-{{0,0xFFFFFFFF}} patterns for blake3::hash_2to1 and sha256::hash_2to1 (sub-family {:?}), {} for keccak256::hash (sub-family {:?}); 512 single-bit, 512 all-ones-but-one-bit, 5 counting patterns (de-duplicated). Sub-families: Lanes = words 2i and 2i+1 equal; Quick = Lanes, or both halves equal, or one half zero; LastLanes = words 12,13 equal and words 14,15 equal; All = all 2^16",
                masks16(masks_for(Func::Sha256Two, ctx.tier)).len(), masks_for(Func::Sha256Two, ctx.tier),
                masks16(masks_for(Func::Keccak, ctx.tier)).len(), masks_for(Func::Keccak, ctx.tier)),
        },
        "per_procedure": per_proc,
        "outcome_classes": hist,
        "worker_threads": pool.current_num_threads(),
        "exhaustive": true,
        "bounds": "the stated finite input sets are enumerated completely for every exported procedure of blake3, sha256, keccak256 and native; agreement on all 2^256 / 2^512 inputs is NOT decided",
    });
    ctx.finish(
        "exploration",
        cov,
        &[
            "reference digests come from the crates blake3, sha2, sha3 (Keccak256) and, for the native helpers, from Rpo256::hash_elements / apply_permutation of miden-crypto (the VM's own hasher, as the property states)",
            "word encodings as documented in the procedures' doc comments: blake3 little-endian words, sha256 big-endian words, keccak (hi, lo) halves of little-endian 64-bit lanes",
            "native::hash_memory with an empty range is outside its documented precondition: a failure or the hash of the empty sequence are both accepted",
            "only the stated structured inputs are covered; VERIF_SEED only chooses the element values of the 'seeded' memory pattern",
        ],
    )
}
