//! C05 — not built yet.
use mcx::{Ctx, Value};
pub fn run(_ctx: &Ctx, _replay: Option<&Value>) -> i32 {
    eprintln!("C05: check not built yet");
    2
}
