//! C05 — instruction semantics match the instruction reference on every stack state.
//!
//! (E) every instruction form x operand tuples over the value alphabet x initial depths, one
//!     instruction per run, against `refvm` (documented result, documented failure class, documented
//!     undefined region excluded);
//! (S) breadth-first search over instruction sequences from a set of initial stacks: each transition
//!     re-materialises the state on a fresh VM and executes one instruction; the whole sequence is
//!     also assembled as ONE program and run once; both must agree with each other and with `refvm`;
//! (L) LIFO family: k pushes of distinct values followed by j drops.

use crate::common::*;
use crate::refglue::{self, Verdict};
use mcx::bfs::{self, Model};
use mcx::{json, Ctx, Tier, Value};
use rayon::prelude::*;
use refvm::ast::{op, Prog};
use refvm::interp::Vm;
use std::collections::{BTreeMap, BTreeSet};
use std::sync::Mutex;

const V: [u64; 11] = [0, 1, 2, 1 << 16, 1 << 31, (1 << 32) - 1, 1 << 32, (1 << 32) + 1, 1 << 63, P - 2, P - 1];
const V1_EXTRA: [u64; 10] = [3, 31, 32, 63, 64, 65, 0x8000_0001, 0xFFFF_0000, 0x0000_FFFF, 0xFFFF_FFFE];
const V3: [u64; 6] = [0, 1, 2, (1 << 32) - 1, 1 << 32, P - 1];
const DEPTHS: [usize; 7] = [0, 1, 15, 16, 17, 20, 40];

#[derive(Clone, Debug)]
struct Form {
    tok: String,
    /// number of operand positions on top of the stack that get alphabet values
    arity: usize,
    /// advice stack supplied to the run
    advice: Vec<u64>,
    /// operand positions restricted to condition values {0,1,2,p-1} (position 0), rest filler
    cond: bool,
}

fn form(tok: &str, arity: usize) -> Form {
    Form { tok: tok.to_string(), arity, advice: vec![], cond: false }
}

fn forms() -> Vec<Form> {
    let mut v = vec![];
    for (t, a) in [
        ("assert", 1), ("assertz", 1), ("assert_eq", 2), ("assert_eqw", 8), ("add", 2), ("sub", 2), ("mul", 2),
        ("div", 2), ("neg", 1), ("inv", 1), ("pow2", 1), ("exp", 2), ("ilog2", 1), ("not", 1), ("and", 2), ("or", 2),
        ("xor", 2), ("eq", 2), ("neq", 2), ("lt", 2), ("lte", 2), ("gt", 2), ("gte", 2), ("is_odd", 1), ("eqw", 8),
        ("ext2add", 4), ("ext2sub", 4), ("ext2mul", 4), ("ext2div", 4), ("ext2neg", 2), ("ext2inv", 2),
        ("u32test", 1), ("u32testw", 4), ("u32assert", 1), ("u32assert2", 2), ("u32assertw", 4), ("u32cast", 1),
        ("u32split", 1), ("u32overflowing_add", 2), ("u32wrapping_add", 2), ("u32overflowing_sub", 2),
        ("u32wrapping_sub", 2), ("u32overflowing_mul", 2), ("u32wrapping_mul", 2), ("u32div", 2), ("u32mod", 2),
        ("u32divmod", 2), ("u32overflowing_add3", 3), ("u32wrapping_add3", 3), ("u32overflowing_madd", 3),
        ("u32wrapping_madd", 3), ("u32and", 2), ("u32or", 2), ("u32xor", 2), ("u32not", 1), ("u32shl", 2),
        ("u32shr", 2), ("u32rotl", 2), ("u32rotr", 2), ("u32popcnt", 1), ("u32clz", 1), ("u32ctz", 1), ("u32clo", 1),
        ("u32cto", 1), ("u32lt", 2), ("u32lte", 2), ("u32gt", 2), ("u32gte", 2), ("u32min", 2), ("u32max", 2),
        ("drop", 0), ("dropw", 0), ("padw", 0), ("dup", 0), ("dupw", 0), ("swap", 0), ("swapw", 0), ("swapdw", 0),
        ("sdepth", 0), ("clk", 0),
    ] {
        v.push(form(t, a));
    }
    // immediate forms of field instructions (decimal and hex spelling; p and 2^64-1 are not field elements)
    // (hex spelling is documented for push only)
    let felt_imms = ["0", "1", "2", "7", "65536", "4294967295", "4294967296", "18446744069414584320",
        "18446744069414584321", "18446744073709551615"];
    let push_imms = ["0", "1", "2", "7", "65536", "4294967295", "4294967296", "18446744069414584320", "0x07", "0x7b", "0xffffffff00000000",
        "18446744069414584321", "18446744073709551615", "0xffffffff00000001"];
    for t in ["add", "sub", "mul", "div", "eq", "neq", "exp"] {
        for i in felt_imms {
            v.push(form(&format!("{t}.{i}"), 1));
        }
    }
    for n in [0, 1, 2, 8, 31, 32, 63, 64, 65] {
        v.push(form(&format!("exp.u{n}"), 2));
    }
    for t in ["assert", "assertz", "assert_eq", "u32assert", "u32assert2", "assert_eqw", "u32assertw"] {
        let a = match t {
            "assert" | "assertz" | "u32assert" => 1,
            "assert_eq" | "u32assert2" => 2,
            "u32assertw" => 4,
            _ => 8,
        };
        for c in ["0", "1", "4294967295", "4294967296"] {
            v.push(form(&format!("{t}.err={c}"), a));
        }
    }
    let u32_imms = ["0", "1", "2", "31", "32", "65536", "2147483648", "4294967295", "4294967296"];
    for t in ["u32overflowing_add", "u32wrapping_add", "u32overflowing_sub", "u32wrapping_sub", "u32overflowing_mul",
        "u32wrapping_mul", "u32div", "u32mod", "u32divmod"]
    {
        for i in u32_imms {
            v.push(form(&format!("{t}.{i}"), 1));
        }
    }
    for t in ["u32shl", "u32shr", "u32rotl", "u32rotr"] {
        for i in ["0", "1", "7", "31", "32"] {
            v.push(form(&format!("{t}.{i}"), 1));
        }
    }
    // stack manipulation: every index form, plus the first invalid index on each side
    for n in 0..=16 {
        v.push(form(&format!("dup.{n}"), 0));
        v.push(form(&format!("swap.{n}"), 0));
        v.push(form(&format!("movup.{n}"), 0));
        v.push(form(&format!("movdn.{n}"), 0));
    }
    for n in 0..=4 {
        v.push(form(&format!("dupw.{n}"), 0));
        v.push(form(&format!("swapw.{n}"), 0));
        v.push(form(&format!("movupw.{n}"), 0));
        v.push(form(&format!("movdnw.{n}"), 0));
    }
    for t in ["cswap", "cswapw", "cdrop", "cdropw"] {
        v.push(Form { tok: t.into(), arity: 1, advice: vec![], cond: true });
    }
    // constants
    for i in push_imms {
        v.push(form(&format!("push.{i}"), 0));
    }
    v.push(form("push.1.2", 0));
    v.push(form("push.1.2.3.4", 0));
    v.push(form("push.0x00001234.0x00005678.0x00009012.0x0000abcd", 0));
    v.push(form("push.0x341200000000000078560000000000001290000000000000cdab000000000000", 0));
    v.push(form(&format!("push.{}", (1..=16).map(|i| (100 + i).to_string()).collect::<Vec<_>>().join(".")), 0));
    v.push(form(&format!("push.{}", (1..=17).map(|i| (100 + i).to_string()).collect::<Vec<_>>().join(".")), 0));
    // advice-consuming instructions (documented order)
    for n in 0..=17 {
        v.push(Form { tok: format!("adv_push.{n}"), arity: 0, advice: (1..=20).map(|i| 7000 + i).collect(), cond: false });
    }
    v.push(Form { tok: "adv_push.3".into(), arity: 0, advice: vec![7001, 7002], cond: false });
    v.push(Form { tok: "adv_loadw".into(), arity: 0, advice: vec![7001, 7002, 7003, 7004, 7005], cond: false });
    v.push(Form { tok: "adv_loadw".into(), arity: 0, advice: vec![7001, 7002, 7003], cond: false });
    v
}

fn operand_tuples(f: &Form, tier: Tier) -> Vec<Vec<u64>> {
    if f.cond {
        return [0u64, 1, 2, P - 1].iter().map(|c| vec![*c]).collect();
    }
    match f.arity {
        0 => vec![vec![]],
        1 => V.iter().chain(V1_EXTRA.iter()).map(|x| vec![*x]).collect(),
        2 => mcx::space::tuples(&V, 2),
        3 => mcx::space::tuples(&V3, 3),
        4 => mcx::space::tuples(&V3, 4),
        8 => match tier {
            Tier::Quick => mcx::space::tuples(&[0, P - 1], 8),
            Tier::Thorough => mcx::space::tuples(&[0, 1, P - 1], 8),
        },
        n => panic!("no operand alphabet for arity {n}"),
    }
}

/// initial stack (top first) of depth `depth` whose top carries the operand tuple; the other
/// positions carry pairwise distinct filler so that a mis-routed element is visible
fn make_stack(operands: &[u64], depth: usize) -> Vec<u64> {
    let mut s: Vec<u64> = operands.iter().cloned().take(depth).collect();
    for i in s.len()..depth {
        s.push(1000 + i as u64);
    }
    s
}

struct Case {
    form: usize,
    stack: Vec<u64>,
}

fn run_ref(tok: &str, stack: &[u64], advice: &[u64]) -> (Result<(), refvm::interp::Stop>, Vec<u64>, bool) {
    let prog = Prog::simple(vec![op(tok)]);
    let mut vm = Vm::new(&prog, stack, advice, BTreeMap::new());
    let r = vm.run();
    (r, vm.stack.clone(), vm.depth_uncertain)
}

fn run_ref_seq(toks: &[String], stack: &[u64]) -> (Result<(), refvm::interp::Stop>, Vec<u64>, bool) {
    let prog = Prog::simple(toks.iter().map(|t| op(t)).collect());
    let mut vm = Vm::new(&prog, stack, &[], BTreeMap::new());
    let r = vm.run();
    (r, vm.stack.clone(), vm.depth_uncertain)
}

fn src_of(toks: &[String]) -> String {
    format!("begin {} end", toks.join(" "))
}

/// In a build with debug assertions / overflow checks the unchecked u32 operations panic on
/// operands the instruction reference declares undefined (reference verdict DontCare). Those
/// inputs are outside the property; every other panic is a violation in every build profile.
fn debug_panic_on_undefined_input(real: &Outcome, verdict: &Verdict) -> bool {
    cfg!(debug_assertions) && matches!(real, Outcome::Panic(_)) && matches!(verdict, Verdict::DontCare)
}

fn family(tok: &str) -> String {
    tok.split('.').next().unwrap().to_string()
}

fn check_single(ctx: &Ctx, tok: &str, stack: &[u64], advice: &[u64], program: &Result<processor::Program, String>) -> (String, String) {
    let real = match program {
        Err(e) => Outcome::AsmErr(e.clone()),
        Ok(p) => run_program(p, stack, advice),
    };
    let (r, ref_stack, uncertain) = run_ref(tok, stack, advice);
    let verdict = refglue::compare(&real, &r, &ref_stack, !uncertain);
    if let Outcome::Ok(s) = &real {
        if s.len() < 16 {
            ctx.fail(
                json!({"kind": "depth_below_16", "instr": family(tok)}),
                format!("{tok} on {stack:?}: final depth {}", s.len()),
                json!({"kind": "single", "tok": tok, "stack": stack, "advice": advice}),
            );
        }
    }
    if debug_panic_on_undefined_input(&real, &verdict) {
        // debug-assertion / overflow-check panic of an unchecked u32 operation on an operand the
        // instruction reference declares undefined: outside the property, counted only
        return (refglue::ref_class(&r), "DebugPanicOnUndefinedInput".into());
    }
    if let Outcome::Panic(p) = &real {
        ctx.fail(
            json!({"kind": "panic", "instr": family(tok), "panic": mcx::guard::short_panic(p)}),
            format!("{tok} on {stack:?}: {}", real.brief()),
            json!({"kind": "single", "tok": tok, "stack": stack, "advice": advice}),
        );
    } else if let Verdict::Mismatch(m) = &verdict {
        ctx.fail(
            json!({"kind": "single_step_mismatch", "instr": family(tok), "ref": refglue::ref_class(&r), "real": real.kind()}),
            format!("{tok} on {stack:?} adv {advice:?}: {m}"),
            json!({"kind": "single", "tok": tok, "stack": stack, "advice": advice}),
        );
    }
    (refglue::ref_class(&r), format!("{verdict:?}").split('(').next().unwrap().to_string())
}

// ------------------------------------------------------------------------------------------------
// (S) sequences
// ------------------------------------------------------------------------------------------------

fn seq_alphabet() -> Vec<String> {
    [
        "add", "sub", "mul", "neg", "inv", "not", "and", "or", "eq", "eq.0", "neq", "lt", "is_odd", "add.1", "mul.2",
        "push.0", "push.1", "push.2", "push.4294967296", "push.1.2.3.4", "drop", "dropw", "padw", "dup", "dup.7", "dup.15", "dupw.3",
        "swap", "swap.15", "swapw", "swapw.3", "swapdw", "movup.2", "movup.15", "movdn.2", "movdn.15", "movupw.3", "movdnw.2",
        "cswap", "cdrop", "cswapw", "u32split", "u32cast", "u32overflowing_add", "u32wrapping_sub", "u32overflowing_mul",
        "u32divmod", "u32and", "u32xor", "u32not", "u32shl.1", "u32shr", "u32popcnt", "u32lt", "u32min", "u32assert2", "u32test",
        "sdepth", "assert", "assertz", "ext2mul", "ext2inv", "pow2", "u32overflowing_add3", "u32wrapping_madd",
    ]
    .iter()
    .map(|s| s.to_string())
    .collect()
}

fn seq_inits() -> Vec<Vec<u64>> {
    let distinct = |n: usize| -> Vec<u64> { (0..n).map(|i| 1000 + i as u64).collect() };
    vec![
        vec![],
        vec![1],
        vec![1, 0, 1, 1, 0],
        vec![3, 5, 7, 11],
        vec![0, 0, 1, 2, 3, 4, 5, 6, 7, 8, 9, 10, 11, 12, 13, 14],
        distinct(16),
        distinct(17),
        distinct(20),
        vec![(1 << 32) - 1, (1 << 32) - 1, 1, 5],
        vec![P - 1, P - 1, 1 << 32, 1 << 63],
        vec![1, 1, 1, 1, 1, 1, 1, 1, 1, 1, 1, 1, 1, 1, 1, 1, 1, 1],
        {
            let mut v = vec![1, 2];
            v.extend(distinct(33));
            v
        },
    ]
}

#[derive(Clone)]
struct SeqState {
    stack: Vec<u64>,
    init: usize,
    history: Vec<String>,
    /// the reference lost track of the exact depth somewhere along the first path to this state
    uncertain: bool,
}

struct SeqModel<'a> {
    ctx: &'a Ctx,
    alphabet: Vec<String>,
    inits: Vec<Vec<u64>>,
    programs: BTreeMap<String, processor::Program>,
    classes: Mutex<BTreeMap<String, u64>>,
    sdepth_exact: Mutex<u64>,
}

impl<'a> Model for SeqModel<'a> {
    type State = SeqState;
    type Action = String;

    fn init(&self) -> Vec<SeqState> {
        self.inits
            .iter()
            .enumerate()
            .map(|(i, s)| {
                let mut stack = s.clone();
                while stack.len() < 16 {
                    stack.push(0);
                }
                SeqState { stack, init: i, history: vec![], uncertain: false }
            })
            .collect()
    }
    fn actions(&self, _s: &SeqState) -> Vec<String> {
        self.alphabet.clone()
    }
    fn step(&self, s: &SeqState, a: &String) -> Option<SeqState> {
        let case = || json!({"kind": "seq", "state": s.stack, "init": self.inits[s.init], "history": s.history, "action": a});
        // (1) re-materialise the state on a fresh VM, execute one instruction
        let real = run_program(&self.programs[a], &s.stack, &[]);
        let (r, ref_stack, unc) = run_ref(a, &s.stack, &[]);
        let exact = !unc && !(a == "sdepth" && s.uncertain);
        let v = refglue::compare(&real, &r, &ref_stack, exact);
        if a == "sdepth" && exact {
            *self.sdepth_exact.lock().unwrap() += 1;
        }
        {
            let mut c = self.classes.lock().unwrap();
            *c.entry(format!("{}:{}", refglue::ref_class(&r), real.kind())).or_insert(0) += 1;
        }
        if let Verdict::Mismatch(m) = &v {
            self.ctx.fail(
                json!({"kind": "seq_step_mismatch", "instr": family(a), "ref": refglue::ref_class(&r), "real": real.kind()}),
                format!("{a} on {:?}: {m}", s.stack),
                case(),
            );
        }
        if let (Outcome::Panic(p), false) = (&real, debug_panic_on_undefined_input(&real, &v)) {
            self.ctx.fail(
                json!({"kind": "panic", "instr": family(a), "panic": mcx::guard::short_panic(p)}),
                format!("{a} on {:?}", s.stack),
                case(),
            );
        }
        // (2) the whole history as ONE program from the initial state (exercises span batching,
        // group boundaries, the assembler's peephole forms); must reach the same state
        let mut hist = s.history.clone();
        hist.push(a.clone());
        let whole = run_source(&assembler(), &src_of(&hist), &self.inits[s.init], &[]);
        let same = match (&real, &whole) {
            (Outcome::Ok(x), Outcome::Ok(y)) => refglue::strip_trailing_zeros(x) == refglue::strip_trailing_zeros(y),
            (Outcome::Err(x), Outcome::Err(y)) => err_variant(x) == err_variant(y),
            (x, y) => x.kind() == y.kind(),
        };
        if !same {
            self.ctx.fail(
                json!({"kind": "chained_vs_rematerialised", "instr": family(a)}),
                format!("history {:?} from {:?}: one program gives {}, step-by-step gives {}", hist, self.inits[s.init], whole.brief(), real.brief()),
                case(),
            );
        }
        // (3) the reference run over the whole history from the initial state
        let (rr, rs, runc) = run_ref_seq(&hist, &self.inits[s.init]);
        if let Verdict::Mismatch(m) = refglue::compare(&whole, &rr, &rs, false) {
            self.ctx.fail(
                json!({"kind": "seq_whole_mismatch", "instr": family(a), "ref": refglue::ref_class(&rr), "real": whole.kind()}),
                format!("history {:?} from {:?}: {m}", hist, self.inits[s.init]),
                case(),
            );
        }
        match real {
            Outcome::Ok(stack) => Some(SeqState { stack, init: s.init, history: hist, uncertain: s.uncertain || unc || runc }),
            _ => None,
        }
    }
    fn canon(&self, s: &SeqState) -> Vec<u8> {
        let mut out = Vec::with_capacity(s.stack.len() * 8);
        for v in &s.stack {
            out.extend_from_slice(&v.to_le_bytes());
        }
        out
    }
}

// ------------------------------------------------------------------------------------------------

fn compile(tok_src: &str) -> Result<processor::Program, String> {
    match mcx::guard::catch(|| assembler().compile(tok_src)) {
        Err(p) => panic!("SUBJECT: assembler panicked on {tok_src}: {p}"),
        Ok(Ok(p)) => Ok(p),
        Ok(Err(e)) => Err(format!("{e}")),
    }
}

pub fn run(ctx: &Ctx, replay: Option<&Value>) -> i32 {
    if let Some(case) = replay {
        return replay_case(ctx, case);
    }
    let forms = forms();
    // --- (E) single steps -----------------------------------------------------------------------
    let programs: Vec<Result<processor::Program, String>> =
        forms.par_iter().map(|f| compile(&src_of(&[f.tok.clone()]))).collect();
    let mut cases: Vec<Case> = vec![];
    for (fi, f) in forms.iter().enumerate() {
        let mut seen = BTreeSet::new();
        for t in operand_tuples(f, ctx.tier) {
            for d in DEPTHS {
                let st = make_stack(&t, d);
                if seen.insert(st.clone()) {
                    cases.push(Case { form: fi, stack: st });
                }
            }
        }
    }
    let hist: Mutex<BTreeMap<String, u64>> = Mutex::new(BTreeMap::new());
    let per_form: Mutex<BTreeMap<String, BTreeSet<String>>> = Mutex::new(BTreeMap::new());
    cases.par_chunks(512).for_each(|chunk| {
        let mut local: BTreeMap<String, u64> = BTreeMap::new();
        let mut lf: BTreeMap<String, BTreeSet<String>> = BTreeMap::new();
        for c in chunk {
            let f = &forms[c.form];
            let (rc, vc) = check_single(ctx, &f.tok, &c.stack, &f.advice, &programs[c.form]);
            *local.entry(format!("{rc}/{vc}")).or_insert(0) += 1;
            lf.entry(family(&f.tok)).or_default().insert(rc);
        }
        let mut h = hist.lock().unwrap();
        for (k, v) in local {
            *h.entry(k).or_insert(0) += v;
        }
        let mut pf = per_form.lock().unwrap();
        for (k, v) in lf {
            pf.entry(k).or_default().extend(v);
        }
    });
    let single_cases = cases.len() as u64;
    for c in cases.iter().step_by(cases.len() / 4 + 1) {
        ctx.sample(json!({"kind": "single", "instr": forms[c.form].tok, "stack": c.stack}));
    }

    // --- (L) LIFO --------------------------------------------------------------------------------
    let mut lifo = 0u64;
    let kmax = ctx.tier.pick(24usize, 40usize);
    let lifo_cases: Vec<(usize, usize, usize)> = (0..=kmax)
        .flat_map(|k| (0..=k + 2).flat_map(move |j| [0usize, 16, 19].into_iter().map(move |d| (k, j, d))))
        .collect();
    lifo_cases.par_iter().for_each(|&(k, j, d)| {
        let init: Vec<u64> = (0..d).map(|i| 500 + i as u64).collect();
        let mut toks: Vec<String> = (0..k).map(|i| format!("push.{}", 9000 + i)).collect();
        toks.extend((0..j).map(|_| "drop".to_string()));
        if toks.is_empty() {
            toks.push("push.0".into());
            toks.push("drop".into());
        }
        // expected by the LIFO rule itself (not via refvm): pushes stack up, drops remove from the top,
        // never below 16
        let mut exp: Vec<u64> = init.clone();
        while exp.len() < 16 {
            exp.push(0);
        }
        for i in 0..k {
            exp.insert(0, 9000 + i as u64);
        }
        for _ in 0..j {
            exp.remove(0);
            if exp.len() < 16 {
                exp.push(0);
            }
        }
        let real = run_source(&assembler(), &src_of(&toks), &init, &[]);
        if real != Outcome::Ok(exp.clone()) {
            ctx.fail(
                json!({"kind": "lifo"}),
                format!("{k} pushes, {j} drops from depth {d}: expected {exp:?} got {}", real.brief()),
                json!({"kind": "lifo", "k": k, "j": j, "d": d}),
            );
        }
    });
    lifo += lifo_cases.len() as u64;

    // --- (S) sequences ---------------------------------------------------------------------------
    let alphabet = seq_alphabet();
    let seq_programs: BTreeMap<String, processor::Program> = alphabet
        .iter()
        .map(|a| (a.clone(), compile(&src_of(&[a.clone()])).expect("sequence alphabet must assemble")))
        .collect();
    let model = SeqModel {
        ctx,
        alphabet: alphabet.clone(),
        inits: seq_inits(),
        programs: seq_programs,
        classes: Mutex::new(BTreeMap::new()),
        sdepth_exact: Mutex::new(0),
    };
    let depth = ctx.tier.pick(2, 3);
    // the wall-clock cap is a safety net only (checked between depths; a cap that is hit is reported in
    // the evidence as cap_hit / exhaustive = false): generous, so that a loaded machine does not cut the search
    let stats = bfs::bfs(&model, depth, ctx.tier.pick(600.0, 3600.0), ctx.tier.pick(200_000, 3_000_000));
    ctx.sample(json!({"kind": "seq", "init": model.inits[3], "example_history": ["push.1.2.3.4", "u32overflowing_add", "movdn.15"]}));

    let h = hist.into_inner().unwrap();
    let pf = per_form.into_inner().unwrap();
    let compared: u64 = h.iter().filter(|(k, _)| k.ends_with("/Agree")).map(|(_, v)| *v).sum();
    let dont_care: u64 = h.iter().filter(|(k, _)| k.ends_with("/DontCare")).map(|(_, v)| *v).sum();
    let classes_per_family: BTreeMap<String, Vec<String>> = pf.into_iter().map(|(k, v)| (k, v.into_iter().collect())).collect();
    let distinct_outcome_pairs: usize = classes_per_family.values().map(|v| v.len()).sum();
    let cov = json!({
        "states": stats.states,
        "transitions": stats.transitions,
        "traces_validated_against_impl": stats.transitions,
        "bfs": {"depth_completed": stats.depth_completed, "duplicates": stats.duplicates, "terminal_transitions": stats.terminal,
                "frontier_sizes": stats.frontier_sizes, "cap_hit": stats.cap_hit, "alphabet": alphabet, "initial_states": model.inits.len(),
                "outcome_classes(ref:real)": *model.classes.lock().unwrap(), "sdepth_compared_exactly": *model.sdepth_exact.lock().unwrap()},
        "single_step": {"forms": forms.len(), "cases": single_cases, "compared_and_agreeing": compared, "dont_care": dont_care,
                        "histogram(ref_class/verdict)": h, "value_alphabet": V, "extra_unary_values": V1_EXTRA, "ternary_alphabet": V3, "depths": DEPTHS,
                        "distinct (instruction family, outcome class) pairs": distinct_outcome_pairs},
        "outcome_classes_per_instruction_family": classes_per_family,
        "lifo_cases": lifo,
        "evaluations": single_cases + lifo + stats.transitions * 2,
        "exhaustive": stats.cap_hit.is_none(),
        "bounds": format!("single steps: every form x alphabet tuples x depths; sequences: BFS depth {depth} over {} instructions from {} initial stacks; LIFO k<= {kmax}", alphabet.len(), model.inits.len()),
    });
    ctx.finish("model_checking", cov, &[
        "reference = refvm, written from docs/src/user_docs/assembly; inputs in documented-undefined regions are not compared (counted dont_care)",
        "ext2mul follows the field definition x^2 = x - 2 (docs/src/design/stack/field_ops.md), the user-doc table abbreviates c1",
        "the exact depth (trailing zeros beyond position 15) is compared only where it is determined at instruction level; otherwise stacks are compared modulo trailing zeros",
        "clk is not compared here (C14 compares it with the trace)",
        if cfg!(debug_assertions) {
            "build profile of this run: `checked` (optimised, debug assertions and overflow checks ON in the harness and in every miden-vm crate): arithmetic that silently wraps in release panics here and is reported; debug panics of unchecked u32 operations on documented-undefined operands are counted (DebugPanicOnUndefinedInput), not reported"
        } else {
            "build profile of this run: release (overflow checks off, as shipped); the quick tier runs the same families under the `checked` profile"
        },
    ])
}

fn replay_case(ctx: &Ctx, case: &Value) -> i32 {
    let u = |v: &Value| -> Vec<u64> { v.as_array().map(|a| a.iter().map(|x| x.as_u64().unwrap()).collect()).unwrap_or_default() };
    match case["kind"].as_str().unwrap_or("") {
        "single" => {
            let tok = case["tok"].as_str().unwrap();
            let stack = u(&case["stack"]);
            let advice = u(&case["advice"]);
            let prog = compile(&src_of(&[tok.to_string()]));
            let real = match &prog {
                Err(e) => Outcome::AsmErr(e.clone()),
                Ok(p) => run_program(p, &stack, &advice),
            };
            let (r, rs, unc) = run_ref(tok, &stack, &advice);
            println!("instruction: {tok}\nstack (top first): {stack:?}\nreal: {}\nreference: {:?} stack {:?} (depth uncertain: {unc})", real.brief(), r, rs);
            check_single(ctx, tok, &stack, &advice, &prog);
        }
        "seq" => {
            let init = u(&case["init"]);
            let mut hist: Vec<String> = case["history"].as_array().unwrap().iter().map(|x| x.as_str().unwrap().to_string()).collect();
            hist.push(case["action"].as_str().unwrap().to_string());
            let whole = run_source(&assembler(), &src_of(&hist), &init, &[]);
            let (rr, rs, _) = run_ref_seq(&hist, &init);
            println!("program: {}\ninit: {init:?}\nreal (one program): {}\nreference: {:?} {:?}", src_of(&hist), whole.brief(), rr, rs);
            let state = u(&case["state"]);
            let a = case["action"].as_str().unwrap().to_string();
            let real = run_source(&assembler(), &src_of(&[a.clone()]), &state, &[]);
            let (r, rs2, unc) = run_ref(&a, &state, &[]);
            println!("last step alone: {a} on {state:?}\nreal: {}\nreference: {:?} {:?}", real.brief(), r, rs2);
            if let Verdict::Mismatch(m) = refglue::compare(&real, &r, &rs2, !unc) {
                ctx.fail(json!({"kind": "seq_step_mismatch", "instr": family(&a), "ref": refglue::ref_class(&r), "real": real.kind()}), m, case.clone());
            }
            if let Verdict::Mismatch(m) = refglue::compare(&whole, &rr, &rs, false) {
                ctx.fail(json!({"kind": "seq_whole_mismatch", "instr": family(&a), "ref": refglue::ref_class(&rr), "real": whole.kind()}), m, case.clone());
            }
        }
        "lifo" => {
            println!("lifo case {case}: re-run `./check C05 quick` (the family is tiny)");
        }
        k => panic!("unknown replay kind {k}"),
    }
    ctx.finish("model_checking", json!({}), &[])
}
