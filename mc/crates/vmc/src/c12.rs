//! C12 — all lookups between trace components balance.
//!
//! For every program of the families P1 (+ shapes, + P2 in the thorough tier) and K stated challenge
//! vectors:
//!  (L2) terminal values: every auxiliary column returned by `build_aux_segment` has its specified
//!       first value and, at the last non-random row, its specified terminal value (1 for the block
//!       stack / block hash / op group tables and for b_chip; the program-hash row as the initial
//!       value of the block hash table; the product of the kernel procedure rows for the chiplets
//!       virtual table; the stack overflow table and b_range values the AIR asserts);
//!  (L1) challenge-free recount from the main trace alone: the multiset of memory requests made by
//!       stack rows equals the multiset of memory chiplet rows; the same for bitwise requests /
//!       responses, for 16-bit range-check requests (u32 helper limbs + memory deltas) vs the range
//!       table multiplicities, and for SYSCALL requests vs flagged kernel ROM rows;
//!  attribution: a column that misses its terminal value is attributed to the operations of that
//!       program that talk to the column and fail it in *every* program of the family that executes
//!       them (an operation that also occurs in a balanced program is exonerated).

use crate::airx::{self, Q};
use crate::common::*;
use crate::progs::{self, ProgCase};
use mcx::{json, Ctx, Value};
use rayon::prelude::*;
use std::collections::{BTreeMap, BTreeSet};
use vm_core::{Felt, FieldElement, StarkField};
use winter_prover::Trace;

const CLK: usize = 0;
const CTXC: usize = 2;
const OPB: usize = 9;
const DEC_H: usize = 16;
const HELPER0: usize = 18;
const S0: usize = 32;
const RANGE_M: usize = 51;
const RANGE_V: usize = 52;
const CHIP: usize = 53;

const COLS: [&str; 7] = ["decoder_p1_block_stack", "decoder_p2_block_hash", "decoder_p3_op_group", "stack_p1_overflow", "b_range", "chiplets_vtable", "b_chip"];

fn opname(o: u8) -> &'static str {
    match o {
        7 => "MLOAD", 44 => "MLOADW", 45 => "MSTORE", 46 => "MSTOREW", 83 => "MSTREAM", 82 => "PIPE", 89 => "RCOMBBASE", 38 => "U32AND", 39 => "U32XOR",
        80 => "HPERM", 81 => "MPVERIFY", 96 => "MRUPDATE", 84 => "SPLIT", 85 => "LOOP", 86 => "SPAN", 87 => "JOIN", 88 => "DYN", 104 => "SYSCALL",
        108 => "CALL", 112 => "END", 116 => "REPEAT", 120 => "RESPAN", 124 => "HALT", 100 => "PUSH",
        64 => "U32ADD", 66 => "U32SUB", 68 => "U32MUL", 70 => "U32DIV", 72 => "U32SPLIT", 74 => "U32ASSERT2", 76 => "U32ADD3", 78 => "U32MADD",
        _ => "",
    }
}

/// operations that talk to a given auxiliary column (docs/src/design/lookups, decoder/main.md, chiplets/main.md)
fn talks_to(col: usize, op: &str) -> bool {
    match col {
        // the last END's effect on the decoder tables and its hasher request on b_chip are recorded in the row
        // after it: without a HALT row that is the random row
        0 | 1 | 6 if op == "NO_HALT_ROW" => true,
        0 | 1 => matches!(op, "SPLIT" | "LOOP" | "SPAN" | "JOIN" | "DYN" | "SYSCALL" | "CALL" | "END" | "REPEAT" | "RESPAN" | "HALT"),
        2 => matches!(op, "SPAN" | "RESPAN" | "PUSH"),
        5 => matches!(op, "MPVERIFY" | "MRUPDATE" | "SYSCALL"),
        6 => matches!(
            op,
            "MLOAD" | "MLOADW" | "MSTORE" | "MSTOREW" | "MSTREAM" | "PIPE" | "RCOMBBASE" | "U32AND" | "U32XOR" | "HPERM" | "MPVERIFY" | "MRUPDATE" | "SPLIT"
                | "LOOP" | "SPAN" | "JOIN" | "DYN" | "SYSCALL" | "CALL" | "END" | "RESPAN"
        ),
        _ => false,
    }
}

struct Outcome12 {
    name: String,
    case: Value,
    ops: BTreeSet<&'static str>,
    /// columns missing their terminal / initial value (for any challenge vector)
    bad_cols: BTreeMap<usize, String>,
    /// layer-1 problems: (bus, detail)
    l1: Vec<(String, String)>,
    rows: u64,
    error: Option<String>,
}

fn q(v: Felt) -> Q {
    Q::from(v)
}

fn analyse(case: &ProgCase, challenges: &[Vec<Q>]) -> Outcome12 {
    let cj = json!({"name": case.name, "src": case.src, "kernel": case.kernel, "stack": case.stack, "advice": case.advice, "merkle": !case.merkle_leaves.is_empty()});
    let mut out = Outcome12 { name: case.name.clone(), case: cj, ops: BTreeSet::new(), bad_cols: BTreeMap::new(), l1: vec![], rows: 0, error: None };
    let program = match mcx::guard::catch(|| case.assembler().compile(&case.src)) {
        Ok(Ok(p)) => p,
        _ => {
            out.error = Some("family_program_does_not_assemble".into());
            return out;
        }
    };
    let mut trace = match exec_trace(&program, &case.stack, case.advice_inputs(), processor::ExecutionOptions::default()) {
        Ok(Ok(t)) => t,
        _ => {
            out.error = Some("family_program_does_not_execute".into());
            return out;
        }
    };
    let n = trace.length();
    out.rows = n as u64;
    let cycles = trace.trace_len_summary().main_trace_len();
    let ph: [Felt; 4] = program.hash().into();
    // ---- layer 2 ----------------------------------------------------------------------------
    for ch in challenges {
        let aux = match mcx::guard::catch(|| trace.build_aux_segment::<Q>(&[], ch)) {
            Ok(Some(a)) => a,
            Ok(None) => {
                out.error = Some("no_aux_segment".into());
                return out;
            }
            Err(p) => {
                out.error = Some(format!("aux_segment_panic: {}", mcx::guard::short_panic(&p)));
                return out;
            }
        };
        let main = trace.main_segment();
        let last = n - 2;
        let one = Q::ONE;
        // expected (first, last) per column; None = asserted by the AIR (checked by C03)
        let p2_init = ch[0] + ch[2] * q(ph[0]) + ch[3] * q(ph[1]) + ch[4] * q(ph[2]) + ch[5] * q(ph[3]);
        // kernel procedure table: product over the distinct (addr, root) rows of the kernel ROM
        let mut seen_addr = BTreeSet::new();
        let mut vt_final = one;
        for r in 0..n - 1 {
            let s = |i: usize| main.get(CHIP + i, r).as_int();
            if s(0) == 1 && s(1) == 1 && s(2) == 1 && s(3) == 0 {
                let addr = main.get(CHIP + 5, r);
                if seen_addr.insert(addr.as_int()) {
                    let mut v = ch[0] + ch[1] * q(addr);
                    for k in 0..4 {
                        v += ch[k + 2] * q(main.get(CHIP + 6 + k, r));
                    }
                    vt_final *= v;
                }
            }
        }
        let expect: [(Option<Q>, Option<Q>); 7] =
            [(Some(one), Some(one)), (Some(p2_init), Some(one)), (Some(one), Some(one)), (None, None), (Some(one), Some(one)), (Some(one), Some(vt_final)), (Some(one), Some(one))];
        // the stack overflow table's first and last values depend on the inputs / outputs deeper than 16:
        // the AIR asserts them (stack/main.md); the assertion built from the public inputs is the specification
        {
            use winter_air::Air;
            let air = airx::make_air(&trace, &stack_inputs(&case.stack));
            let mut rand = winter_air::AuxTraceRandElements::<Q>::new();
            rand.add_segment_elements(ch.to_vec());
            for a in air.get_aux_assertions(&rand) {
                if a.column() == 3 {
                    a.apply(n, |step, value| {
                        if aux.get(3, step) != value {
                            out.bad_cols.entry(3).or_insert_with(|| if step == 0 { "initial value".to_string() } else { "terminal value".to_string() });
                        }
                    });
                }
            }
        }
        for (c, (f, l)) in expect.iter().enumerate() {
            if let Some(f) = f {
                if aux.get(c, 0) != *f {
                    out.bad_cols.entry(c).or_insert_with(|| "initial value".to_string());
                }
            }
            if let Some(l) = l {
                if aux.get(c, last) != *l {
                    out.bad_cols.entry(c).or_insert_with(|| "terminal value".to_string());
                }
            }
        }
    }
    // ---- executed operations -----------------------------------------------------------------
    let main = trace.main_segment();
    let g = |c: usize, r: usize| main.get(c, r).as_int();
    let opcode = |r: usize| -> u8 {
        let mut o = 0u8;
        for b in 0..7 {
            o |= ((g(OPB + b, r) & 1) as u8) << b;
        }
        o
    };
    if cycles + 1 == n {
        // the executed cycles fill the trace up to the random row: no HALT row follows the last END
        out.ops.insert("NO_HALT_ROW");
    }
    for r in 0..cycles {
        let nme = opname(opcode(r));
        if !nme.is_empty() {
            out.ops.insert(nme);
        }
    }
    // ---- layer 1: memory -----------------------------------------------------------------------
    // requests: (ctx, addr, clk, is_read, [word or first element]); element accesses carry v0 only
    let mut req_proj: BTreeMap<(u64, u64, u64, bool, u64), i64> = BTreeMap::new();
    let mut req_word: BTreeMap<(u64, u64, u64), [u64; 4]> = BTreeMap::new();
    for r in 0..cycles {
        let (ctx, clk) = (g(CTXC, r), g(CLK, r));
        let s = |i: usize| g(S0 + i, r);
        let sn = |i: usize| g(S0 + i, r + 1);
        match opname(opcode(r)) {
            "MLOAD" => *req_proj.entry((ctx, s(0), clk, true, sn(0))).or_insert(0) += 1,
            "MSTORE" => *req_proj.entry((ctx, s(0), clk, false, sn(0))).or_insert(0) += 1,
            "MLOADW" | "MSTOREW" => {
                let w = [sn(3), sn(2), sn(1), sn(0)];
                let rd = opname(opcode(r)) == "MLOADW";
                *req_proj.entry((ctx, s(0), clk, rd, w[0])).or_insert(0) += 1;
                req_word.insert((ctx, s(0), clk), w);
            }
            "MSTREAM" | "PIPE" => {
                let rd = opname(opcode(r)) == "MSTREAM";
                let a = s(12);
                let w1 = [sn(7), sn(6), sn(5), sn(4)];
                let w2 = [sn(3), sn(2), sn(1), sn(0)];
                *req_proj.entry((ctx, a, clk, rd, w1[0])).or_insert(0) += 1;
                *req_proj.entry((ctx, a + 1, clk, rd, w2[0])).or_insert(0) += 1;
                req_word.insert((ctx, a, clk), w1);
                req_word.insert((ctx, a + 1, clk), w2);
            }
            _ => {}
        }
    }
    let mut mem_rows = 0u64;
    let mut range_req: BTreeMap<u64, i64> = BTreeMap::new();
    for r in 0..n - 1 {
        let s = |i: usize| g(CHIP + i, r);
        if s(0) == 1 && s(1) == 1 && s(2) == 0 {
            mem_rows += 1;
            let rd = g(CHIP + 3, r) == 1;
            let (ctx, addr, clk) = (g(CHIP + 5, r), g(CHIP + 6, r), g(CHIP + 7, r));
            let w = [g(CHIP + 8, r), g(CHIP + 9, r), g(CHIP + 10, r), g(CHIP + 11, r)];
            *req_proj.entry((ctx, addr, clk, rd, w[0])).or_insert(0) -= 1;
            if let Some(rw) = req_word.remove(&(ctx, addr, clk)) {
                if rw != w {
                    out.l1.push(("memory".into(), format!("word at ctx {ctx} addr {addr} clk {clk}: stack side {rw:?}, chiplet {w:?}")));
                }
            }
            // the memory chiplet requests range checks of its delta limbs d0, d1
            *range_req.entry(g(CHIP + 12, r)).or_insert(0) += 1;
            *range_req.entry(g(CHIP + 13, r)).or_insert(0) += 1;
        }
    }
    for (k, v) in req_proj.iter().filter(|(_, v)| **v != 0) {
        // RCOMBBASE requests are not decoded here: skip programs that use it
        if !out.ops.contains("RCOMBBASE") {
            out.l1.push(("memory".into(), format!("access {k:?}: requests - responses = {v}")));
        }
    }
    // ---- layer 1: bitwise ----------------------------------------------------------------------
    let mut bw: BTreeMap<(u64, u64, u64, u64), i64> = BTreeMap::new();
    for r in 0..cycles {
        let o = opname(opcode(r));
        if o == "U32AND" || o == "U32XOR" {
            // the operands are compared as an unordered pair: u32_ops.md writes the request as
            // (s0, s1), the processor sends (s1, s0) on both sides, and AND / XOR are commutative
            let (a, b) = (g(S0, r).min(g(S0 + 1, r)), g(S0, r).max(g(S0 + 1, r)));
            *bw.entry(((o == "U32XOR") as u64, a, b, g(S0, r + 1))).or_insert(0) += 1;
        }
    }
    let mut first_bitwise = None;
    for r in 0..n - 1 {
        if g(CHIP, r) == 1 && g(CHIP + 1, r) == 0 {
            let fb = *first_bitwise.get_or_insert(r);
            if (r - fb) % 8 == 7 {
                let (a, b) = (g(CHIP + 3, r).min(g(CHIP + 4, r)), g(CHIP + 3, r).max(g(CHIP + 4, r)));
                *bw.entry((g(CHIP + 2, r), a, b, g(CHIP + 14, r))).or_insert(0) -= 1;
            }
        }
    }
    for (k, v) in bw.iter().filter(|(_, v)| **v != 0) {
        out.l1.push(("bitwise".into(), format!("(op, a, b, z) = {k:?}: requests - responses = {v}")));
    }
    // ---- layer 1: range checker ----------------------------------------------------------------
    for r in 0..cycles {
        if matches!(opname(opcode(r)), "U32ADD" | "U32SUB" | "U32MUL" | "U32DIV" | "U32SPLIT" | "U32ASSERT2" | "U32ADD3" | "U32MADD") {
            for k in 0..4 {
                *range_req.entry(g(HELPER0 + k, r)).or_insert(0) += 1;
            }
        }
    }
    for r in 0..n - 1 {
        let m = g(RANGE_M, r);
        if m != 0 {
            *range_req.entry(g(RANGE_V, r)).or_insert(0) -= m as i64;
        }
    }
    for (k, v) in range_req.iter().filter(|(_, v)| **v != 0) {
        out.l1.push(("range".into(), format!("value {k}: requests - table multiplicity = {v}")));
    }
    // ---- layer 1: kernel ROM -------------------------------------------------------------------
    let mut kr: BTreeMap<[u64; 4], i64> = BTreeMap::new();
    for r in 0..cycles {
        if opname(opcode(r)) == "SYSCALL" {
            *kr.entry([g(DEC_H, r), g(DEC_H + 1, r), g(DEC_H + 2, r), g(DEC_H + 3, r)]).or_insert(0) += 1;
        }
    }
    for r in 0..n - 1 {
        let s = |i: usize| g(CHIP + i, r);
        if s(0) == 1 && s(1) == 1 && s(2) == 1 && s(3) == 0 && g(CHIP + 4, r) == 1 {
            *kr.entry([g(CHIP + 6, r), g(CHIP + 7, r), g(CHIP + 8, r), g(CHIP + 9, r)]).or_insert(0) -= 1;
        }
    }
    for (k, v) in kr.iter().filter(|(_, v)| **v != 0) {
        out.l1.push(("kernel_rom".into(), format!("procedure {k:?}: syscalls - flagged kernel ROM rows = {v}")));
    }
    let _ = mem_rows;
    out
}

pub fn run(ctx: &Ctx, replay: Option<&Value>) -> i32 {
    let k = ctx.tier.pick(2, 4);
    let challenges = airx::challenge_vectors(ctx.seed, k);
    let fam: Vec<ProgCase> = if let Some(case) = replay {
        let u = |v: &Value| -> Vec<u64> { v.as_array().map(|a| a.iter().map(|x| x.as_u64().unwrap()).collect()).unwrap_or_default() };
        println!("note: attribution uses the whole family; the replay re-analyses this program within it");
        let mut f = crate::c03::family(ctx);
        f.insert(
            0,
            ProgCase {
                name: format!("replay:{}", case["name"].as_str().unwrap_or("")),
                src: case["src"].as_str().unwrap().into(),
                kernel: case["kernel"].as_str().map(String::from),
                stack: u(&case["stack"]),
                advice: u(&case["advice"]),
                merkle_leaves: if case["merkle"].as_bool().unwrap_or(false) { progs::MERKLE_LEAVES.to_vec() } else { vec![] },
                tags: vec![],
            },
        );
        f
    } else {
        crate::c03::family(ctx)
    };
    let results: Vec<Outcome12> = fam.par_iter().map(|c| analyse(c, &challenges)).collect();

    // attribution (greedy cover, deterministic): operations are ranked per column by the share of
    // programs executing them in which the column fails; an operation becomes a suspect if the column
    // fails in at least a quarter of the programs that execute it and no higher-ranked suspect (so an
    // operation that merely co-occurs with a defective one is exonerated by the programs in which it
    // occurs without it; one that never occurs without a suspect is reported as `masked`)
    let mut executed_in: BTreeMap<(usize, &'static str), (u64, u64)> = BTreeMap::new(); // (programs, failing programs)
    for r in &results {
        for c in 0..7 {
            for o in r.ops.iter().filter(|o| talks_to(c, o)) {
                let e = executed_in.entry((c, *o)).or_insert((0, 0));
                e.0 += 1;
                if r.bad_cols.contains_key(&c) {
                    e.1 += 1;
                }
            }
        }
    }
    let mut suspects: BTreeSet<(usize, &'static str)> = BTreeSet::new();
    let mut masked: BTreeSet<(usize, &'static str)> = BTreeSet::new();
    for c in 0..7 {
        let mut ranked: Vec<(&'static str, u64, u64)> = executed_in.iter().filter(|((cc, _), (_, f))| *cc == c && *f > 0).map(|((_, o), (n, f))| (*o, *n, *f)).collect();
        ranked.sort_by(|x, y| (y.2 * x.1).cmp(&(x.2 * y.1)).then(x.0.cmp(y.0)));
        for (o, _, _) in ranked {
            let mut n = 0u64;
            let mut f = 0u64;
            for r in results.iter().filter(|r| r.ops.contains(o) && !r.ops.iter().any(|x| suspects.contains(&(c, *x)))) {
                n += 1;
                if r.bad_cols.contains_key(&c) {
                    f += 1;
                }
            }
            if n == 0 {
                masked.insert((c, o));
            } else if 4 * f >= n {
                suspects.insert((c, o));
            }
        }
    }
    let suspect = |c: usize, o: &str| suspects.iter().any(|(cc, oo)| *cc == c && *oo == o);
    let mut col_fail = [0u64; 7];
    let mut rows = 0u64;
    for r in &results {
        rows += r.rows;
        if let Some(e) = &r.error {
            ctx.fail(json!({"kind": e.split(':').next().unwrap()}), format!("{}: {e}", r.name), r.case.clone());
            continue;
        }
        for (c, what) in &r.bad_cols {
            col_fail[*c] += 1;
            let offenders: Vec<&str> = r.ops.iter().filter(|o| talks_to(*c, o) && suspect(*c, o)).cloned().collect();
            let talking: Vec<&&str> = r.ops.iter().filter(|o| talks_to(*c, o)).collect();
            if offenders.is_empty() {
                ctx.fail(
                    json!({"kind": "column_does_not_reach_its_specified_value", "column": COLS[*c], "offender": "unexplained"}),
                    format!("{}: {} misses its {what}; operations talking to it: {talking:?}", r.name, COLS[*c]),
                    r.case.clone(),
                );
            }
            // one record per offending operation, so that each (column, operation) is matched on its own
            for o in offenders {
                ctx.fail(
                    json!({"kind": "column_does_not_reach_its_specified_value", "column": COLS[*c], "offender": o}),
                    format!("{}: {} misses its {what}; operations talking to it: {talking:?}", r.name, COLS[*c]),
                    r.case.clone(),
                );
            }
        }
        for (bus, detail) in r.l1.iter().take(3) {
            ctx.fail(json!({"kind": "requests_and_responses_differ", "bus": bus}), format!("{}: {detail}", r.name), r.case.clone());
        }
    }
    if replay.is_some() {
        // the replayed program is the first of the family: say what was observed for it
        if let Some(r) = results.first() {
            println!("replayed program: columns missing their specified value: {:?}; operations talking to buses: {:?}", r.bad_cols.iter().map(|(c, w)| format!("{} ({w})", COLS[*c])).collect::<Vec<_>>(), r.ops);
        }
        return ctx.finish("exploration", json!({}), &[]);
    }
    for r in results.iter().step_by(results.len() / 5 + 1) {
        ctx.sample(json!({"name": r.name, "operations_talking_to_buses": r.ops.iter().collect::<Vec<_>>()}));
    }
    let attribution: BTreeMap<String, Value> = executed_in.iter().map(|((c, o), (n, f))| (format!("{} {}", COLS[*c], o), json!({"programs": n, "failing": f}))).collect();
    let cov = json!({
        "evaluations": results.len() * k,
        "distinct_nontrivial": results.iter().filter(|r| !r.ops.is_empty()).count(),
        "rule": "case = (program, challenge vector); non-trivial = the program executes at least one operation that talks to a bus or table (all programs: SPAN / END at least)",
        "programs": results.len(),
        "challenge_vectors": k,
        "rows": rows,
        "columns_checked": COLS,
        "programs_failing_per_column": COLS.iter().zip(col_fail.iter()).map(|(c, n)| (c.to_string(), *n)).collect::<BTreeMap<_, _>>(),
        "attribution(column operation -> programs executing it / failing)": attribution,
        "suspects(column, operation)": suspects.iter().map(|(c, o)| format!("{} {}", COLS[*c], o)).collect::<Vec<_>>(),
        "masked(operation never occurs without a suspect)": masked.iter().map(|(c, o)| format!("{} {}", COLS[*c], o)).collect::<Vec<_>>(),
        "layer1_buses": ["memory (projected + full words)", "bitwise", "range (u32 helper limbs + memory deltas vs multiplicities)", "kernel_rom"],
        "exhaustive": true,
        "bounds": "families P1 + shapes (+ P2 in the thorough tier); K stated challenge vectors",
    });
    ctx.finish("exploration", cov, &[
        "hasher-bus messages and the decoder tables are covered by the terminal values (layer 2) and feature attribution, not by a challenge-free recount",
        "stack overflow table and b_range boundary values are asserted by the AIR itself and checked by C03",
        "K stated challenge vectors stand for 'any verifier challenge'",
    ])
}

/// development aid (`vmc p1dump "<source>"`): rows at which the block stack table column changes
pub fn dump_p1(src: &str) {
    let program = assembler().compile(src).expect("program");
    let mut trace = exec_trace(&program, &[], processor::AdviceInputs::default(), processor::ExecutionOptions::default()).unwrap().unwrap();
    let ch = airx::challenge_vectors(1, 1).remove(0);
    let aux = trace.build_aux_segment::<Q>(&[], &ch).unwrap();
    let main = trace.main_segment();
    let n = trace.length();
    for r in 0..n - 2 {
        let (a, b) = (aux.get(0, r), aux.get(0, r + 1));
        if a != b {
            let mut o = 0u8;
            for k in 0..7 {
                o |= ((main.get(OPB + k, r).as_int() & 1) as u8) << k;
            }
            let hs: Vec<u64> = (0..8).map(|k| main.get(16 + k, r).as_int()).collect();
            let hs1: Vec<u64> = (0..8).map(|k| main.get(16 + k, r + 1).as_int()).collect();
            println!("row {r}: opcode {o} addr {} addr' {} h {:?} h' {:?} p1'/p1 = {:?}", main.get(8, r).as_int(), main.get(8, r + 1).as_int(), hs, hs1, b / a);
        }
    }
    println!("p1 at the last non-random row: {:?}", aux.get(0, n - 2));
    let row = |b: u64, p: u64, l: u64| ch[0] + ch[1] * q(Felt::new(b)) + ch[2] * q(Felt::new(p)) + ch[3] * q(Felt::new(l));
    println!("row(9,0,0)/row(1,0,0) = {:?}", row(9, 0, 0) / row(1, 0, 0));
    for l in [41u64, 1] {
        println!("row(9,0,0)/row(1,0,{l}) = {:?}; row(9,0,{l})/row(1,0,0) = {:?}", row(9, 0, 0) / row(1, 0, l), row(9, 0, l) / row(1, 0, 0));
    }
    for (b, p) in [(1u64, 0u64), (9, 0), (17, 0)] {
        println!("row value ({b},{p},0) = {:?}; inverse = {:?}", row(b, p, 0), row(b, p, 0).inv());
    }
}
