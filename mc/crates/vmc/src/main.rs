//! vmc — the one binary behind `./check Cxx quick|thorough` and `./check Cxx --replay <file>`.

mod airx;
mod common;
mod progs;
mod refglue;
mod c01;
mod c02;
mod c03;
mod c04;
mod c05;
mod c06;
mod c07;
mod c08;
mod c09;
mod c10;
mod c11;
mod c12;
mod c13;
mod c14;
mod c15;
mod c16;
mod c17;
mod c18;
mod c19;

use mcx::{Ctx, Tier};

fn usage() -> ! {
    eprintln!("usage: vmc <Cxx> --tier quick|thorough | vmc <Cxx> --replay <file>");
    std::process::exit(2)
}

fn main() {
    let args: Vec<String> = std::env::args().collect();
    if args.len() < 2 {
        usage();
    }
    let prop = args[1].to_uppercase();
    if prop == "P1DUMP" {
        // development aid: vmc p1dump "<source>"
        c12::dump_p1(args.get(2).map(|s| s.as_str()).unwrap_or_else(|| usage()));
        return;
    }
    let mut tier = match std::env::var("VERIF_TIER").as_deref() {
        Ok("thorough") => Tier::Thorough,
        _ => Tier::Quick,
    };
    let mut replay: Option<String> = None;
    let mut i = 2;
    while i < args.len() {
        match args[i].as_str() {
            "--tier" => {
                i += 1;
                tier = match args.get(i).map(|s| s.as_str()) {
                    Some("quick") => Tier::Quick,
                    Some("thorough") => Tier::Thorough,
                    _ => usage(),
                }
            }
            "quick" => tier = Tier::Quick,
            "thorough" => tier = Tier::Thorough,
            "--replay" => {
                i += 1;
                replay = Some(args.get(i).cloned().unwrap_or_else(|| usage()));
            }
            _ => usage(),
        }
        i += 1;
    }
    let seed: u64 = std::env::var("VERIF_SEED").ok().and_then(|s| s.parse().ok()).unwrap_or(0);
    let threads = std::env::var("VERIF_THREADS").ok().and_then(|s| s.parse().ok()).unwrap_or(16usize);
    rayon::ThreadPoolBuilder::new()
        .num_threads(threads)
        .stack_size(64 << 20)
        .build_global()
        .expect("thread pool");

    let mut ctx = Ctx::new(&prop, tier, seed);
    let replay_case = replay.map(|path| {
        ctx.replaying = true;
        let text = std::fs::read_to_string(&path).unwrap_or_else(|e| {
            eprintln!("cannot read {path}: {e}");
            std::process::exit(2)
        });
        let v: mcx::Value = serde_json::from_str(&text).expect("replay file is not JSON");
        println!("replaying {} :: {}", v["signature"], v["summary"].as_str().unwrap_or(""));
        v["case"].clone()
    });
    // a recorded precondition failure has no single input: replaying it re-runs the exploration
    let replay_case = match replay_case {
        Some(c) if c["kind"] == "subject_panic" => {
            println!("the recorded case is an aborted exploration ({}); re-running the exploration", c["message"]);
            ctx.replaying = false;
            None
        }
        o => o,
    };

    // machinery failures (harness panics) must never look like a verdict: exit code 2
    let r = std::panic::catch_unwind(std::panic::AssertUnwindSafe(|| match prop.as_str() {
        "C01" => c01::run(&ctx, replay_case.as_ref()),
        "C02" => c02::run(&ctx, replay_case.as_ref()),
        "C03" => c03::run(&ctx, replay_case.as_ref()),
        "C04" => c04::run(&ctx, replay_case.as_ref()),
        "C05" => c05::run(&ctx, replay_case.as_ref()),
        "C06" => c06::run(&ctx, replay_case.as_ref()),
        "C07" => c07::run(&ctx, replay_case.as_ref()),
        "C08" => c08::run(&ctx, replay_case.as_ref()),
        "C09" => c09::run(&ctx, replay_case.as_ref()),
        "C10" => c10::run(&ctx, replay_case.as_ref()),
        "C11" => c11::run(&ctx, replay_case.as_ref()),
        "C12" => c12::run(&ctx, replay_case.as_ref()),
        "C13" => c13::run(&ctx, replay_case.as_ref()),
        "C14" => c14::run(&ctx, replay_case.as_ref()),
        "C15" => c15::run(&ctx, replay_case.as_ref()),
        "C16" => c16::run(&ctx, replay_case.as_ref()),
        "C17" => c17::run(&ctx, replay_case.as_ref()),
        "C18" => c18::run(&ctx, replay_case.as_ref()),
        "C19" => c19::run(&ctx, replay_case.as_ref()),
        // development aid: list the trace-shape family with the component lengths of each program
        "SHAPES" => {
            progs::print_shapes();
            0
        }
        _ => {
            eprintln!("no check registered for {prop}");
            2
        }
    }));
    match r {
        Ok(code) => std::process::exit(code),
        Err(payload) => {
            // a panic whose message starts with "SUBJECT:" states a precondition of the exploration that only
            // the code under test can break (a valid family program is rejected, a loader run fails ...): on
            // the unchanged tree it never fires; on a changed tree it is a verdict about that tree, not a
            // harness failure, and the exploration stops there
            let msg = payload.downcast_ref::<String>().cloned().or_else(|| payload.downcast_ref::<&str>().map(|s| s.to_string())).unwrap_or_default();
            if let Some(i) = msg.find("SUBJECT:") {
                let m = msg[i..].chars().take(600).collect::<String>();
                ctx.fail(mcx::json!({"kind": "exploration_precondition_broken_by_the_code_under_test"}), m.clone(), mcx::json!({"kind": "subject_panic", "message": m}));
                let code = ctx.finish("exploration", mcx::json!({"aborted": true, "exhaustive": false, "bounds": "exploration aborted: a precondition that only the code under test can break does not hold"}), &[]);
                std::process::exit(code)
            }
            eprintln!("MACHINERY FAILURE: harness panicked while checking {prop} (not a verdict)");
            std::process::exit(2)
        }
    }
}
