//! C09 — prover-supplied hints cannot change results.
//!
//! Seam: `DishonestHost`, a `processor::Host` that wraps the honest `DefaultHost<MemAdviceProvider>`,
//! forwards every request, and afterwards replaces what the honest host answered by scripted
//! content: the value(s) a hint injector (U32Clz/Ctz/Clo/Cto, ILog2, Ext2Inv, U64Div) pushed onto
//! the advice stack, the node word pushed by MerkleNodeToStack, the Merkle path returned for
//! GetMerklePath / UpdateMerkleNode. If the honest injector refuses (zero operand) the dishonest
//! host pushes its scripted hint anyway instead of failing. A second kind of dishonesty is a
//! *lying Merkle store*: the honest advice provider on top of a store in which one inner-node
//! entry was altered / removed.
//!
//! Families (all enumerated completely, no sampling):
//!   hint    (instruction, operand tuple, scripted hint tuple | honest host)
//!   mtree   (mtree_get/set/verify, tree, node (d,i), operand variant, deviation | honest host)
//!   advice  adv_push.n / adv_loadw / adv_pipe on a scripted advice stack of distinct values
//! Oracle: a run that completes must leave exactly [correct result, untouched sentinels] on the
//! stack; `Err` and panics are "does not complete". With the honest host every valid operand must
//! complete, every invalid one (ilog2 0, zero divisor, zero ext2 element, false Merkle claim) must not.
//! References (clz/ctz/clo/cto, floor log2, Goldilocks / ext2 arithmetic, u64 division, Merkle
//! tree over `Rpo256::merge` as the trusted primitive) are written here from the documentation.

use crate::common::*;
use mcx::space::{deviations, tuples, SplitMix};
use mcx::{guard, json, Ctx, Tier, Value};
use processor::crypto::{MerklePath, MerkleStore, MerkleTree, Rpo256, RpoDigest};
use processor::{
    AdviceExtractor, AdviceInjector, AdviceInputs, AdviceProvider, AdviceSource, ContextId, DefaultHost,
    ExecutionError, ExecutionOptions, Host, HostResponse, MemAdviceProvider, Process, ProcessState, Program,
};
use rayon::prelude::*;
use std::collections::{BTreeMap, BTreeSet};
use vm_core::crypto::merkle::InnerNodeInfo;
use vm_core::{Felt, StarkField};

type W = [u64; 4];

// ================================================================================================
// the dishonest host
// ================================================================================================

#[derive(Clone, Debug, Default)]
struct Script {
    /// replaces what a hint injector pushed; pop order (element 0 is popped first by the VM)
    hint: Option<Vec<u64>>,
    /// replaces the node word pushed by MerkleNodeToStack (word order = pop order)
    node: Option<W>,
    /// replaces single elements of the Merkle path answered by the host (position 0 = sibling of the node)
    path_edits: Vec<(usize, W)>,
    /// replaces the whole Merkle path answered by the host
    path_whole: Option<Vec<W>>,
}

#[derive(Debug, Default)]
struct HostLog {
    hint_injections: u32,
    honest_hint: Option<Vec<u64>>,
    honest_hint_err: Option<String>,
    honest_node: Option<W>,
    honest_path: Option<Vec<W>>,
    answered_path: Option<Vec<W>>,
}

struct DishonestHost {
    inner: DefaultHost<MemAdviceProvider>,
    script: Script,
    log: HostLog,
}

fn dg(w: &W) -> RpoDigest {
    RpoDigest::new([Felt::new(w[0]), Felt::new(w[1]), Felt::new(w[2]), Felt::new(w[3])])
}

fn wd(d: &RpoDigest) -> W {
    let e = d.as_elements();
    [e[0].as_int(), e[1].as_int(), e[2].as_int(), e[3].as_int()]
}

impl DishonestHost {
    fn new(advice: AdviceInputs, script: Script) -> Self {
        DishonestHost { inner: host_from(advice), script, log: HostLog::default() }
    }

    /// the elements the honest injector pushed since `before` (pop order); if `scripted` is given they
    /// are popped again and the scripted ones pushed in their place
    fn replace_pushed<S: ProcessState>(
        &mut self,
        process: &S,
        before: usize,
        scripted: Option<&[u64]>,
    ) -> Result<Vec<u64>, ExecutionError> {
        let after = self.inner.advice_provider().stack().len();
        assert!(after >= before, "harness: an injector shrank the advice stack");
        let honest: Vec<u64> =
            self.inner.advice_provider().stack()[before..].iter().rev().map(|f| f.as_int()).collect();
        if let Some(vals) = scripted {
            for _ in before..after {
                self.inner.advice_provider_mut().pop_stack(process)?;
            }
            for v in vals.iter().rev() {
                self.inner.advice_provider_mut().push_stack(AdviceSource::Value(Felt::new(*v)))?;
            }
        }
        Ok(honest)
    }

    fn edit_path(&mut self, path: MerklePath) -> MerklePath {
        let honest: Vec<W> = path.nodes().iter().map(wd).collect();
        let mut out = match &self.script.path_whole {
            Some(p) => p.clone(),
            None => honest.clone(),
        };
        for (j, w) in &self.script.path_edits {
            if *j < out.len() {
                out[*j] = *w;
            }
        }
        self.log.honest_path = Some(honest);
        self.log.answered_path = Some(out.clone());
        MerklePath::new(out.iter().map(dg).collect())
    }
}

impl Host for DishonestHost {
    fn get_advice<S: ProcessState>(
        &mut self,
        process: &S,
        extractor: AdviceExtractor,
    ) -> Result<HostResponse, ExecutionError> {
        let is_path = matches!(extractor, AdviceExtractor::GetMerklePath);
        let r = self.inner.get_advice(process, extractor)?;
        match r {
            HostResponse::MerklePath(p) if is_path => Ok(HostResponse::MerklePath(self.edit_path(p))),
            other => Ok(other),
        }
    }

    fn set_advice<S: ProcessState>(
        &mut self,
        process: &S,
        injector: AdviceInjector,
    ) -> Result<HostResponse, ExecutionError> {
        use AdviceInjector::*;
        match injector {
            U32Clz | U32Ctz | U32Clo | U32Cto | ILog2 | Ext2Inv | U64Div => {
                self.log.hint_injections += 1;
                let before = self.inner.advice_provider().stack().len();
                let scripted = self.script.hint.clone();
                match self.inner.set_advice(process, injector) {
                    Ok(r) => {
                        let honest = self.replace_pushed(process, before, scripted.as_deref())?;
                        self.log.honest_hint = Some(honest);
                        Ok(r)
                    }
                    Err(e) => {
                        self.log.honest_hint_err = Some(format!("{e:?}"));
                        match scripted {
                            // a dishonest host does not have to refuse: it answers with its own values
                            Some(vals) => {
                                for v in vals.iter().rev() {
                                    self.inner
                                        .advice_provider_mut()
                                        .push_stack(AdviceSource::Value(Felt::new(*v)))?;
                                }
                                Ok(HostResponse::None)
                            }
                            None => Err(e),
                        }
                    }
                }
            }
            MerkleNodeToStack => {
                let before = self.inner.advice_provider().stack().len();
                let r = self.inner.set_advice(process, injector)?;
                let scripted = self.script.node;
                let honest = self.replace_pushed(process, before, scripted.as_ref().map(|w| &w[..]))?;
                if honest.len() == 4 {
                    self.log.honest_node = Some([honest[0], honest[1], honest[2], honest[3]]);
                }
                Ok(r)
            }
            UpdateMerkleNode => match self.inner.set_advice(process, injector)? {
                HostResponse::MerklePath(p) => Ok(HostResponse::MerklePath(self.edit_path(p))),
                other => Ok(other),
            },
            _ => self.inner.set_advice(process, injector),
        }
    }
}

fn exec<H: Host>(program: &Program, stack_top_first: &[u64], host: H) -> Outcome {
    let si = stack_inputs(stack_top_first);
    match guard::catch(|| processor::execute(program, si, host, ExecutionOptions::default())) {
        Err(p) => Outcome::Panic(p),
        Ok(Err(e)) => Outcome::Err(format!("{e:?}")),
        Ok(Ok(t)) => Outcome::Ok(t.stack_outputs().stack().to_vec()),
    }
}

fn outcome_class(o: &Outcome) -> String {
    match o {
        Outcome::Ok(_) => "ok".into(),
        Outcome::Err(e) => format!("err:{}", err_variant(e)),
        Outcome::AsmErr(_) => "asm_err".into(),
        Outcome::Panic(p) => {
            // one line, without the operand values of assert_eq! ("... left: [..] right: [..] @ file:line")
            let s = guard::short_panic(p).split_whitespace().collect::<Vec<_>>().join(" ");
            let s = match (s.find(" left: "), s.rfind(" @ ")) {
                (Some(i), Some(j)) if i < j => format!("{}{}", &s[..i], &s[j..]),
                _ => s,
            };
            format!("panic:{}", s.chars().take(120).collect::<String>())
        }
    }
}

/// final stacks are compared without their trailing zeros (the VM pads to depth 16 with zeros and
/// keeps deeper zero elements in the overflow table; sentinels are non-zero)
fn norm(v: &[u64]) -> Vec<u64> {
    let mut v = v.to_vec();
    while v.last() == Some(&0) {
        v.pop();
    }
    v
}

// ================================================================================================
// references (written from docs/src/user_docs/assembly/*.md)
// ================================================================================================

fn ref_clz(n: u32) -> u64 {
    let mut c = 0;
    for bit in (0..32).rev() {
        if (n >> bit) & 1 == 1 {
            break;
        }
        c += 1;
    }
    c
}
fn ref_ctz(n: u32) -> u64 {
    let mut c = 0;
    for bit in 0..32 {
        if (n >> bit) & 1 == 1 {
            break;
        }
        c += 1;
    }
    c
}
fn ref_clo(n: u32) -> u64 {
    ref_clz(!n)
}
fn ref_cto(n: u32) -> u64 {
    ref_ctz(!n)
}
/// floor(log2 n) for n > 0
fn ref_ilog2(n: u64) -> u64 {
    let mut r = 0;
    let mut m = n;
    while m > 1 {
        m >>= 1;
        r += 1;
    }
    r
}

fn fadd(a: u64, b: u64) -> u64 {
    ((a as u128 + b as u128) % P as u128) as u64
}
fn fsub(a: u64, b: u64) -> u64 {
    ((a as u128 + P as u128 - (b % P) as u128) % P as u128) as u64
}
fn fmul(a: u64, b: u64) -> u64 {
    ((a as u128 * b as u128) % P as u128) as u64
}
fn fpow(mut b: u64, mut e: u64) -> u64 {
    let mut r = 1u64;
    while e > 0 {
        if e & 1 == 1 {
            r = fmul(r, b);
        }
        b = fmul(b, b);
        e >>= 1;
    }
    r
}
/// product in F_p[x]/(x^2 - x + 2): (a0 + a1 x)(b0 + b1 x), using x^2 = x - 2
fn ext2_mul(a: (u64, u64), b: (u64, u64)) -> (u64, u64) {
    let a0b0 = fmul(a.0, b.0);
    let a1b1 = fmul(a.1, b.1);
    let c0 = fsub(a0b0, fmul(2, a1b1));
    let c1 = fadd(fadd(fmul(a.0, b.1), fmul(a.1, b.0)), a1b1);
    (c0, c1)
}
/// inverse via the norm: (a0 + a1 x)(a0 + a1 - a1 x) = a0^2 + a0 a1 + 2 a1^2
fn ext2_inv(a: (u64, u64)) -> (u64, u64) {
    let norm = fadd(fadd(fmul(a.0, a.0), fmul(a.0, a.1)), fmul(2, fmul(a.1, a.1)));
    let ninv = fpow(norm, P - 2);
    let r = (fmul(fadd(a.0, a.1), ninv), fmul(fsub(0, a.1), ninv));
    assert_eq!(ext2_mul(a, r), (1, 0), "harness: ext2 reference inverse is wrong");
    r
}

// ================================================================================================
// family "hint"
// ================================================================================================

#[derive(Clone, Copy, PartialEq, Eq, Debug, PartialOrd, Ord)]
enum HI {
    Clz,
    Ctz,
    Clo,
    Cto,
    Ilog2,
    Ext2Inv,
    Ext2Div,
    U64Div,
    U64Mod,
    U64DivMod,
}

const HINT_INSTRS: [HI; 10] =
    [HI::Clz, HI::Ctz, HI::Clo, HI::Cto, HI::Ilog2, HI::Ext2Inv, HI::Ext2Div, HI::U64Div, HI::U64Mod, HI::U64DivMod];

impl HI {
    fn name(self) -> &'static str {
        match self {
            HI::Clz => "u32clz",
            HI::Ctz => "u32ctz",
            HI::Clo => "u32clo",
            HI::Cto => "u32cto",
            HI::Ilog2 => "ilog2",
            HI::Ext2Inv => "ext2inv",
            HI::Ext2Div => "ext2div",
            HI::U64Div => "std::math::u64::div",
            HI::U64Mod => "std::math::u64::mod",
            HI::U64DivMod => "std::math::u64::divmod",
        }
    }
    fn from_name(s: &str) -> HI {
        *HINT_INSTRS.iter().find(|h| h.name() == s).expect("unknown instruction in replay case")
    }
    fn src(self) -> String {
        match self {
            HI::U64Div => "use.std::math::u64 begin exec.u64::div end".into(),
            HI::U64Mod => "use.std::math::u64 begin exec.u64::mod end".into(),
            HI::U64DivMod => "use.std::math::u64 begin exec.u64::divmod end".into(),
            _ => format!("begin {} end", self.name()),
        }
    }
    fn arity(self) -> usize {
        match self {
            HI::Clz | HI::Ctz | HI::Clo | HI::Cto | HI::Ilog2 => 1,
            HI::Ext2Inv => 2,
            _ => 4,
        }
    }
    fn result_len(self) -> usize {
        match self {
            HI::Clz | HI::Ctz | HI::Clo | HI::Cto | HI::Ilog2 => 1,
            HI::U64DivMod => 4,
            _ => 2,
        }
    }
    /// operands on which the instruction is defined to succeed
    fn valid(self, ops: &[u64]) -> bool {
        match self {
            HI::Clz | HI::Ctz | HI::Clo | HI::Cto => true,
            HI::Ilog2 => ops[0] != 0,
            HI::Ext2Inv => !(ops[0] == 0 && ops[1] == 0),
            HI::Ext2Div => !(ops[0] == 0 && ops[1] == 0),
            HI::U64Div | HI::U64Mod | HI::U64DivMod => !(ops[0] == 0 && ops[1] == 0),
        }
    }
    /// is `res` (top first) the mathematically correct result for `ops` (top first)?
    fn result_ok(self, ops: &[u64], res: &[u64]) -> bool {
        match self {
            HI::Clz => res[0] == ref_clz(ops[0] as u32),
            HI::Ctz => res[0] == ref_ctz(ops[0] as u32),
            HI::Clo => res[0] == ref_clo(ops[0] as u32),
            HI::Cto => res[0] == ref_cto(ops[0] as u32),
            HI::Ilog2 => ops[0] != 0 && res[0] == ref_ilog2(ops[0]),
            // [a1, a0] -> [r1, r0] with r * a = 1
            HI::Ext2Inv => ext2_mul((ops[1], ops[0]), (res[1], res[0])) == (1, 0),
            // [b1, b0, a1, a0] -> [c1, c0] with c * b = a and b != 0
            HI::Ext2Div => {
                !(ops[0] == 0 && ops[1] == 0) && ext2_mul((res[1], res[0]), (ops[1], ops[0])) == (ops[3], ops[2])
            }
            HI::U64Div | HI::U64Mod | HI::U64DivMod => {
                let b = (ops[0] << 32) + ops[1];
                let a = (ops[2] << 32) + ops[3];
                if b == 0 {
                    return false;
                }
                let (q, r) = (a / b, a % b);
                let qq = [q >> 32, q & 0xffff_ffff];
                let rr = [r >> 32, r & 0xffff_ffff];
                match self {
                    HI::U64Div => res == qq,
                    HI::U64Mod => res == rr,
                    _ => res[..2] == rr && res[2..] == qq,
                }
            }
        }
    }
    fn expected_text(self, ops: &[u64]) -> String {
        if !self.valid(ops) {
            return "must not complete (operand outside the instruction's domain)".into();
        }
        match self {
            HI::Clz => format!("[{}]", ref_clz(ops[0] as u32)),
            HI::Ctz => format!("[{}]", ref_ctz(ops[0] as u32)),
            HI::Clo => format!("[{}]", ref_clo(ops[0] as u32)),
            HI::Cto => format!("[{}]", ref_cto(ops[0] as u32)),
            HI::Ilog2 => format!("[{}]", ref_ilog2(ops[0])),
            HI::Ext2Inv => {
                let r = ext2_inv((ops[1], ops[0]));
                format!("[{}, {}]", r.1, r.0)
            }
            HI::Ext2Div => {
                let r = ext2_mul((ops[3], ops[2]), ext2_inv((ops[1], ops[0])));
                format!("[{}, {}]", r.1, r.0)
            }
            _ => {
                let b = (ops[0] << 32) + ops[1];
                let a = (ops[2] << 32) + ops[3];
                format!("q={} r={} (limbs hi,lo)", a / b, a % b)
            }
        }
    }
    /// the honest hint in pop order, where the reference can compute it
    fn honest_hint(self, ops: &[u64]) -> Option<Vec<u64>> {
        if !self.valid(ops) {
            return None;
        }
        Some(match self {
            HI::Clz => vec![ref_clz(ops[0] as u32)],
            HI::Ctz => vec![ref_ctz(ops[0] as u32)],
            HI::Clo => vec![ref_clo(ops[0] as u32)],
            HI::Cto => vec![ref_cto(ops[0] as u32)],
            HI::Ilog2 => vec![ref_ilog2(ops[0])],
            HI::Ext2Inv | HI::Ext2Div => {
                let r = ext2_inv((ops[1], ops[0]));
                vec![r.0, r.1]
            }
            _ => {
                let b = (ops[0] << 32) + ops[1];
                let a = (ops[2] << 32) + ops[3];
                let (q, r) = (a / b, a % b);
                vec![q & 0xffff_ffff, q >> 32, r & 0xffff_ffff, r >> 32]
            }
        })
    }
}

/// distinct values placed below the operands; none of them is a possible count / limb
fn sentinels(n: usize) -> Vec<u64> {
    (0..n as u64).map(|k| 0xC0FF_EE00_0000_0100 + 0x0101 * k).collect()
}

struct Progs {
    hint: BTreeMap<HI, Program>,
    mtree: BTreeMap<&'static str, Program>,
    advice: BTreeMap<String, Program>,
}

fn advice_srcs() -> Vec<(String, String)> {
    let mut v = vec![];
    for n in 1..=16 {
        v.push((format!("adv_push.{n}"), format!("begin adv_push.{n} end")));
        v.push((format!("adv_push.{n}+1"), format!("begin adv_push.{n} adv_push.1 end")));
    }
    v.push(("adv_loadw".into(), "begin adv_loadw end".into()));
    v.push(("adv_loadw+1".into(), "begin adv_loadw adv_push.1 end".into()));
    v.push(("adv_pipe".into(), "begin adv_pipe end".into()));
    v.push(("adv_pipe+1".into(), "begin adv_pipe adv_push.1 end".into()));
    v
}

const MTREE_SRCS: [(&str, &str); 4] = [
    ("mtree_get", "begin mtree_get end"),
    ("mtree_set", "begin mtree_set end"),
    ("mtree_verify", "begin mtree_verify end"),
    ("mtree_set;mtree_get", "begin mtree_set dropw movup.5 movup.5 mtree_get end"),
];

fn compile_all() -> Progs {
    let asm = assembler();
    let mut hint = BTreeMap::new();
    for hi in HINT_INSTRS {
        hint.insert(hi, asm.compile(hi.src()).expect("SUBJECT: family program must assemble"));
    }
    let mut mtree = BTreeMap::new();
    for (k, s) in MTREE_SRCS {
        mtree.insert(k, asm.compile(s).expect("SUBJECT: family program must assemble"));
    }
    let mut advice = BTreeMap::new();
    for (k, s) in advice_srcs() {
        advice.insert(k, asm.compile(&s).expect("SUBJECT: family program must assemble"));
    }
    Progs { hint, mtree, advice }
}

#[derive(Default, Clone, Debug)]
struct Stats {
    pairs: u64,
    honest_runs: u64,
    dishonest_runs: u64,
    nontrivial: u64,
    completions: u64,
    wrong: u64,
    refusals: u64,
    panics: u64,
    injector_not_called_once: u64,
    honest_hint_differs_from_reference: u64,
    kinds: BTreeMap<String, u64>,
    /// operand tuple -> scripted hints with which the run completed although the oracle rejects it
    accepted_wrong: BTreeMap<Vec<u64>, Vec<Vec<u64>>>,
}

/// operands whose accepted wrong hints are always written out (besides the smallest few)
const HIGHLIGHT: [u64; 4] = [0, 1, (1 << 40) + 5, P - 1];

fn ranges(v: &[u64]) -> String {
    let mut out: Vec<String> = vec![];
    let mut i = 0;
    while i < v.len() {
        let mut j = i;
        while j + 1 < v.len() && v[j + 1] == v[j] + 1 {
            j += 1;
        }
        out.push(if j == i { format!("{}", v[i]) } else { format!("{}..={}", v[i], v[j]) });
        i = j + 1;
    }
    out.join(",")
}

impl Stats {
    fn merge(mut self, o: Stats) -> Stats {
        self.pairs += o.pairs;
        self.honest_runs += o.honest_runs;
        self.dishonest_runs += o.dishonest_runs;
        self.nontrivial += o.nontrivial;
        self.completions += o.completions;
        self.wrong += o.wrong;
        self.refusals += o.refusals;
        self.panics += o.panics;
        self.injector_not_called_once += o.injector_not_called_once;
        self.honest_hint_differs_from_reference += o.honest_hint_differs_from_reference;
        for (k, v) in o.kinds {
            *self.kinds.entry(k).or_insert(0) += v;
        }
        self.accepted_wrong.extend(o.accepted_wrong);
        // keep the evidence small: the smallest operand tuples and the highlighted ones
        let keep: BTreeSet<Vec<u64>> = self
            .accepted_wrong
            .keys()
            .filter(|k| !(k.len() == 1 && HIGHLIGHT.contains(&k[0])))
            .take(4)
            .cloned()
            .collect();
        self.accepted_wrong.retain(|k, _| keep.contains(k) || (k.len() == 1 && HIGHLIGHT.contains(&k[0])));
        self
    }
    fn observe(&mut self, o: &Outcome) {
        self.pairs += 1;
        match o {
            Outcome::Ok(_) => self.completions += 1,
            Outcome::Panic(_) => self.panics += 1,
            _ => self.refusals += 1,
        }
        *self.kinds.entry(outcome_class(o)).or_insert(0) += 1;
    }
    fn to_json(&self) -> Value {
        json!({
            "operand_hint_pairs": self.pairs,
            "honest_host_runs": self.honest_runs,
            "dishonest_host_runs": self.dishonest_runs,
            "dishonest_and_different_from_honest": self.nontrivial,
            "completions": self.completions,
            "wrong_completions": self.wrong,
            "refusals": self.refusals,
            "panics": self.panics,
            "runs_in_which_the_hint_injector_was_not_called_exactly_once": self.injector_not_called_once,
            "honest_injector_hint_differs_from_reference": self.honest_hint_differs_from_reference,
            "outcome_classes": self.kinds,
            "accepted_wrong_hints_for_some_operands": self.accepted_wrong.iter().map(|(k, v)| {
                let single: Vec<u64> = v.iter().filter(|h| h.len() == 1).map(|h| h[0]).collect();
                let text = if single.len() == v.len() { ranges(&single) } else { format!("{v:?}") };
                json!({"operands_top_first": k, "accepted": text})
            }).collect::<Vec<_>>(),
        })
    }
}

fn hint_case_json(hi: HI, ops: &[u64], hint: &Option<Vec<u64>>) -> Value {
    json!({"family": "hint", "instr": hi.name(), "operands_top_first": ops, "hint_pop_order": hint})
}

/// runs one (instruction, operands, hint) case on the real VM and applies the oracle
fn check_hint_case(ctx: &Ctx, progs: &Progs, hi: HI, ops: &[u64], hint: &Option<Vec<u64>>, st: &mut Stats, verbose: bool) {
    let sent = sentinels(16 - hi.arity());
    let mut stack = ops.to_vec();
    stack.extend(&sent);
    let program = &progs.hint[&hi];
    let (out, log) = match hint {
        None => (exec(program, &stack, host(&[])), None),
        Some(h) => {
            let mut dh = DishonestHost::new(AdviceInputs::default(), Script { hint: Some(h.clone()), ..Default::default() });
            let o = exec(program, &stack, &mut dh);
            (o, Some(dh.log))
        }
    };
    st.observe(&out);
    let valid = hi.valid(ops);
    let honest_hint = hi.honest_hint(ops);
    let dishonest = hint.is_some();
    if dishonest {
        st.dishonest_runs += 1;
        let log = log.as_ref().unwrap();
        if log.hint_injections != 1 {
            st.injector_not_called_once += 1;
        }
        if valid && log.honest_hint != honest_hint {
            // informational: the honest run of the same operand decides whether this matters
            st.honest_hint_differs_from_reference += 1;
        }
        if hint != &honest_hint {
            st.nontrivial += 1;
        }
    } else {
        st.honest_runs += 1;
    }
    if verbose {
        println!("instruction {} operands(top first)={ops:?} host={}", hi.name(), if dishonest { "dishonest" } else { "honest DefaultHost" });
        if let Some(l) = &log {
            println!("  honest injector answered {:?} (error: {:?}); scripted hint (pop order) {:?}", l.honest_hint, l.honest_hint_err, hint);
        }
        println!("  observed: {}", out.brief());
        println!("  expected: {} then sentinels {:?} untouched; with a wrong hint the run may also fail", hi.expected_text(ops), sent);
    }
    let case = hint_case_json(hi, ops, hint);
    let host_name = if dishonest { "dishonest" } else { "honest" };
    let descr = match &out {
        Outcome::Ok(s) => {
            let rl = hi.result_len().min(s.len());
            let rest = if norm(&s[rl..]) == sent { "sentinels untouched" } else { "REST OF STACK DISTURBED" };
            format!("{} ops={ops:?} hint(pop order)={hint:?} -> completes with {:?} ({rest})", hi.name(), &s[..rl])
        }
        o => format!("{} ops={ops:?} hint(pop order)={hint:?} -> {}", hi.name(), o.brief()),
    };
    match &out {
        Outcome::Ok(s) => {
            let rl = hi.result_len();
            // expected: result, then the sentinels, then nothing but zeros
            let mut sn = norm(s);
            if sn.len() < rl {
                sn.resize(rl, 0);
            }
            let wrong = !valid || !hi.result_ok(ops, &sn[..rl]) || sn[rl..] != sent[..];
            if let (true, Some(h)) = (wrong, hint) {
                st.accepted_wrong.entry(ops.to_vec()).or_default().push(h.clone());
            }
            if !valid {
                st.wrong += 1;
                ctx.fail(json!({"kind": "completed_on_invalid_operand", "instr": hi.name(), "host": host_name}), descr, case);
            } else if !hi.result_ok(ops, &sn[..rl]) {
                st.wrong += 1;
                let kind = if dishonest { "wrong_result_accepted" } else { "honest_wrong_result" };
                ctx.fail(
                    json!({"kind": kind, "instr": hi.name(), "part": "result"}),
                    format!("{descr}; expected {}", hi.expected_text(ops)),
                    case,
                );
            } else if sn[rl..] != sent[..] {
                st.wrong += 1;
                let kind = if dishonest { "wrong_result_accepted" } else { "honest_wrong_result" };
                ctx.fail(json!({"kind": kind, "instr": hi.name(), "part": "rest_of_stack"}), descr, case);
            }
        }
        _ => {
            if valid && (!dishonest || hint == &honest_hint) {
                ctx.fail(
                    json!({"kind": "honest_refused", "instr": hi.name(), "host": host_name, "outcome": outcome_class(&out)}),
                    descr,
                    case,
                );
            }
        }
    }
}

fn u32_operands(tier: Tier) -> Vec<u64> {
    let mut s: BTreeSet<u64> = BTreeSet::new();
    let m = 0xffff_ffffu64;
    s.extend([0, 1, m]);
    for k in 0..32u32 {
        let p = 1u64 << k;
        s.insert(p);
        s.insert((p + 1) & m);
        s.insert(p - 1); // k trailing ones
        s.insert((m + 1 - p) & m); // 32-k leading ones
        s.insert(((m + 1 - p) | 1) & m); // leading run and a trailing one
        s.insert((p - 1) | 0x8000_0000); // trailing run and a leading one
        s.insert(m ^ p); // a single zero
        s.insert((m + 1 - p).wrapping_sub(1) & m); // leading run, one zero, then ones
    }
    if tier == Tier::Thorough {
        for j in 0..32u32 {
            for k in 0..j {
                let v = (1u64 << j) | (1u64 << k);
                s.insert(v);
                s.insert(m ^ v);
            }
        }
    }
    s.into_iter().collect()
}

fn ilog2_operands(tier: Tier) -> Vec<u64> {
    let mut s: BTreeSet<u64> = BTreeSet::new();
    s.extend([0, 1, 2, 3, P - 1, P - 2, P - 3, P >> 1, (P >> 1) + 1]);
    for k in 0..64u32 {
        let p = 1u64 << k;
        s.insert(p);
        s.insert(p.wrapping_add(1));
        s.insert(p - 1);
        s.insert(p | 5);
        s.insert(p | (1 << 31));
        s.insert(p | (1u64 << 32));
        s.insert(p | 0xffff_ffff);
        if k >= 32 {
            s.insert(p | (p - 1) & 0xffff_ffff_0000_0000); // only high-half bits below the top bit
        }
    }
    // bits in both halves / values near p
    s.extend([(1u64 << 40) + 5, (1u64 << 63) + (1 << 31), 0xffff_fffe_ffff_ffff, 0xffff_ffff_0000_0000, 0x8000_0000_8000_0000, 0x0000_0001_0000_0001]);
    if tier == Tier::Thorough {
        for j in 0..64u32 {
            for k in 0..j {
                s.insert((1u64 << j) | (1u64 << k));
            }
        }
    }
    s.into_iter().filter(|&v| v < P).collect()
}

fn counting_hints(tier: Tier) -> Vec<u64> {
    let hi = tier.pick(70u64, 130u64);
    let mut v: Vec<u64> = (0..=hi).collect();
    v.extend([(1 << 32) - 1, 1 << 32, 1 << 63, P - 1]);
    v
}

fn ext2_alphabet(tier: Tier) -> Vec<u64> {
    let mut v = vec![0, 1, 2, P - 1, 1 << 32, 1 << 63, 0x1234_5678_9abc_def0];
    if tier == Tier::Thorough {
        v.extend([3, (1 << 32) - 1, P - 2]);
    }
    v
}

/// all scripted hint tuples (pop order) explored for one operand tuple
fn hints_for(tier: Tier, hi: HI, ops: &[u64]) -> Vec<Vec<u64>> {
    let mut set: BTreeSet<Vec<u64>> = BTreeSet::new();
    let mut out = vec![];
    let mut add = |h: Vec<u64>, out: &mut Vec<Vec<u64>>| {
        if set.insert(h.clone()) {
            out.push(h);
        }
    };
    match hi {
        HI::Clz | HI::Ctz | HI::Clo | HI::Cto | HI::Ilog2 => {
            for h in counting_hints(tier) {
                add(vec![h], &mut out);
            }
        }
        HI::Ext2Inv | HI::Ext2Div => {
            let mut alpha: Vec<u64> = vec![0, 1, P - 1];
            match hi.honest_hint(ops) {
                Some(h) => {
                    for x in h {
                        alpha.extend([x, fadd(x, 1), fsub(x, 1)]);
                    }
                }
                None => alpha.extend([2, 1 << 32]),
            }
            if tier == Tier::Thorough {
                alpha.extend([2, 1 << 32]);
            }
            let alpha: Vec<u64> = alpha.into_iter().collect::<BTreeSet<_>>().into_iter().collect();
            for t in tuples(&alpha, 2) {
                add(t, &mut out);
            }
        }
        HI::U64Div | HI::U64Mod | HI::U64DivMod => {
            let m = 0xffff_ffffu64;
            match hi.honest_hint(ops) {
                Some(h) => {
                    // one (thorough: up to two) dishonest limb(s), the others honest
                    let alts = |x: u64| [fadd(x, 1), fsub(x, 1), 0, 1, m, m + 1];
                    for dev in deviations(4, 6, tier.pick(1, 2)) {
                        let mut t = h.clone();
                        for (pos, alt) in dev {
                            t[pos] = alts(h[pos])[alt];
                        }
                        add(t, &mut out);
                    }
                    // algebraically consistent lies: a wrong quotient q' together with the "remainder" that
                    // makes q' * b + r' = a hold in the FIELD (r' = a - q' * b mod p), given as one oversized
                    // low limb or split at 2^32 - accepted unless every limb of the hint is range-checked
                    {
                        let b = ((ops[0] as i128) << 32) + ops[1] as i128;
                        let a = ((ops[2] as i128) << 32) + ops[3] as i128;
                        let q = a / b;
                        for dq in [1i128, -1, 2] {
                            let q2 = q + dq;
                            if q2 < 0 || q2 >= 1 << 64 {
                                continue;
                            }
                            let r2 = (((a - q2 * b) % P as i128) + P as i128) % P as i128;
                            let (q_lo, q_hi) = ((q2 as u64) & m, (q2 as u64) >> 32);
                            let r2 = r2 as u64;
                            add(vec![q_lo, q_hi, r2, 0], &mut out);
                            add(vec![q_lo, q_hi, r2 & m, r2 >> 32], &mut out);
                        }
                    }
                    // all four limbs dishonest over a reduced alphabet
                    let per_limb: Vec<Vec<u64>> = h
                        .iter()
                        .map(|&x| match tier {
                            Tier::Quick => vec![0, 1, fadd(x, 1)],
                            Tier::Thorough => vec![0, 1, m, m + 1, fadd(x, 1), fsub(x, 1)],
                        })
                        .collect();
                    let k = per_limb[0].len();
                    for idx in tuples(&(0..k).collect::<Vec<_>>(), 4) {
                        add((0..4).map(|p| per_limb[p][idx[p]]).collect(), &mut out);
                    }
                }
                None => {
                    // divisor 0: there is no honest answer; the host answers anyway
                    for t in tuples(&[0, 1, m], 4) {
                        add(t, &mut out);
                    }
                    add(vec![0, 0, ops[3], ops[2]], &mut out); // q = 0, r = a
                    add(vec![ops[3], ops[2], 0, 0], &mut out); // q = a, r = 0
                }
            }
        }
    }
    out
}

/// (instruction, operand tuple) groups; each group is then crossed with `hints_for`
fn hint_groups(tier: Tier) -> Vec<(HI, Vec<u64>)> {
    let mut g = vec![];
    for hi in [HI::Clz, HI::Ctz, HI::Clo, HI::Cto] {
        for n in u32_operands(tier) {
            g.push((hi, vec![n]));
        }
    }
    for n in ilog2_operands(tier) {
        g.push((HI::Ilog2, vec![n]));
    }
    let e = ext2_alphabet(tier);
    for a in tuples(&e, 2) {
        g.push((HI::Ext2Inv, a)); // [a1, a0]
    }
    let numerators: Vec<(u64, u64)> = tier.pick(
        vec![(1, 0), (2, P - 1), (1 << 32, 7)],
        vec![(1, 0), (2, P - 1), (1 << 32, 7), (0, 0), (P - 1, P - 1)],
    );
    for b in tuples(&e, 2) {
        for &(a1, a0) in &numerators {
            g.push((HI::Ext2Div, vec![b[0], b[1], a1, a0])); // [b1, b0, a1, a0]
        }
    }
    let limbs = [0u64, 1, 2, 1 << 31, 0xffff_ffff];
    for hi in [HI::U64Div, HI::U64Mod, HI::U64DivMod] {
        for t in tuples(&limbs, 4) {
            g.push((hi, t)); // [b_hi, b_lo, a_hi, a_lo]
        }
    }
    g
}

// ================================================================================================
// family "mtree"
// ================================================================================================

fn merge(l: &W, r: &W) -> W {
    wd(&Rpo256::merge(&[dg(l), dg(r)]))
}

/// reference Merkle tree: levels[0] = [root], levels[depth] = leaves
#[derive(Clone, Debug)]
struct Tree {
    depth: usize,
    levels: Vec<Vec<W>>,
}

impl Tree {
    fn new(leaves: &[W]) -> Tree {
        assert!(leaves.len().is_power_of_two() && leaves.len() >= 2);
        let depth = leaves.len().trailing_zeros() as usize;
        let mut levels = vec![leaves.to_vec()];
        while levels.last().unwrap().len() > 1 {
            let cur = levels.last().unwrap();
            let next: Vec<W> = cur.chunks(2).map(|c| merge(&c[0], &c[1])).collect();
            levels.push(next);
        }
        levels.reverse();
        Tree { depth, levels }
    }
    fn root(&self) -> W {
        self.levels[0][0]
    }
    fn node(&self, d: usize, i: u64) -> W {
        self.levels[d][i as usize]
    }
    /// siblings from depth d up to depth 1
    fn path(&self, d: usize, i: u64) -> Vec<W> {
        let mut idx = i as usize;
        let mut p = vec![];
        for l in (1..=d).rev() {
            p.push(self.levels[l][idx ^ 1]);
            idx >>= 1;
        }
        p
    }
    /// root of the tree in which node (d,i) was replaced by `v`
    fn root_after_set(&self, d: usize, i: u64, v: &W) -> W {
        let mut idx = i as usize;
        let mut cur = *v;
        for l in (1..=d).rev() {
            let sib = self.levels[l][idx ^ 1];
            cur = if idx & 1 == 0 { merge(&cur, &sib) } else { merge(&sib, &cur) };
            idx >>= 1;
        }
        cur
    }
    /// value -> (left, right) for every inner node
    fn inner(&self) -> BTreeMap<W, (W, W)> {
        let mut m = BTreeMap::new();
        for l in 0..self.depth {
            for (i, v) in self.levels[l].iter().enumerate() {
                m.insert(*v, (self.levels[l + 1][2 * i], self.levels[l + 1][2 * i + 1]));
            }
        }
        m
    }
}

fn store_of(entries: &BTreeMap<W, (W, W)>) -> MerkleStore {
    entries.iter().map(|(v, (l, r))| InnerNodeInfo { value: dg(v), left: dg(l), right: dg(r) }).collect()
}

#[derive(Clone, Copy, Debug, PartialEq, Eq, PartialOrd, Ord)]
enum MI {
    Get,
    Set,
    Verify,
    SetThenGet,
}

impl MI {
    fn name(self) -> &'static str {
        match self {
            MI::Get => "mtree_get",
            MI::Set => "mtree_set",
            MI::Verify => "mtree_verify",
            MI::SetThenGet => "mtree_set;mtree_get",
        }
    }
    fn from_name(s: &str) -> MI {
        *[MI::Get, MI::Set, MI::Verify, MI::SetThenGet].iter().find(|m| m.name() == s).expect("unknown mtree instruction")
    }
}

#[derive(Clone, Debug, PartialEq)]
enum StoreEdit {
    Left(W),
    Right(W),
    Swap,
    Remove,
}

#[derive(Clone, Debug, PartialEq)]
enum MDev {
    Honest,
    /// the honest advice provider on a store whose entry for the on-path node at `level` was edited
    Store { level: usize, edit: StoreEdit },
    /// honest store, answers replaced by the dishonest host; `shape` = the path length differs from d
    Answer { node: Option<W>, path_edits: Vec<(usize, W)>, path_whole: Option<Vec<W>>, shape: bool },
}

#[derive(Clone, Debug)]
struct MCase {
    instr: MI,
    leaves: Vec<W>,
    /// a second tree kept in the same store (mtree_verify with the other root)
    leaves2: Option<Vec<W>>,
    use_root2: bool,
    d: usize,
    i: u64,
    new_value: Option<W>,
    claimed: Option<W>,
    dev: MDev,
}

fn w_json(w: &W) -> Value {
    json!(w)
}
fn w_from(v: &Value) -> W {
    let a = v.as_array().expect("word");
    [a[0].as_u64().unwrap(), a[1].as_u64().unwrap(), a[2].as_u64().unwrap(), a[3].as_u64().unwrap()]
}
fn ws_json(ws: &[W]) -> Value {
    Value::Array(ws.iter().map(w_json).collect())
}
fn ws_from(v: &Value) -> Vec<W> {
    v.as_array().expect("words").iter().map(w_from).collect()
}

impl MCase {
    fn to_json(&self) -> Value {
        let dev = match &self.dev {
            MDev::Honest => json!({"kind": "honest"}),
            MDev::Store { level, edit } => {
                let (e, w) = match edit {
                    StoreEdit::Left(w) => ("left", Some(*w)),
                    StoreEdit::Right(w) => ("right", Some(*w)),
                    StoreEdit::Swap => ("swap", None),
                    StoreEdit::Remove => ("remove", None),
                };
                json!({"kind": "store", "level": level, "edit": e, "word": w})
            }
            MDev::Answer { node, path_edits, path_whole, shape } => json!({
                "kind": "answer",
                "node": node,
                "path_edits": path_edits.iter().map(|(j, w)| json!([j, w])).collect::<Vec<_>>(),
                "path_whole": path_whole.as_ref().map(|p| ws_json(p)),
                "shape": shape,
            }),
        };
        json!({
            "family": "mtree",
            "instr": self.instr.name(),
            "leaves": ws_json(&self.leaves),
            "leaves2": self.leaves2.as_ref().map(|l| ws_json(l)),
            "use_root2": self.use_root2,
            "d": self.d,
            "i": self.i,
            "new_value": self.new_value,
            "claimed": self.claimed,
            "deviation": dev,
        })
    }
    fn from_json(v: &Value) -> MCase {
        let dv = &v["deviation"];
        let dev = match dv["kind"].as_str().unwrap() {
            "honest" => MDev::Honest,
            "store" => {
                let edit = match dv["edit"].as_str().unwrap() {
                    "left" => StoreEdit::Left(w_from(&dv["word"])),
                    "right" => StoreEdit::Right(w_from(&dv["word"])),
                    "swap" => StoreEdit::Swap,
                    _ => StoreEdit::Remove,
                };
                MDev::Store { level: dv["level"].as_u64().unwrap() as usize, edit }
            }
            _ => MDev::Answer {
                node: if dv["node"].is_null() { None } else { Some(w_from(&dv["node"])) },
                path_edits: dv["path_edits"]
                    .as_array()
                    .unwrap()
                    .iter()
                    .map(|e| (e[0].as_u64().unwrap() as usize, w_from(&e[1])))
                    .collect(),
                path_whole: if dv["path_whole"].is_null() { None } else { Some(ws_from(&dv["path_whole"])) },
                shape: dv["shape"].as_bool().unwrap_or(false),
            },
        };
        let opt = |x: &Value| if x.is_null() { None } else { Some(w_from(x)) };
        MCase {
            instr: MI::from_name(v["instr"].as_str().unwrap()),
            leaves: ws_from(&v["leaves"]),
            leaves2: if v["leaves2"].is_null() { None } else { Some(ws_from(&v["leaves2"])) },
            use_root2: v["use_root2"].as_bool().unwrap_or(false),
            d: v["d"].as_u64().unwrap() as usize,
            i: v["i"].as_u64().unwrap(),
            new_value: opt(&v["new_value"]),
            claimed: opt(&v["claimed"]),
            dev,
        }
    }
}

fn tf(w: &W) -> [u64; 4] {
    [w[3], w[2], w[1], w[0]]
}

#[derive(Debug)]
struct MObs {
    out: Outcome,
    /// "correct" | "wrong" | "refused"
    verdict: &'static str,
}

/// runs one Merkle case on the real VM and applies the oracle (shape cases are only classified)
fn check_mtree_case(ctx: &Ctx, progs: &Progs, c: &MCase, st: &mut Stats, verbose: bool) -> MObs {
    let t1 = Tree::new(&c.leaves);
    let t2 = c.leaves2.as_ref().map(|l| Tree::new(l));
    let t = if c.use_root2 { t2.as_ref().expect("use_root2 needs leaves2") } else { &t1 };
    let root = t.root();
    let truth = t.node(c.d, c.i);

    // the host's store
    let mut entries = t1.inner();
    if let Some(t2) = &t2 {
        entries.extend(t2.inner());
    }
    if let MDev::Store { level, edit } = &c.dev {
        let key = t.node(*level, c.i >> (c.d - *level));
        let (l, r) = entries[&key];
        match edit {
            StoreEdit::Left(w) => {
                entries.insert(key, (*w, r));
            }
            StoreEdit::Right(w) => {
                entries.insert(key, (l, *w));
            }
            StoreEdit::Swap => {
                entries.insert(key, (r, l));
            }
            StoreEdit::Remove => {
                entries.remove(&key);
            }
        }
    }
    let advice = AdviceInputs::default().with_merkle_store(store_of(&entries));

    // operand stack and expectation
    let (mut stack, expected, valid): (Vec<u64>, Vec<u64>, bool) = match c.instr {
        MI::Get => {
            let mut s = vec![c.d as u64, c.i];
            s.extend(tf(&root));
            let sent = sentinels(8);
            let mut e = tf(&truth).to_vec();
            e.extend(tf(&root));
            e.extend(&sent);
            s.extend(&sent);
            (s, e, true)
        }
        MI::Set => {
            let nv = c.new_value.expect("mtree_set needs new_value");
            let mut s = vec![c.d as u64, c.i];
            s.extend(tf(&root));
            s.extend(tf(&nv));
            let sent = sentinels(6);
            let mut e = tf(&truth).to_vec();
            e.extend(tf(&t.root_after_set(c.d, c.i, &nv)));
            e.extend(&sent);
            e.extend([0, 0]);
            s.extend(&sent);
            (s, e, true)
        }
        MI::Verify => {
            let cl = c.claimed.expect("mtree_verify needs claimed");
            let mut s = tf(&cl).to_vec();
            s.extend([c.d as u64, c.i]);
            s.extend(tf(&root));
            s.extend(sentinels(6));
            (s.clone(), s, cl == truth)
        }
        MI::SetThenGet => {
            let nv = c.new_value.expect("mtree_set needs new_value");
            let mut s = vec![c.d as u64, c.i];
            s.extend(tf(&root));
            s.extend(tf(&nv));
            s.extend([c.d as u64, c.i]);
            let sent = sentinels(4);
            s.extend(&sent);
            let mut e = tf(&nv).to_vec();
            e.extend(tf(&t.root_after_set(c.d, c.i, &nv)));
            e.extend(&sent);
            e.extend([0, 0, 0, 0]);
            (s, e, true)
        }
    };
    stack.truncate(16);
    let program = &progs.mtree[c.instr.name()];
    let (out, log) = match &c.dev {
        MDev::Answer { node, path_edits, path_whole, .. } => {
            let script = Script { hint: None, node: *node, path_edits: path_edits.clone(), path_whole: path_whole.clone() };
            let mut dh = DishonestHost::new(advice, script);
            let o = exec(program, &stack, &mut dh);
            (o, Some(dh.log))
        }
        _ => (exec(program, &stack, host_from(advice)), None),
    };
    st.observe(&out);
    let shape = matches!(&c.dev, MDev::Answer { shape: true, .. });
    let dishonest = c.dev != MDev::Honest;
    if dishonest {
        st.dishonest_runs += 1;
        st.nontrivial += 1; // generators only emit deviations that differ from the honest content
    } else {
        st.honest_runs += 1;
    }
    if verbose {
        println!("instruction {} depth-{} tree, node (d={}, i={}), root operand = tree {}", c.instr.name(), t1.depth, c.d, c.i, if c.use_root2 { 2 } else { 1 });
        println!("  deviation: {}", c.to_json()["deviation"]);
        if let Some(l) = &log {
            println!("  honest node {:?}; honest path {:?}; answered path {:?}", l.honest_node, l.honest_path, l.answered_path);
        }
        println!("  operand stack (top first): {stack:?}");
        println!("  observed: {}", out.brief());
        if valid {
            println!("  expected: {expected:?} (true node {truth:?}); with dishonest content the run may also fail");
        } else {
            println!("  expected: must not complete (claimed node is not the node of that root at (d,i); true node {truth:?})");
        }
    }
    let descr = format!(
        "{} D={} d={} i={} dev={} -> {}",
        c.instr.name(),
        t1.depth,
        c.d,
        c.i,
        c.to_json()["deviation"],
        out.brief()
    );
    let verdict = match &out {
        Outcome::Ok(s) => {
            if valid && norm(s) == norm(&expected) {
                "correct"
            } else {
                "wrong"
            }
        }
        _ => "refused",
    };
    if shape {
        // an answer of the wrong shape (a path that is shorter or longer than the depth operand) breaks the
        // host contract, and the VM may refuse it in any way it likes - but a dishonest host is free to
        // send it, so completing with an untrue result is a violation like any other
        if verdict == "wrong" {
            st.wrong += 1;
            let kind = if valid { "wrong_result_accepted" } else { "false_claim_accepted" };
            ctx.fail(json!({"kind": kind, "instr": c.instr.name(), "deviation": "answer_of_wrong_shape"}), descr, c.to_json());
        }
        return MObs { out, verdict };
    }
    match verdict {
        "wrong" => {
            st.wrong += 1;
            let kind = match (dishonest, valid) {
                (true, true) => "wrong_result_accepted",
                (true, false) => "false_claim_accepted",
                (false, true) => "honest_wrong_result",
                (false, false) => "completed_on_invalid_operand",
            };
            let devkind = match &c.dev {
                MDev::Honest => "honest",
                MDev::Store { .. } => "lying_store",
                MDev::Answer { .. } => "answer",
            };
            ctx.fail(json!({"kind": kind, "instr": c.instr.name(), "deviation": devkind}), descr, c.to_json());
        }
        "refused" if valid && !dishonest => {
            ctx.fail(json!({"kind": "honest_refused", "instr": c.instr.name(), "outcome": outcome_class(&out)}), descr, c.to_json());
        }
        _ => {}
    }
    MObs { out, verdict }
}

/// the opaque payload words (derived from VERIF_SEED): two leaf words and one foreign word
fn payload_words(seed: u64) -> (W, W, W) {
    let mut g = SplitMix(seed ^ 0xC09);
    let mut w = || [g.next() % P, g.next() % P, g.next() % P, g.next() % P];
    let (a, b, x) = (w(), w(), w());
    assert!(a != b && a != x && b != x);
    (a, b, x)
}

/// leaf patterns (bit k set = leaf k is B) explored per depth
fn leaf_patterns(tier: Tier, depth: usize) -> Vec<u32> {
    let n = 1usize << depth;
    let all: Vec<u32> = (0..(1u32 << n)).collect();
    if depth < 3 || tier == Tier::Thorough {
        return all;
    }
    // depth 3, quick: all-equal, alternating, half/half, pairs, every one-hot pattern, two one-cold patterns
    let mut s: BTreeSet<u32> = BTreeSet::new();
    s.extend([0x00, 0x55, 0x0f, 0x33, 0xfe, 0x7f]);
    for k in 0..8 {
        s.insert(1 << k);
    }
    s.into_iter().collect()
}

fn leaves_of(pattern: u32, depth: usize, a: &W, b: &W) -> Vec<W> {
    (0..(1usize << depth)).map(|k| if (pattern >> k) & 1 == 1 { *b } else { *a }).collect()
}

fn dedup_words(v: Vec<W>, not: &W) -> Vec<W> {
    let mut seen: BTreeSet<W> = BTreeSet::new();
    v.into_iter().filter(|w| w != not && seen.insert(*w)).collect()
}

/// every case of the Merkle family for one tree
fn mtree_cases_for_tree(tier: Tier, leaves: &[W], a: &W, b: &W, x: &W) -> Vec<MCase> {
    let t = Tree::new(leaves);
    let z: W = [0; 4];
    let mut leaves2 = leaves.to_vec();
    leaves2[0] = if leaves[0] == *a { *b } else { *a };
    let t2 = Tree::new(&leaves2);
    let mut out = vec![];
    for d in 1..=t.depth {
        for i in 0..(1u64 << d) {
            let truth = t.node(d, i);
            let sibling = t.node(d, i ^ 1);
            let parent = t.node(d - 1, i >> 1);
            let hpath = t.path(d, i);
            let base = |instr: MI, new_value: Option<W>, claimed: Option<W>, dev: MDev| MCase {
                instr,
                leaves: leaves.to_vec(),
                leaves2: None,
                use_root2: false,
                d,
                i,
                new_value,
                claimed,
                dev,
            };
            // operand variants
            let other = if truth == *a { *b } else { *a };
            let new_values = [other, *x];
            let claims = {
                let mut v = vec![truth];
                v.extend(dedup_words(vec![*a, *b, *x, sibling, parent], &truth));
                v
            };
            let mut variants: Vec<(MI, Option<W>, Option<W>)> = vec![(MI::Get, None, None)];
            for nv in new_values {
                variants.push((MI::Set, Some(nv), None));
            }
            for cl in &claims {
                variants.push((MI::Verify, None, Some(*cl)));
            }

            // deviations of the host's content
            let mut devs: Vec<MDev> = vec![MDev::Honest];
            for level in 0..d {
                let key_idx = i >> (d - level);
                let (l, r) = (t.node(level + 1, 2 * key_idx), t.node(level + 1, 2 * key_idx + 1));
                for w in dedup_words(vec![*a, *b, *x, z, r, t.root()], &l) {
                    devs.push(MDev::Store { level, edit: StoreEdit::Left(w) });
                }
                for w in dedup_words(vec![*a, *b, *x, z, l, t.root()], &r) {
                    devs.push(MDev::Store { level, edit: StoreEdit::Right(w) });
                }
                if l != r {
                    devs.push(MDev::Store { level, edit: StoreEdit::Swap });
                }
                devs.push(MDev::Store { level, edit: StoreEdit::Remove });
            }
            let node_alts = dedup_words(vec![*a, *b, *x, z, sibling, parent], &truth);
            for w in &node_alts {
                devs.push(MDev::Answer { node: Some(*w), path_edits: vec![], path_whole: None, shape: false });
            }
            for j in 0..d {
                for w in dedup_words(vec![*a, *b, *x, z, truth, t.root()], &hpath[j]) {
                    devs.push(MDev::Answer { node: None, path_edits: vec![(j, w)], path_whole: None, shape: false });
                }
            }
            // everything dishonest: node and one path element
            for w in dedup_words(vec![sibling, other, *x], &truth) {
                for j in 0..d {
                    for pw in dedup_words(vec![truth, *x], &hpath[j]) {
                        devs.push(MDev::Answer { node: Some(w), path_edits: vec![(j, pw)], path_whole: None, shape: false });
                    }
                }
            }
            // the (equally long) path of the other tree in the store
            let p2 = t2.path(d, i);
            if p2 != hpath {
                devs.push(MDev::Answer { node: None, path_edits: vec![], path_whole: Some(p2.clone()), shape: false });
            }

            for (instr, nv, cl) in &variants {
                for dev in &devs {
                    // mtree_verify gets no node from the host: node-only deviations are no deviation there
                    if *instr == MI::Verify {
                        if let MDev::Answer { node: Some(_), .. } = dev {
                            continue;
                        }
                    }
                    out.push(base(*instr, *nv, *cl, dev.clone()));
                }
            }
            // honest store update is usable afterwards
            for nv in new_values {
                out.push(base(MI::SetThenGet, Some(nv), None, MDev::Honest));
            }
            // the second tree's root as operand (both trees in the store): claims from either tree
            for cl in dedup_words(vec![truth, t2.node(d, i), *x], &z) {
                let mut c = base(MI::Verify, None, Some(cl), MDev::Honest);
                c.leaves2 = Some(leaves2.clone());
                c.use_root2 = true;
                out.push(c.clone());
                // ... also with the path of tree 1 handed out for the root of tree 2
                if p2 != hpath {
                    c.dev = MDev::Answer { node: None, path_edits: vec![], path_whole: Some(hpath.clone()), shape: false };
                    out.push(c);
                }
            }

            // host-contract *shape* violations (path of the wrong length): refusing them in any way is fine
            // (the outcome classes are recorded in the evidence), completing with an untrue result is not
            {
                let mut shapes: Vec<(Option<W>, Vec<W>)> = vec![];
                if d >= 2 {
                    shapes.push((None, hpath[1..].to_vec())); // first element dropped
                    shapes.push((None, hpath[..d - 1].to_vec())); // last element dropped
                    // a consistent answer for the parent: node and path of (d-1, i>>1) resp. (d-1, i)
                    shapes.push((Some(parent), t.path(d - 1, i >> 1)));
                    if i < (1 << (d - 1)) {
                        shapes.push((Some(t.node(d - 1, i)), t.path(d - 1, i)));
                    }
                }
                let mut longer = hpath.clone();
                longer.push(*x);
                shapes.push((None, longer));
                if d < t.depth {
                    // a consistent answer one level further down
                    let mut p = vec![t.node(d + 1, 2 * i + 1)];
                    p.extend(hpath.clone());
                    shapes.push((Some(t.node(d + 1, 2 * i)), p));
                }
                shapes.push((None, vec![]));
                for (node, p) in shapes {
                    for (instr, nv, cl) in [
                        (MI::Get, None, None),
                        (MI::Set, Some(other), None),
                        (MI::Verify, None, Some(truth)),
                        (MI::Verify, None, node),
                    ] {
                        if instr == MI::Verify && cl.is_none() {
                            continue;
                        }
                        let node = if instr == MI::Verify { None } else { node };
                        out.push(base(instr, nv, cl, MDev::Answer { node, path_edits: vec![], path_whole: Some(p.clone()), shape: true }));
                    }
                }
            }
        }
    }
    out
}

// ================================================================================================
// family "advice"
// ================================================================================================

#[derive(Clone, Debug)]
struct ACase {
    prog: String,
    /// number of elements on the advice stack (distinct values, element 0 on top)
    len: usize,
}

fn advice_values(len: usize) -> Vec<u64> {
    (0..len as u64).map(|k| 0xAD00_0000_0000 + 1 + k).collect()
}

/// what the documentation promises: (number of elements consumed, expected final stack (top first),
/// expected memory words) for the operand stack `sentinels(16)` (adv_pipe: address at position 12)
fn advice_expectation(prog: &str, adv: &[u64]) -> (usize, Option<(Vec<u64>, Vec<(u64, W)>)>) {
    const ADDR: u64 = 40;
    let (base, extra) = match prog.strip_suffix("+1") {
        Some(b) => (b, 1),
        None => (prog, 0),
    };
    let mut stack = advice_operand_stack(prog);
    let mut mem = vec![];
    let need;
    if let Some(n) = base.strip_prefix("adv_push.") {
        let n: usize = n.parse().unwrap();
        need = n + extra;
        if adv.len() < need {
            return (need, None);
        }
        // "pops n values and pushes them onto the operand stack": the first popped ends deepest
        for v in &adv[..n] {
            stack.insert(0, *v);
        }
    } else if base == "adv_loadw" {
        need = 4 + extra;
        if adv.len() < need {
            return (need, None);
        }
        // overwrites the top word; first element of the advice stack is placed deepest
        for k in 0..4 {
            stack[3 - k] = adv[k];
        }
    } else {
        need = 8 + extra;
        if adv.len() < need {
            return (need, None);
        }
        // [C, B, A, a, ...] -> [E, D, A, a+2, ...], D = first word popped, E = second; D -> mem[a], E -> mem[a+1]
        for k in 0..8 {
            stack[7 - k] = adv[k];
        }
        stack[12] = ADDR + 2;
        mem.push((ADDR, [adv[0], adv[1], adv[2], adv[3]]));
        mem.push((ADDR + 1, [adv[4], adv[5], adv[6], adv[7]]));
    }
    if extra == 1 {
        stack.insert(0, adv[need - 1]);
    }
    (need, Some((stack, mem)))
}

fn advice_operand_stack(prog: &str) -> Vec<u64> {
    let mut s = sentinels(16);
    if prog.starts_with("adv_pipe") {
        s[12] = 40;
    }
    s
}

fn check_advice_case(ctx: &Ctx, progs: &Progs, c: &ACase, st: &mut Stats, verbose: bool) {
    let adv = advice_values(c.len);
    let (need, exp) = advice_expectation(&c.prog, &adv);
    let stack = advice_operand_stack(&c.prog);
    let program = &progs.advice[&c.prog];
    // run on a Process so that memory can be inspected
    let r = guard::catch(|| {
        let mut p = Process::new(program.kernel().clone(), stack_inputs(&stack), host(&adv), ExecutionOptions::default());
        let r = p.execute(program);
        let mem: Vec<(u64, W)> = p
            .get_mem_state(ContextId::root())
            .into_iter()
            .map(|(a, w)| (a, [w[0].as_int(), w[1].as_int(), w[2].as_int(), w[3].as_int()]))
            .collect();
        (r.map(|o| o.stack().to_vec()).map_err(|e| format!("{e:?}")), mem)
    });
    let (out, mem) = match r {
        Err(p) => (Outcome::Panic(p), vec![]),
        Ok((Ok(s), m)) => (Outcome::Ok(s), m),
        Ok((Err(e), m)) => (Outcome::Err(e), m),
    };
    st.observe(&out);
    st.honest_runs += 1;
    if verbose {
        println!("program {} advice stack (top first) {adv:?} operand stack {stack:?}", c.prog);
        println!("  observed: {} memory {mem:?}", out.brief());
        match &exp {
            Some((s, m)) => println!("  expected: Ok{s:?} memory {m:?}"),
            None => println!("  expected: failure (needs {need} advice elements, has {})", c.len),
        }
    }
    let case = json!({"family": "advice", "prog": c.prog, "len": c.len});
    let descr = format!("{} with {} advice elements -> {} mem {mem:?}", c.prog, c.len, out.brief());
    let instr = c.prog.trim_end_matches("+1").split('.').next().unwrap().to_string();
    match (&out, &exp) {
        (Outcome::Ok(s), Some((es, em))) => {
            if norm(s) != norm(es) {
                st.wrong += 1;
                ctx.fail(json!({"kind": "advice_order", "instr": instr, "part": "stack"}), format!("{descr}; expected {es:?}"), case);
            } else if &mem != em {
                st.wrong += 1;
                ctx.fail(json!({"kind": "advice_order", "instr": instr, "part": "memory"}), format!("{descr}; expected {em:?}"), case);
            }
        }
        (Outcome::Ok(_), None) => {
            st.wrong += 1;
            ctx.fail(json!({"kind": "advice_underflow_completed", "instr": instr}), descr, case);
        }
        (_, Some(_)) => ctx.fail(json!({"kind": "honest_refused", "instr": instr, "outcome": outcome_class(&out)}), descr, case),
        (_, None) => {}
    }
}

fn advice_cases() -> Vec<ACase> {
    let mut v = vec![];
    for (prog, _) in advice_srcs() {
        let need = advice_expectation(&prog, &advice_values(64)).0;
        let mut lens: BTreeSet<usize> = BTreeSet::new();
        lens.extend([0, need.saturating_sub(1), need, need + 1, 24]);
        for len in lens {
            v.push(ACase { prog: prog.clone(), len });
        }
    }
    v
}

// ================================================================================================
// driver
// ================================================================================================

fn u64s(v: &Value) -> Vec<u64> {
    v.as_array().expect("array of integers").iter().map(|x| x.as_u64().expect("u64")).collect()
}

fn self_checks(a: &W, b: &W) {
    // the reference tree must agree with the library's MerkleTree on honest data
    for depth in 1..=3usize {
        let leaves = leaves_of(0b0110_1001, depth, a, b);
        let t = Tree::new(&leaves);
        let lib = MerkleTree::new(leaves.iter().map(|w| [Felt::new(w[0]), Felt::new(w[1]), Felt::new(w[2]), Felt::new(w[3])]).collect::<Vec<_>>())
            .expect("MerkleTree::new");
        assert_eq!(wd(&lib.root()), t.root(), "harness: reference Merkle tree disagrees with MerkleTree");
    }
    assert_eq!(ext2_mul((1, 0), (5, 7)), (5, 7));
    assert_eq!(ext2_mul((0, 1), (0, 1)), (P - 2, 1)); // x^2 = x - 2
    assert_eq!(ref_clz(1), 31);
    assert_eq!(ref_cto(0xffff_ffff), 32);
    assert_eq!(ref_ilog2(P - 1), 63);
}

pub fn run(ctx: &Ctx, replay: Option<&Value>) -> i32 {
    let progs = compile_all();
    let (a, b, x) = payload_words(ctx.seed);

    if let Some(case) = replay {
        let mut st = Stats::default();
        match case["family"].as_str().unwrap_or("") {
            "hint" => {
                let hi = HI::from_name(case["instr"].as_str().unwrap());
                let ops = u64s(&case["operands_top_first"]);
                let hint = if case["hint_pop_order"].is_null() { None } else { Some(u64s(&case["hint_pop_order"])) };
                check_hint_case(ctx, &progs, hi, &ops, &hint, &mut st, true);
            }
            "mtree" => {
                let c = MCase::from_json(case);
                let o = check_mtree_case(ctx, &progs, &c, &mut st, true);
                println!("  verdict: {}", o.verdict);
            }
            "advice" => {
                let c = ACase { prog: case["prog"].as_str().unwrap().to_string(), len: case["len"].as_u64().unwrap() as usize };
                check_advice_case(ctx, &progs, &c, &mut st, true);
            }
            f => panic!("unknown case family {f:?} in replay file"),
        }
        return ctx.finish("fault_enumeration", json!({}), &[]);
    }

    self_checks(&a, &b);
    let tier = ctx.tier;

    // ---------------------------------------------------------------------------------------- hint
    let groups = hint_groups(tier);
    // determinism of the machinery: the first 50 groups give identical observations twice
    for (hi, ops) in groups.iter().take(50) {
        for h in hints_for(tier, *hi, ops).into_iter().take(3) {
            let run = || {
                let mut dh = DishonestHost::new(AdviceInputs::default(), Script { hint: Some(h.clone()), ..Default::default() });
                let mut stack = ops.clone();
                stack.extend(sentinels(16 - hi.arity()));
                exec(&progs.hint[hi], &stack, &mut dh)
            };
            assert_eq!(run(), run(), "harness: non-deterministic observation");
        }
    }
    let hint_stats: BTreeMap<HI, Stats> = groups
        .par_iter()
        .map(|(hi, ops)| {
            let mut st = Stats::default();
            check_hint_case(ctx, &progs, *hi, ops, &None, &mut st, false);
            for h in hints_for(tier, *hi, ops) {
                check_hint_case(ctx, &progs, *hi, ops, &Some(h), &mut st, false);
            }
            (*hi, st)
        })
        .fold(BTreeMap::new, |mut m: BTreeMap<HI, Stats>, (hi, st)| {
            let e = m.remove(&hi).unwrap_or_default();
            m.insert(hi, e.merge(st));
            m
        })
        .reduce(BTreeMap::new, |mut x, y| {
            for (k, v) in y {
                let e = x.remove(&k).unwrap_or_default();
                x.insert(k, e.merge(v));
            }
            x
        });
    for (hi, ops) in groups.iter().step_by(groups.len() / 5 + 1) {
        let hs = hints_for(tier, *hi, ops);
        ctx.sample(hint_case_json(*hi, ops, &hs.get(hs.len() / 2).cloned()));
    }

    let t_hint = ctx.elapsed();
    // --------------------------------------------------------------------------------------- mtree
    let mut trees: Vec<Vec<W>> = vec![];
    for depth in 1..=3usize {
        for pat in leaf_patterns(tier, depth) {
            trees.push(leaves_of(pat, depth, &a, &b));
        }
    }
    // determinism of the machinery: the first 50 cases of the first tree of every depth, twice
    for leaves in [&trees[0], &trees[4], &trees[20]] { // first tree of depth 1, 2, 3
        for c in mtree_cases_for_tree(tier, leaves, &a, &b, &x).iter().take(50) {
            let scratch_ctx = Ctx::new(&ctx.prop, tier, ctx.seed);
            let (mut s1, mut s2) = (Stats::default(), Stats::default());
            let o1 = check_mtree_case(&scratch_ctx, &progs, c, &mut s1, false);
            let o2 = check_mtree_case(&scratch_ctx, &progs, c, &mut s2, false);
            assert_eq!(o1.out, o2.out, "harness: non-deterministic observation");
        }
    }
    let per_tree: Vec<(BTreeMap<MI, Stats>, BTreeMap<String, u64>, u64, Option<Value>)> = trees
        .par_iter()
        .map(|leaves| {
            let cases = mtree_cases_for_tree(tier, leaves, &a, &b, &x);
            let mut m: BTreeMap<MI, Stats> = BTreeMap::new();
            let mut shapes: BTreeMap<String, u64> = BTreeMap::new();
            let mut sample = None;
            for (k, c) in cases.iter().enumerate() {
                let shape = matches!(&c.dev, MDev::Answer { shape: true, .. });
                let mut scratch = Stats::default();
                let st = if shape { &mut scratch } else { m.entry(c.instr).or_default() };
                let o = check_mtree_case(ctx, &progs, c, st, false);
                if shape {
                    if let MDev::Answer { node, path_whole: Some(p), .. } = &c.dev {
                        let class = match &o.out {
                            Outcome::Ok(_) => format!("completes ({} result)", if o.verdict == "correct" { "true" } else { "untrue" }),
                            other => outcome_class(other),
                        };
                        let key = format!(
                            "{} d={} path_len={}{}: {}",
                            c.instr.name(),
                            c.d,
                            p.len(),
                            if node.is_some() { " node_replaced" } else { "" },
                            class
                        );
                        *shapes.entry(key).or_insert(0) += 1;
                    }
                }
                if k == cases.len() / 2 {
                    sample = Some(c.to_json());
                }
            }
            (m, shapes, cases.len() as u64, sample)
        })
        .collect();
    let mut mtree_stats: BTreeMap<MI, Stats> = BTreeMap::new();
    let mut shape_hist: BTreeMap<String, u64> = BTreeMap::new();
    let mut mtree_cases = 0u64;
    for (k, (m, sh, n, sample)) in per_tree.into_iter().enumerate() {
        for (mi, st) in m {
            let e = mtree_stats.remove(&mi).unwrap_or_default();
            mtree_stats.insert(mi, e.merge(st));
        }
        for (key, v) in sh {
            *shape_hist.entry(key).or_insert(0) += v;
        }
        mtree_cases += n;
        if k % (trees.len() / 3 + 1) == 0 {
            if let Some(s) = sample {
                ctx.sample(s);
            }
        }
    }
    let shape_cases: u64 = shape_hist.values().sum();
    if shape_cases > 0 {
        ctx.note(format!(
            "answers of the wrong SHAPE (Merkle path whose length differs from the depth operand): {} runs, judged like every other dishonest answer (refusing is fine, completing with an untrue result is a violation); observed classes: {}",
            shape_cases,
            shape_hist.iter().map(|(k, v)| format!("[{k}] x{v}")).collect::<Vec<_>>().join("; ")
        ));
        ctx.note("history: before fix 61b71ef MPVERIFY (mtree_get / mtree_verify) never compared the length of the path it receives with the depth operand, so a consistent (node, path) pair of ANOTHER depth made the run complete for a node that is not at that depth (F-C09-b); MRUPDATE asserted the length and panicked");
    }

    let t_mtree = ctx.elapsed();
    // -------------------------------------------------------------------------------------- advice
    let acases = advice_cases();
    let mut advice_stats = Stats::default();
    for c in &acases {
        check_advice_case(ctx, &progs, c, &mut advice_stats, false);
    }
    ctx.sample(json!({"family": "advice", "prog": acases[7].prog, "len": acases[7].len}));

    // ------------------------------------------------------------------------------------ evidence
    let mut per_instr = serde_json::Map::new();
    let mut evaluations = 0u64;
    let mut nontrivial = 0u64;
    let mut completions_dishonest_wrong = 0u64;
    for (hi, st) in &hint_stats {
        per_instr.insert(hi.name().into(), st.to_json());
        evaluations += st.pairs;
        nontrivial += st.nontrivial;
        completions_dishonest_wrong += st.wrong;
        ctx.count(&format!("{}:pairs", hi.name()), st.pairs);
        ctx.count(&format!("{}:completions", hi.name()), st.completions);
        ctx.count(&format!("{}:wrong_completions", hi.name()), st.wrong);
        ctx.count(&format!("{}:refusals", hi.name()), st.refusals + st.panics);
    }
    for (mi, st) in &mtree_stats {
        per_instr.insert(mi.name().into(), st.to_json());
        evaluations += st.pairs;
        nontrivial += st.nontrivial;
        completions_dishonest_wrong += st.wrong;
        ctx.count(&format!("{}:pairs", mi.name()), st.pairs);
        ctx.count(&format!("{}:completions", mi.name()), st.completions);
        ctx.count(&format!("{}:wrong_completions", mi.name()), st.wrong);
        ctx.count(&format!("{}:refusals", mi.name()), st.refusals + st.panics);
    }
    per_instr.insert("adv_push/adv_loadw/adv_pipe".into(), advice_stats.to_json());
    evaluations += advice_stats.pairs + shape_cases;
    assert!(mtree_cases >= shape_cases);

    let cov = json!({
        "evaluations": evaluations,
        "distinct_nontrivial": nontrivial,
        "rule": "case = (instruction, operand tuple, host content); enumerated as the full product of the stated operand sets with the stated hint sets / deviation lists (duplicates removed per operand). A case is non-trivial when the host content differs from what the honest host would have supplied for that operand (scripted hint tuple != honest hint tuple; Merkle store entry / node / path element != honest one); honest-host runs and dishonest runs whose script equals the honest answer are counted in evaluations only",
        "exhaustive": true,
        "per_instruction": per_instr,
        "wrong_completions_total": completions_dishonest_wrong,
        "hint_family": {
            "groups (instruction, operand tuple)": groups.len(),
            "u32_operands": u32_operands(tier).len(),
            "ilog2_operands": ilog2_operands(tier).len(),
            "counting_hints": format!("0..={} and 2^32-1, 2^32, 2^63, p-1", tier.pick(70, 130)),
            "ext2_alphabet": ext2_alphabet(tier),
            "ext2_hints": "all pairs over {0, 1, p-1, honest limbs, honest limbs +-1} (thorough: and 2, 2^32)",
            "u64_limb_alphabet": [0u64, 1, 2, 1u64 << 31, 0xffff_ffffu64],
            "u64_hints": format!(
                "limbs (q_lo, q_hi, r_lo, r_hi): at most {} limb(s) replaced by one of honest+1, honest-1, 0, 1, 2^32-1, 2^32; then all four limbs over {}; divisor 0: all tuples over {{0,1,2^32-1}} and (q,r) = (0,a), (a,0)",
                tier.pick(1, 2),
                tier.pick("{0, 1, honest+1}", "{0, 1, 2^32-1, 2^32, honest+1, honest-1}")
            ),
            "injector_refusal": "when the honest injector returns an error (ilog2 0, zero divisor, zero ext2 element) the dishonest host pushes the scripted hint instead",
        },
        "mtree_family": {
            "trees": trees.len(),
            "depths": [1, 2, 3],
            "leaf_words": "2 distinct words derived from VERIF_SEED, every assignment to the leaves (depth 3 in the quick tier: 14 patterns: all-equal, alternating, half/half, pairs, one-hot x8, one-cold x2)",
            "cases": mtree_cases,
            "nodes": "every (d, i) with 1 <= d <= depth",
            "deviations": "lying store: for every on-path inner node its left / right child replaced by each of {A, B, foreign word, zero word, the other child, the root}, children swapped, entry removed; answers: node replaced by {A, B, foreign, zero, sibling, parent}; each path element replaced by {A, B, foreign, zero, the node itself, the root}; node and one path element replaced together; path of a second tree of the same store",
            "shape_violation_runs_information_only": shape_cases,
        },
        "advice_family": {"cases": acases.len(), "programs": progs.advice.len(), "advice_stack_lengths": "0, need-1, need, need+1, 24"},
        "phase_seconds": {"hint_family": t_hint, "mtree_family": t_mtree - t_hint},
        "bounds": "one dishonest hint per run, then all hints of the run dishonest (u64 division: two in the thorough tier); operands and hints only from the stated alphabets",
    });
    ctx.finish(
        "fault_enumeration",
        cov,
        &[
            "Rpo256::merge is the trusted primitive of the Merkle reference; hash collisions are not considered",
            "a panic or an ExecutionError both count as 'does not complete'",
            "only executions are examined (processor::execute incl. trace construction); proving is not part of this check",
            "u32 counting instructions are only given operands < 2^32 and u64 procedures only 32-bit limbs (documented as undefined / unchecked otherwise)",
            "a Merkle path of the wrong length breaks the Host contract's shape; the VM may refuse it in any way, but completing with an untrue result is a violation (judged since F-C09-b)",
            "none of the instructions in scope reads the advice map, so advice-map content is not varied; the advice stack below the hint is empty (a longer advice stack is only used by the adv_push / adv_loadw / adv_pipe family)",
        ],
    )
}
