//! C08 — the program commitment is the specified MAST hash of the executable code.
//!
//! (a) batching, exhaustively: all operation sequences over {NOOP, ADD, PUSH(v)} up to a length,
//!     and all such sequences appended to 54..=73 plain operations (every alignment of the 9-op group
//!     and 72-op / 8-group batch boundaries): documented batching rules + hash = reference sponge;
//! (b) control blocks: all trees to depth 2 (+ one more level on top of each) over join / split /
//!     loop / call / syscall / dyn with two distinct spans: hash = reference domain-separated merge;
//! (c) invariance (comments, blank lines, procedure names, debug mode, decorators at every
//!     instruction boundary) and sensitivity (every instruction / immediate changed) over a corpus;
//! (d) the hash recorded by an execution equals the program's hash.

use crate::common::*;
use crate::progs;
use mcx::{json, Ctx, Value};
use rayon::prelude::*;
use refvm::mast::{self, opcode, Perm, Word};
use std::collections::BTreeMap;
use std::sync::atomic::{AtomicU64, Ordering};
use vm_core::code_blocks::{CodeBlock, OpBatch};
use vm_core::{Felt, Operation, StarkField};
use winter_prover::Trace;

struct Rpo;
impl Perm for Rpo {
    fn permute(&self, st: &mut [u64; 12]) {
        let mut s: [Felt; 12] = [Felt::new(0); 12];
        for i in 0..12 {
            s[i] = Felt::new(st[i]);
        }
        vm_core::chiplets::hasher::apply_permutation(&mut s);
        for i in 0..12 {
            st[i] = s[i].as_int();
        }
    }
}

fn word_of(d: vm_core::chiplets::hasher::Digest) -> Word {
    let w: [Felt; 4] = d.into();
    [w[0].as_int(), w[1].as_int(), w[2].as_int(), w[3].as_int()]
}

fn mk_ops(code: &[u8]) -> Vec<Operation> {
    code.iter()
        .enumerate()
        .map(|(i, c)| match c {
            0 => Operation::Noop,
            1 => Operation::Add,
            _ => Operation::Push(Felt::new(1_000_003 + i as u64)),
        })
        .collect()
}

fn batches_of(b: &[OpBatch]) -> Vec<[u64; 8]> {
    b.iter()
        .map(|x| {
            let g = x.groups();
            let mut o = [0u64; 8];
            for i in 0..8 {
                o[i] = g[i].as_int();
            }
            o
        })
        .collect()
}

/// checks one span against the documented rules; returns Err(reason)
fn check_span(ops: &[Operation]) -> Result<(), (String, String)> {
    let r = mcx::guard::catch(|| vm_core::code_blocks::Span::new(ops.to_vec()));
    let span = match r {
        Ok(s) => s,
        Err(p) => return Err(("span_new_panic".into(), mcx::guard::short_panic(&p))),
    };
    let batches = span.op_batches();
    let groups = batches_of(batches);
    let carries = |c: u8| c == opcode::PUSH;
    let mut decoded = vec![];
    for (bi, b) in batches.iter().enumerate() {
        let ng = b.num_groups();
        let declared = ng.next_power_of_two();
        if bi + 1 < batches.len() && declared != 8 {
            // only the last batch may be short
            return Err(("non_final_batch_not_full".into(), format!("batch {bi} has {ng} groups")));
        }
        match mast::decode_batch(&groups[bi], declared, &carries) {
            Ok(d) => decoded.extend(d),
            Err(e) => return Err(("batching_rule".into(), format!("batch {bi}: {e}"))),
        }
        // the implementation's own view of the batch must agree with its groups
        if b.ops().len() > 72 {
            return Err(("batching_rule".into(), format!("batch {bi} holds {} operations", b.ops().len())));
        }
    }
    // groups decode back to the operation sequence up to NOOP padding
    let want: Vec<(u8, Option<u64>)> =
        ops.iter().filter(|o| **o != Operation::Noop).map(|o| (o.op_code(), o.imm_value().map(|v| v.as_int()))).collect();
    let got: Vec<(u8, Option<u64>)> = decoded.iter().filter(|d| d.opcode != opcode::NOOP).map(|d| (d.opcode, d.imm)).collect();
    if want != got {
        return Err(("groups_do_not_decode_to_the_sequence".into(), format!("want {want:?} got {got:?}")));
    }
    // the batches are the documented ones: a batch is closed only when the next operation cannot
    // be placed in it (an early-closed batch still obeys every per-batch rule above, but hashes
    // to something else than the specified commitment)
    let all: Vec<(u8, Option<u64>)> = ops.iter().map(|o| (o.op_code(), o.imm_value().map(|v| v.as_int()))).collect();
    let reference = mast::batch_greedy(&all);
    if reference != groups {
        let first = reference.iter().zip(groups.iter()).position(|(a, b)| a != b).unwrap_or(reference.len().min(groups.len()));
        return Err((
            "batches_differ_from_documented_batching".into(),
            format!("{} batches, documented batching gives {}; first difference in batch {first}: real {:?} reference {:?}",
                groups.len(), reference.len(), groups.get(first), reference.get(first)),
        ));
    }
    // hash = RPO sponge over the batches
    let h = mast::hash_batches(&groups, &Rpo);
    if h != word_of(span.hash()) {
        return Err(("span_hash".into(), format!("reference {h:?} real {:?}", word_of(span.hash()))));
    }
    Ok(())
}

fn report_span(ctx: &Ctx, code: &[u8], prefix: usize) {
    let mut ops: Vec<Operation> = (0..prefix).map(|i| if i % 2 == 0 { Operation::Add } else { Operation::Mul }).collect();
    ops.extend(mk_ops(code));
    if let Err((kind, detail)) = check_span(&ops) {
        ctx.fail(
            json!({"kind": kind}),
            format!("prefix of {prefix} plain ops + pattern {code:?} (0=NOOP,1=ADD,2=PUSH): {detail}"),
            json!({"kind": "span", "prefix": prefix, "pattern": code}),
        );
    }
}

// ---- (b) control blocks -------------------------------------------------------------------------

#[derive(Clone, Debug)]
enum T {
    SpanA,
    SpanB,
    Call,
    Syscall,
    Dyn,
    Join(Box<T>, Box<T>),
    Split(Box<T>, Box<T>),
    Loop(Box<T>),
}

fn span_a() -> CodeBlock {
    CodeBlock::new_span(vec![Operation::Add, Operation::Push(Felt::new(7)), Operation::Mul])
}
fn span_b() -> CodeBlock {
    CodeBlock::new_span((0..80).map(|i| if i % 7 == 0 { Operation::Push(Felt::new(i)) } else { Operation::Swap }).collect())
}

fn real_block(t: &T) -> CodeBlock {
    match t {
        T::SpanA => span_a(),
        T::SpanB => span_b(),
        T::Call => CodeBlock::new_call(span_a().hash()),
        T::Syscall => CodeBlock::new_syscall(span_b().hash()),
        T::Dyn => CodeBlock::new_dyn(),
        T::Join(a, b) => CodeBlock::new_join([real_block(a), real_block(b)]),
        T::Split(a, b) => CodeBlock::new_split(real_block(a), real_block(b)),
        T::Loop(a) => CodeBlock::new_loop(real_block(a)),
    }
}

fn ref_hash(t: &T) -> Word {
    let span_hash = |b: CodeBlock| -> Word {
        match b {
            CodeBlock::Span(s) => mast::hash_batches(&batches_of(s.op_batches()), &Rpo),
            _ => unreachable!(),
        }
    };
    match t {
        T::SpanA => span_hash(span_a()),
        T::SpanB => span_hash(span_b()),
        T::Call => mast::merge_in_domain(span_hash(span_a()), [0; 4], opcode::CALL as u64, &Rpo),
        T::Syscall => mast::merge_in_domain(span_hash(span_b()), [0; 4], opcode::SYSCALL as u64, &Rpo),
        T::Dyn => mast::merge_in_domain([0; 4], [0; 4], opcode::DYN as u64, &Rpo),
        T::Join(a, b) => mast::merge_in_domain(ref_hash(a), ref_hash(b), opcode::JOIN as u64, &Rpo),
        T::Split(a, b) => mast::merge_in_domain(ref_hash(a), ref_hash(b), opcode::SPLIT as u64, &Rpo),
        T::Loop(a) => mast::merge_in_domain(ref_hash(a), [0; 4], opcode::LOOP as u64, &Rpo),
    }
}

fn trees(depth: usize) -> Vec<T> {
    let leaves = vec![T::SpanA, T::SpanB, T::Call, T::Syscall, T::Dyn];
    if depth == 0 {
        return leaves;
    }
    let sub = trees(depth - 1);
    let mut out = leaves;
    for a in &sub {
        out.push(T::Loop(Box::new(a.clone())));
        for b in &sub {
            out.push(T::Join(Box::new(a.clone()), Box::new(b.clone())));
            out.push(T::Split(Box::new(a.clone()), Box::new(b.clone())));
        }
    }
    out
}

// ---- (c) invariance / sensitivity ---------------------------------------------------------------

const STRUCT: [&str; 6] = ["begin", "end", "else", "if.true", "while.true", "export"];

fn is_structural(tok: &str) -> bool {
    STRUCT.contains(&tok) || tok.starts_with("proc.") || tok.starts_with("repeat.") || tok.starts_with("export.") || tok.starts_with("use.")
}

fn hash_of(asm: &assembly::Assembler, src: &str) -> Result<Word, String> {
    match mcx::guard::catch(|| asm.compile(src)) {
        Ok(Ok(p)) => Ok(word_of(p.hash())),
        Ok(Err(e)) => Err(format!("asm: {e}")),
        Err(p) => Err(format!("PANIC {}", mcx::guard::short_panic(&p))),
    }
}

/// an instruction that differs from `tok` but assembles in the same place
fn mutate_token(tok: &str) -> Option<String> {
    let name = tok.split('.').next().unwrap();
    let alt = |s: &str| Some(s.to_string());
    if name == "push" {
        let parts: Vec<&str> = tok.split('.').collect();
        if let Ok(v) = parts[parts.len() - 1].parse::<u64>() {
            let mut p: Vec<String> = parts.iter().map(|s| s.to_string()).collect();
            let n = p.len();
            p[n - 1] = (v + 1).to_string();
            return Some(p.join("."));
        }
        return None;
    }
    match tok {
        "add" => alt("mul"),
        "mul" => alt("add"),
        "sub" => alt("add"),
        "drop" => alt("dup drop drop"),
        "swap" => alt("swap.2"),
        "dropw" => alt("swapw dropw"),
        "padw" => alt("push.0.0.0.1"),
        "neg" => alt("inv"),
        "not" => alt("eq.0"),
        "and" => alt("or"),
        "or" => alt("and"),
        "eq" => alt("neq"),
        "neq" => alt("eq"),
        "dup" => alt("dup.1"),
        "u32and" => alt("u32xor"),
        "u32xor" => alt("u32and"),
        "hperm" => alt("hperm hperm"),
        "mem_load" => alt("mem_loadw"),
        "u32overflowing_add" => alt("u32overflowing_sub"),
        "u32wrapping_add" => alt("u32wrapping_sub"),
        _ => {
            if let Some(rest) = tok.strip_prefix("mem_store.") {
                rest.parse::<u64>().ok().map(|a| format!("mem_store.{}", a + 1))
            } else if let Some(rest) = tok.strip_prefix("mem_load.") {
                rest.parse::<u64>().ok().map(|a| format!("mem_load.{}", a + 1))
            } else if let Some(rest) = tok.strip_prefix("add.") {
                rest.parse::<u64>().ok().map(|a| format!("add.{}", a + 1))
            } else if let Some(rest) = tok.strip_prefix("dup.") {
                rest.parse::<u64>().ok().map(|a| format!("dup.{}", (a + 1) % 16))
            } else {
                None
            }
        }
    }
}

fn check_source_variants(ctx: &Ctx, case: &progs::ProgCase, counts: &[AtomicU64; 4]) {
    let asm = case.assembler();
    let base = match hash_of(&asm, &case.src) {
        Ok(h) => h,
        Err(e) => {
            // these programs assemble on the unchanged tree: a failure here is the subject's
            ctx.fail(json!({"kind": "corpus_program_does_not_assemble", "error": e.chars().take(60).collect::<String>()}), format!("{}: {e}", case.name),
                json!({"kind": "variant", "variant": "original", "name": case.name, "original": case.src, "src": case.src, "kernel": case.kernel}));
            return;
        }
    };
    let toks: Vec<&str> = case.src.split_whitespace().collect();
    let cj = |variant: &str, src: &str| json!({"kind": "variant", "variant": variant, "name": case.name, "original": case.src, "src": src, "kernel": case.kernel});
    let expect_same = |variant: &str, src: String, asm: &assembly::Assembler| {
        counts[0].fetch_add(1, Ordering::Relaxed);
        match hash_of(asm, &src) {
            Ok(h) if h == base => {}
            Ok(_) => ctx.fail(json!({"kind": "hash_changed_by_non_semantic_edit", "variant": variant}), format!("{}: {variant}", case.name), cj(variant, &src)),
            Err(e) => ctx.fail(
                json!({"kind": "non_semantic_edit_breaks_assembly", "variant": variant, "error": e.chars().take(80).collect::<String>()}),
                format!("{}: {variant}: {e}", case.name),
                cj(variant, &src),
            ),
        }
    };
    // comments, blank lines, line layout
    expect_same("comments", format!("# header comment\n{}\n# trailing comment", toks.join(" # c\n")), &asm);
    expect_same("blank_lines", toks.join("\n\n   \n\t"), &asm);
    // procedure names
    if case.src.contains("proc.f") {
        let renamed = case.src.replace("proc.f", "proc.some_other_name").replace("exec.f", "exec.some_other_name").replace("call.f", "call.some_other_name").replace("procref.f", "procref.some_other_name");
        expect_same("renamed_procedure", renamed, &asm);
    }
    // debug mode
    let dbg = case.assembler().with_debug_mode(true);
    expect_same("debug_mode", case.src.clone(), &dbg);
    // decorators at every instruction boundary (after every instruction token; never creating a
    // decorator-only body, which is a separate known assembler defect)
    for deco in ["emit.7", "trace.3", "debug.stack", "adv.push_mapval", "debug.mem", "debug.local"] {
        for (i, t) in toks.iter().enumerate() {
            if is_structural(t) {
                continue;
            }
            if deco == "debug.local" && !case.src.contains("proc.f.2") {
                continue;
            }
            let mut v: Vec<String> = toks.iter().map(|s| s.to_string()).collect();
            v.insert(i + 1, deco.to_string());
            counts[1].fetch_add(1, Ordering::Relaxed);
            expect_same(&format!("decorator:{deco}"), v.join(" "), if deco.starts_with("debug") { &dbg } else { &asm });
        }
    }
    // sensitivity: every instruction / immediate changed
    for (i, t) in toks.iter().enumerate() {
        if is_structural(t) {
            continue;
        }
        let Some(m) = mutate_token(t) else {
            counts[3].fetch_add(1, Ordering::Relaxed);
            continue;
        };
        let mut v: Vec<String> = toks.iter().map(|s| s.to_string()).collect();
        v[i] = m.clone();
        let src = v.join(" ");
        counts[2].fetch_add(1, Ordering::Relaxed);
        match hash_of(&asm, &src) {
            Ok(h) if h != base => {}
            Ok(_) => ctx.fail(json!({"kind": "hash_unchanged_by_semantic_edit", "from": t.split('.').next().unwrap()}), format!("{}: `{t}` -> `{m}` at token {i}", case.name), cj("semantic", &src)),
            Err(_) => {
                counts[3].fetch_add(1, Ordering::Relaxed);
            }
        }
    }
}

// ---- (d) execution consistency -------------------------------------------------------------------

fn check_exec_hash(ctx: &Ctx, case: &progs::ProgCase) {
    let cj0 = json!({"kind": "exec", "name": case.name, "src": case.src, "kernel": case.kernel, "stack": case.stack, "advice": case.advice, "merkle": !case.merkle_leaves.is_empty()});
    let program = match mcx::guard::catch(|| case.assembler().compile(&case.src)) {
        Ok(Ok(p)) => p,
        other => {
            ctx.fail(json!({"kind": "corpus_program_does_not_assemble"}), format!("{}: {:?}", case.name, other.map(|r| r.map(|_| ()).map_err(|e| e.to_string()))), cj0);
            return;
        }
    };
    let t = match exec_trace(&program, &case.stack, case.advice_inputs(), processor::ExecutionOptions::default()) {
        Ok(Ok(t)) => t,
        other => {
            ctx.fail(json!({"kind": "corpus_program_does_not_execute"}), format!("{}: {:?}", case.name, other.map(|r| r.map(|_| ()).map_err(|e| format!("{e:?}")))), cj0);
            return;
        }
    };
    let cj = json!({"kind": "exec", "name": case.name, "src": case.src, "kernel": case.kernel, "stack": case.stack, "advice": case.advice, "merkle": !case.merkle_leaves.is_empty()});
    if word_of(*t.program_hash()) != word_of(program.hash()) {
        ctx.fail(json!({"kind": "trace_program_hash"}), case.name.clone(), cj.clone());
    }
    // last executed decoder row: hasher state first half (decoder columns h0..h3 = main columns 16..20)
    let cycles = t.trace_len_summary().main_trace_len();
    let m = t.main_segment();
    let row = cycles - 1;
    let h: Word = [m.get(16, row).as_int(), m.get(17, row).as_int(), m.get(18, row).as_int(), m.get(19, row).as_int()];
    if h != word_of(program.hash()) {
        ctx.fail(json!({"kind": "final_decoder_row_hash"}), format!("{}: row {row} holds {h:?}", case.name), cj);
    }
}

pub fn run(ctx: &Ctx, replay: Option<&Value>) -> i32 {
    // the documented opcode values the reference relies on
    for (doc, real, name) in [
        (opcode::PUSH, Operation::Push(Felt::new(1)).op_code(), "PUSH"), (opcode::JOIN, Operation::Join.op_code(), "JOIN"),
        (opcode::SPLIT, Operation::Split.op_code(), "SPLIT"), (opcode::LOOP, Operation::Loop.op_code(), "LOOP"),
        (opcode::CALL, Operation::Call.op_code(), "CALL"), (opcode::SYSCALL, Operation::SysCall.op_code(), "SYSCALL"),
        (opcode::DYN, Operation::Dyn.op_code(), "DYN"), (opcode::NOOP, Operation::Noop.op_code(), "NOOP"),
    ] {
        if doc != real {
            ctx.fail(json!({"kind": "opcode_differs_from_documentation", "op": name}), format!("{name}: documented {doc}, implemented {real}"), json!({"kind": "opcode"}));
        }
    }
    if let Some(case) = replay {
        match case["kind"].as_str().unwrap_or("") {
            "span" => {
                let pat: Vec<u8> = case["pattern"].as_array().unwrap().iter().map(|x| x.as_u64().unwrap() as u8).collect();
                let prefix = case["prefix"].as_u64().unwrap() as usize;
                println!("span: {prefix} plain ops then pattern {pat:?} (0=NOOP,1=ADD,2=PUSH)");
                let mut ops: Vec<Operation> = (0..prefix).map(|i| if i % 2 == 0 { Operation::Add } else { Operation::Mul }).collect();
                ops.extend(mk_ops(&pat));
                let span = vm_core::code_blocks::Span::new(ops);
                for (i, b) in span.op_batches().iter().enumerate() {
                    println!("batch {i}: num_groups={} groups={:?} op_counts={:?}", b.num_groups(), batches_of(&[b.clone()])[0], b.op_counts());
                }
                report_span(ctx, &pat, prefix);
            }
            "variant" | "exec" => {
                println!("{}", serde_json::to_string_pretty(case).unwrap());
                let u = |v: &Value| -> Vec<u64> { v.as_array().map(|a| a.iter().map(|x| x.as_u64().unwrap()).collect()).unwrap_or_default() };
                let pc = progs::ProgCase {
                    name: case["name"].as_str().unwrap_or("").into(),
                    src: case["original"].as_str().or(case["src"].as_str()).unwrap().into(),
                    kernel: case["kernel"].as_str().map(String::from),
                    stack: u(&case["stack"]),
                    advice: u(&case["advice"]),
                    merkle_leaves: if case["merkle"].as_bool().unwrap_or(false) { progs::MERKLE_LEAVES.to_vec() } else { vec![] },
                    tags: vec![],
                };
                if case["kind"] == "exec" {
                    check_exec_hash(ctx, &pc);
                } else {
                    let c = [AtomicU64::new(0), AtomicU64::new(0), AtomicU64::new(0), AtomicU64::new(0)];
                    check_source_variants(ctx, &pc, &c);
                }
            }
            _ => println!("tree / opcode cases: re-run ./check C08 quick"),
        }
        return ctx.finish("exploration", json!({}), &[]);
    }

    // (a) batching
    let lmax = ctx.tier.pick(11usize, 15usize);
    let mut spans = 0u64;
    for len in 1..=lmax {
        let n = 3u64.pow(len as u32);
        spans += n;
        (0..n).into_par_iter().for_each(|idx| {
            let pat = mcx::space::nth_tuple(&[0u8, 1, 2], len, idx);
            report_span(ctx, &pat, 0);
        });
    }
    let tail = ctx.tier.pick(7usize, 10usize);
    let mut boundary = 0u64;
    for prefix in 54..=73usize {
        for len in 0..=tail {
            let n = 3u64.pow(len as u32);
            boundary += n;
            (0..n).into_par_iter().for_each(|idx| {
                let pat = mcx::space::nth_tuple(&[0u8, 1, 2], len, idx);
                report_span(ctx, &pat, prefix);
            });
        }
    }
    ctx.sample(json!({"kind": "span", "prefix": 70, "pattern": [2, 1, 2, 0, 2]}));

    // (b) control blocks
    let t2 = trees(2);
    let mut all: Vec<T> = t2.clone();
    for t in &t2 {
        all.push(T::Loop(Box::new(t.clone())));
        all.push(T::Join(Box::new(t.clone()), Box::new(T::SpanA)));
        all.push(T::Split(Box::new(T::SpanB), Box::new(t.clone())));
    }
    all.par_iter().for_each(|t| {
        let real = word_of(real_block(t).hash());
        let reference = ref_hash(t);
        if real != reference {
            let kind = format!("{t:?}").split('(').next().unwrap().to_string();
            ctx.fail(json!({"kind": "control_block_hash", "root": kind}), format!("{t:?}: real {real:?} reference {reference:?}"), json!({"kind": "tree", "tree": format!("{t:?}")}));
        }
    });
    ctx.sample(json!({"kind": "tree", "tree": format!("{:?}", all[all.len() / 2])}));

    // (c) invariance / sensitivity over a corpus: every atom at top level + every frame for a few atoms
    let p1 = progs::p1(false);
    let corpus: Vec<&progs::ProgCase> = p1
        .iter()
        .filter(|c| c.name.contains("/Top/") || c.name.starts_with("add/") || c.name.starts_with("mem_rw/") || c.name.starts_with("loc_loadw/") || c.name.starts_with("hperm/") || c.name.starts_with("u32and/"))
        .collect();
    let counts = [AtomicU64::new(0), AtomicU64::new(0), AtomicU64::new(0), AtomicU64::new(0)];
    corpus.par_iter().for_each(|c| check_source_variants(ctx, c, &counts));
    ctx.sample(json!({"kind": "variant", "original": corpus[0].src, "example": "decorator emit.7 inserted after each instruction in turn; `add` -> `mul`"}));

    // (d) execution consistency over P1
    let execs = ctx.tier.pick(p1.len().min(800), p1.len());
    p1[..execs].par_iter().for_each(|c| check_exec_hash(ctx, c));

    let evals = spans + boundary + all.len() as u64 + counts[0].load(Ordering::Relaxed) + counts[2].load(Ordering::Relaxed) + execs as u64;
    let cov = json!({
        "evaluations": evals,
        "distinct_nontrivial": spans + boundary,
        "rule": "distinct op-sequence patterns over {NOOP, ADD, PUSH} (each pattern is a different sequence); non-trivial = every one of them (length >= 1 or a 54..73-op prefix)",
        "span_patterns_up_to_length": lmax, "span_patterns": spans,
        "boundary_patterns": boundary, "boundary_prefixes": "54..=73", "boundary_tail_up_to": tail,
        "control_block_trees": all.len(),
        "corpus_programs": corpus.len(),
        "non_semantic_variants_checked": counts[0].load(Ordering::Relaxed),
        "decorator_insertions": counts[1].load(Ordering::Relaxed),
        "semantic_edits_checked": counts[2].load(Ordering::Relaxed),
        "tokens_without_an_applicable_edit": counts[3].load(Ordering::Relaxed),
        "executions_checked": execs,
        "exhaustive": true,
        "bounds": format!("all 3^n patterns for n <= {lmax}; all patterns of length <= {tail} after each prefix 54..=73; trees of depth <= 2 plus one more level"),
    });
    ctx.finish("exploration", cov, &[
        "the RPO permutation (apply_permutation) and the opcode numbering are trusted primitives; absorption, capacity/domain placement, digest extraction and the batching rules are re-implemented from the design docs",
        "the exact batching is fixed by the implementation within the documented rules; the check demands the rules (and hash = sponge over the resulting groups), not one particular packing",
    ])
}
