//! C11 — assembly is deterministic, history-independent and self-contained.
//!
//! Part S (explicit state): one `Assembler` per history. Configurations = library order (L1,L2 /
//! L2,L1) x kernel (with / without) x debug mode (on / off); action = `compile(s)` for s in a fixed
//! pool of sources; ALL histories up to length 2 (quick) / 3 (thorough) are enumerated (the
//! procedure cache is private, so states cannot be merged: the space is the whole history tree and
//! a state is reached by re-executing its history on a new assembler). Oracle: the verdict of a
//! FRESH assembler of the same configuration is the reference — same program (root hash, kernel,
//! code-block table), same execution outcome, no panic; closure of the code-block table under
//! call / syscall / procref targets; library order, debug mode and re-export paths do not change
//! the program. The same machine is also run through `stateright`'s BFS checker (thorough tier).
//!
//! Part E (bounded exhaustive): every parameterised instruction form x {lowest-1, lowest, highest,
//! highest+1}, local indices x number of locals, call/syscall/caller in and out of kernels, export
//! in executables, undefined / duplicate procedures, zero-immediate divisions: in range => Ok,
//! out of range => Err, never a panic (release and `checked` profile).

use crate::common::*;
use assembly::{ast::ModuleAst, Assembler, LibraryNamespace, LibraryPath, MaslLibrary, Module, Version};
use mcx::ctx::{load_known, sig_matches, Known};
use mcx::{guard, json, Ctx, Tier, Value};
use rayon::prelude::*;
use std::collections::{BTreeMap, BTreeSet};
use vm_core::code_blocks::{CodeBlock, Dyn};
use vm_core::crypto::hash::RpoDigest;
use vm_core::{Program, StarkField};

const FIXED_STACK: [u64; 8] = [5, 6, 7, 8, 9, 10, 11, 12];

// ================================================================================================
// universe: libraries, kernel, source pool
// ================================================================================================

const KERNEL_SRC: &str = "use.l1::util
export.k1
    push.5 add
end
export.k2
    caller
end
export.k3
    exec.util::same push.2 mul
end
";

const L1_BASE: &str = "proc.helper
    push.7 mul
end
export.foo
    push.3 add
end
export.bar.1
    dup loc_store.0 loc_load.0 mul
end
export.callhelper
    call.helper
end
export.twice
    exec.foo exec.foo
end
";
const L1_B: &str = "use.l1::base
export.p1
    procref.base::foo
end
";
const L1_UTIL: &str = "export.same
    push.1 add
end
";
const L2_RE: &str = "use.l1::base
export.base::foo
export.base::bar->baz
export.own
    push.11 add
end
";
const L2_DEEP: &str = "use.l2::re
export.re::foo->foo3
export.viacall
    call.re::baz
end
";
const L2_NEST: &str = "use.l1::base
export.outer
    exec.base::callhelper
end
export.outer2
    exec.outer push.1 add
end
";
const L2_UTIL: &str = "export.same
    push.2 add
end
";
/// a library module with one invalid procedure (`caller` outside a kernel): nothing of it may be usable
const L2_HALF: &str = "use.l1::base
export.base::foo->hfoo
export.fine
    push.1 add
end
export.broken
    caller
end
";

/// re-exports: alias path -> path of the procedure it stands for
const ALIASES: [(&str, &str); 3] =
    [("l2::re::foo", "l1::base::foo"), ("l2::re::baz", "l1::base::bar"), ("l2::deep::foo3", "l1::base::foo")];

/// what the documentation implies for the callset of a library procedure: the procedures it calls
/// or takes a `procref` of, directly or through procedures it `exec`s (written down by hand)
fn documented_callset(canonical_path: &str) -> &'static [&'static str] {
    match canonical_path {
        "l1::b::p1" => &["l1::base::foo"],
        "l1::base::callhelper" | "l2::nest::outer" | "l2::nest::outer2" => &["l1::base::helper"],
        "l2::deep::viacall" => &["l1::base::bar"],
        _ => &[],
    }
}

fn canon_path(p: &str) -> &str {
    ALIASES.iter().find(|(a, _)| *a == p).map(|(_, c)| *c).unwrap_or(p)
}

#[derive(Clone, Debug)]
enum RefTarget {
    /// library procedure, full path
    Lib(&'static str),
    /// local procedure of the source itself: (definitions, name)
    Local(&'static str, &'static str),
}

#[derive(Clone, Debug)]
struct Src {
    name: &'static str,
    text: String,
    /// the documentation says this source is a valid program (given a kernel if `needs_kernel`)
    valid: bool,
    needs_kernel: bool,
    /// fails on a fresh assembler only because it names a MAST root unknown to an empty cache
    root_only: bool,
    /// library procedures referenced (directly or through the listed library procedures)
    uses: Vec<&'static str>,
    /// procedures whose MAST root is pushed by a `procref` reachable in this program
    procrefs: Vec<RefTarget>,
}

struct Universe {
    l1: MaslLibrary,
    l2: MaslLibrary,
    sources: Vec<Src>,
    /// MAST roots of the exported library procedures (full path -> root)
    proc_roots: BTreeMap<String, RpoDigest>,
    /// resolved procref targets per source
    procref_roots: Vec<Vec<(String, RpoDigest)>>,
    /// pairs of sources which must compile to the same MAST root (direct vs re-exported path)
    pairs: Vec<(usize, usize)>,
    foo_root: RpoDigest,
    /// library procedures whose root could not be computed: (path, one-line program, error)
    root_failures: Vec<(String, String, String)>,
}

fn module(path: &str, src: &str) -> Module {
    Module::new(
        LibraryPath::new(path).expect("module path"),
        ModuleAst::parse(src).unwrap_or_else(|e| panic!("SUBJECT: library module {path} must parse: {e}")),
    )
}

fn library(ns: &str, modules: Vec<Module>) -> MaslLibrary {
    MaslLibrary::new(LibraryNamespace::new(ns).expect("namespace"), Version::default(), false, modules, vec![])
        .expect("library")
}

fn hex(d: &RpoDigest) -> String {
    d.to_hex()
}

fn build_universe() -> Universe {
    // MAST root of l1::base::foo, computed with a bootstrap assembler which only knows l1::base
    let boot = library("l1", vec![module("l1::base", L1_BASE)]);
    let foo_root = Assembler::default()
        .with_library(&boot)
        .expect("SUBJECT: bootstrap library must build")
        .compile("use.l1::base begin exec.base::foo end")
        .expect("SUBJECT: bootstrap program must assemble")
        .hash();
    let e: Vec<u64> = foo_root.as_elements().iter().map(|x| x.as_int()).collect();
    // a::p2 spells out what `procref.base::foo` pushes: identical MAST root, empty callset
    let l1_a = format!("export.p2\n    push.{}.{}.{}.{}\nend\n", e[0], e[1], e[2], e[3]);
    let l1 = library(
        "l1",
        vec![module("l1::base", L1_BASE), module("l1::a", &l1_a), module("l1::b", L1_B), module("l1::util", L1_UTIL)],
    );
    let l2 = library(
        "l2",
        vec![module("l2::re", L2_RE), module("l2::deep", L2_DEEP), module("l2::nest", L2_NEST), module("l2::util", L2_UTIL), module("l2::half", L2_HALF)],
    );
    // a root no procedure will ever have in the cache: the hash of an unrelated span
    let never = Assembler::default().compile("begin push.424242 push.17 mul end").expect("never").hash();

    let mut sources: Vec<Src> = vec![];
    let mut add = |name: &'static str,
                   text: String,
                   valid: bool,
                   needs_kernel: bool,
                   uses: Vec<&'static str>,
                   procrefs: Vec<RefTarget>| {
        sources.push(Src { name, text, valid, needs_kernel, root_only: false, uses, procrefs });
    };
    use RefTarget::*;
    add("exec_direct", "use.l1::base begin exec.base::foo end".into(), true, false, vec!["l1::base::foo"], vec![]);
    add("exec_reexport", "use.l2::re begin exec.re::foo end".into(), true, false, vec!["l2::re::foo"], vec![]);
    add("call_direct", "use.l1::base begin call.base::bar end".into(), true, false, vec!["l1::base::bar"], vec![]);
    add("call_reexport", "use.l2::re begin call.re::baz end".into(), true, false, vec!["l2::re::baz"], vec![]);
    add(
        "procref_direct_dynexec",
        "use.l1::base begin procref.base::foo dynexec dropw end".into(),
        true,
        false,
        vec!["l1::base::foo"],
        vec![Lib("l1::base::foo")],
    );
    add(
        "procref_reexport_dyncall",
        "use.l2::deep begin procref.deep::foo3 dyncall dropw end".into(),
        true,
        false,
        vec!["l2::deep::foo3"],
        vec![Lib("l1::base::foo")],
    );
    add(
        "shadow_local",
        "use.l1::base proc.foo push.100 add end begin push.0 drop debug.stack exec.foo exec.base::foo call.foo end".into(),
        true,
        false,
        vec!["l1::base::foo"],
        vec![],
    );
    const SHADOW2_DEFS: &str = "proc.foo push.2 mul end proc.bar.2 push.1 loc_store.1 loc_load.1 add end";
    add(
        "shadow_local_other",
        format!("{SHADOW2_DEFS} begin call.foo exec.bar procref.bar dropw end"),
        true,
        false,
        vec![],
        vec![Local(SHADOW2_DEFS, "bar")],
    );
    add("same_body_a", "proc.mine push.3 add end begin call.mine end".into(), true, false, vec![], vec![]);
    const SAME_B_DEFS: &str = "proc.other push.3 add end";
    add(
        "same_body_b",
        format!("{SAME_B_DEFS} begin procref.other dynexec dropw exec.other end"),
        true,
        false,
        vec![],
        vec![Local(SAME_B_DEFS, "other")],
    );
    add(
        "call_by_root_loaded",
        format!("use.l1::base begin exec.base::foo call.{} end", hex(&foo_root)),
        true,
        false,
        vec!["l1::base::foo"],
        vec![],
    );
    add(
        "hd_b",
        "use.l1::b begin exec.b::p1 dynexec dropw end".into(),
        true,
        false,
        vec!["l1::b::p1", "l1::base::foo"],
        vec![Lib("l1::base::foo")],
    );
    add("hd_a", "use.l1::a begin exec.a::p2 dropw end".into(), true, false, vec!["l1::a::p2"], vec![]);
    add(
        "hd_both",
        "use.l1::a use.l1::b begin exec.a::p2 dropw exec.b::p1 dynexec dropw end".into(),
        true,
        false,
        vec!["l1::a::p2", "l1::b::p1", "l1::base::foo"],
        vec![Lib("l1::base::foo")],
    );
    add(
        "nested_call",
        "use.l2::nest begin exec.nest::outer2 end".into(),
        true,
        false,
        vec!["l2::nest::outer2", "l2::nest::outer", "l1::base::callhelper"],
        vec![],
    );
    add(
        "call_in_lib_to_alias",
        "use.l2::deep begin exec.deep::viacall end".into(),
        true,
        false,
        vec!["l2::deep::viacall", "l2::re::baz"],
        vec![],
    );
    add(
        "syscalls",
        "proc.usr syscall.k2 dropw end begin syscall.k1 call.usr syscall.k3 end".into(),
        true,
        true,
        vec![],
        vec![],
    );
    add("same_name_l1", "use.l1::util begin exec.util::same end".into(), true, false, vec!["l1::util::same"], vec![]);
    add(
        "same_name_l2",
        "use.l2::util begin exec.util::same call.util::same end".into(),
        true,
        false,
        vec!["l2::util::same"],
        vec![],
    );
    // fails on a fresh assembler (phantom call), may compile once the cache knows the root
    add("call_by_root_only", format!("begin call.{} end", hex(&foo_root)), false, false, vec![], vec![]);
    // invalid sources
    add(
        "inv_undefined_import",
        "use.l1::b begin exec.b::p1 dropw exec.b::nope end".into(),
        false,
        false,
        vec!["l1::b::p1", "l1::base::foo"],
        vec![],
    );
    add("inv_local_index", "proc.x.1 loc_load.1 end begin exec.x end".into(), false, false, vec![], vec![]);
    add("inv_caller", "proc.c caller end begin exec.c end".into(), false, false, vec![], vec![]);
    add("inv_export", "export.e push.1 end begin exec.e end".into(), false, false, vec![], vec![]);
    add(
        "inv_phantom_after_p2",
        format!("use.l1::a begin exec.a::p2 dropw call.{} end", hex(&never)),
        false,
        false,
        vec!["l1::a::p2"],
        vec![],
    );
    // sources using a library module which contains an invalid procedure
    add("inv_broken_module_alias", "use.l2::half begin exec.half::hfoo end".into(), false, false, vec!["l1::base::foo"], vec![]);
    add("inv_broken_module_proc", "use.l2::half begin exec.half::fine end".into(), false, false, vec![], vec![]);
    for s in sources.iter_mut() {
        if s.name == "call_by_root_only" {
            s.root_only = true;
        }
    }

    let mut u = Universe {
        l1,
        l2,
        sources,
        proc_roots: BTreeMap::new(),
        procref_roots: vec![],
        pairs: vec![],
        foo_root,
        root_failures: vec![],
    };
    let idx = |u: &Universe, n: &str| u.sources.iter().position(|s| s.name == n).expect("source name");
    u.pairs = vec![
        (idx(&u, "exec_direct"), idx(&u, "exec_reexport")),
        (idx(&u, "call_direct"), idx(&u, "call_reexport")),
    ];

    // roots of the exported library procedures, each computed on its own fresh assembler
    let cfg0 = Config { order: 0, kernel: false, debug: false };
    for path in [
        "l1::base::foo",
        "l1::base::bar",
        "l1::base::callhelper",
        "l1::base::twice",
        "l1::a::p2",
        "l1::b::p1",
        "l1::util::same",
        "l2::re::foo",
        "l2::re::baz",
        "l2::re::own",
        "l2::deep::foo3",
        "l2::deep::viacall",
        "l2::nest::outer",
        "l2::nest::outer2",
        "l2::util::same",
    ] {
        let (module, name) = path.rsplit_once("::").unwrap();
        let alias = module.rsplit_once("::").unwrap().1;
        let src = format!("use.{module} begin exec.{alias}::{name} end");
        let r = match build_assembler(&u, cfg0) {
            Err(e) => Err(format!("assembler setup failed: {e}")),
            Ok(asm) => match guard::catch(|| asm.compile(&src)) {
                Err(p) => Err(format!("panic: {}", guard::short_panic(&p))),
                Ok(Err(e)) => Err(format!("{e}")),
                Ok(Ok(p)) => Ok(p.hash()),
            },
        };
        match r {
            Ok(h) => {
                u.proc_roots.insert(path.to_string(), h);
            }
            // a valid one-line program over the libraries is refused: reported as a violation by `run`
            Err(e) => u.root_failures.push((path.to_string(), src, e)),
        }
    }
    if let Some(r) = u.proc_roots.get("l1::base::foo") {
        assert_eq!(*r, u.foo_root, "bootstrap root of foo");
    }
    u.procref_roots = u
        .sources
        .iter()
        .map(|s| {
            s.procrefs
                .iter()
                .filter_map(|t| match t {
                    Lib(p) => u.proc_roots.get(*p).map(|r| (p.to_string(), *r)),
                    Local(defs, name) => match guard::catch(|| Assembler::default().compile(format!("{defs} begin exec.{name} end"))) {
                        Ok(Ok(p)) => Some((format!("local::{name}"), p.hash())),
                        // the source itself will be refused as well and is reported there
                        _ => None,
                    },
                })
                .collect()
        })
        .collect();
    u
}

// ================================================================================================
// configurations, observations
// ================================================================================================

#[derive(Clone, Copy, Debug, PartialEq, Eq, Hash, PartialOrd, Ord)]
struct Config {
    /// 0: L1 then L2, 1: L2 then L1
    order: u8,
    kernel: bool,
    debug: bool,
}

impl Config {
    fn all() -> Vec<Config> {
        let mut v = vec![];
        for order in [0u8, 1] {
            for kernel in [false, true] {
                for debug in [false, true] {
                    v.push(Config { order, kernel, debug });
                }
            }
        }
        v
    }
    fn json(&self) -> Value {
        json!({"library_order": if self.order == 0 { "L1,L2" } else { "L2,L1" }, "kernel": self.kernel, "debug": self.debug})
    }
    fn from_json(v: &Value) -> Config {
        Config {
            order: if v["library_order"] == "L1,L2" { 0 } else { 1 },
            kernel: v["kernel"].as_bool().expect("kernel"),
            debug: v["debug"].as_bool().expect("debug"),
        }
    }
    fn tag(&self) -> String {
        format!(
            "{}{}{}",
            if self.order == 0 { "L1L2" } else { "L2L1" },
            if self.kernel { "+k" } else { "" },
            if self.debug { "+dbg" } else { "" }
        )
    }
}

fn build_assembler(u: &Universe, c: Config) -> Result<Assembler, String> {
    let r = guard::catch(|| -> Result<Assembler, String> {
        let a = Assembler::default().with_debug_mode(c.debug);
        let a = if c.order == 0 {
            a.with_library(&u.l1).and_then(|a| a.with_library(&u.l2))
        } else {
            a.with_library(&u.l2).and_then(|a| a.with_library(&u.l1))
        }
        .map_err(|e| format!("with_library: {e}"))?;
        if c.kernel {
            a.with_kernel(KERNEL_SRC).map_err(|e| format!("with_kernel: {e}"))
        } else {
            Ok(a)
        }
    });
    match r {
        Ok(r) => r,
        Err(p) => Err(format!("panic: {}", guard::short_panic(&p))),
    }
}

#[derive(Default, Clone, Debug)]
struct Walk {
    /// hashes of all blocks seen (sub-trees of the root and of every reached table entry)
    seen: BTreeSet<[u8; 32]>,
    call_targets: BTreeSet<[u8; 32]>,
    missing_calls: Vec<String>,
    missing_syscalls: Vec<String>,
    syscalls_not_in_kernel: Vec<String>,
    proxies: usize,
}

fn walk(b: &CodeBlock, p: &Program, w: &mut Walk) {
    w.seen.insert(b.hash().into());
    match b {
        CodeBlock::Span(_) | CodeBlock::Dyn(_) => {}
        CodeBlock::Join(j) => {
            walk(j.first(), p, w);
            walk(j.second(), p, w);
        }
        CodeBlock::Split(s) => {
            walk(s.on_true(), p, w);
            walk(s.on_false(), p, w);
        }
        CodeBlock::Loop(l) => walk(l.body(), p, w),
        CodeBlock::Proxy(_) => w.proxies += 1,
        CodeBlock::Call(c) => {
            let t = c.fn_hash();
            if t == Dyn::dyn_hash() {
                return; // dyncall: the target comes from the stack
            }
            let key: [u8; 32] = t.into();
            if c.is_syscall() && !p.kernel().contains_proc(t) {
                w.syscalls_not_in_kernel.push(hex(&t));
            }
            let first = w.call_targets.insert(key);
            match p.cb_table().get(t) {
                None => {
                    if first {
                        if c.is_syscall() {
                            w.missing_syscalls.push(hex(&t));
                        } else {
                            w.missing_calls.push(hex(&t));
                        }
                    }
                }
                Some(body) => {
                    if first {
                        walk(body, p, w);
                    }
                }
            }
        }
    }
}

/// what a successful compilation is reduced to
#[derive(Clone, Debug)]
struct Compiled {
    program: Program,
    hash: String,
    kernel: Vec<String>,
    /// roots of all entries of the code-block table
    table: BTreeSet<String>,
    walk: Walk,
    missing_procrefs: Vec<String>,
    outcome: Outcome,
}

#[derive(Clone, Debug)]
enum Verdict {
    Ok(Box<Compiled>),
    /// (variant name, message)
    Err(String, String),
    Panic(String),
}

impl Verdict {
    fn kind(&self) -> String {
        match self {
            Verdict::Ok(c) => format!("ok/{}", outcome_class(&c.outcome)),
            Verdict::Err(v, _) => format!("err/{v}"),
            Verdict::Panic(_) => "panic".into(),
        }
    }
    fn brief(&self) -> String {
        match self {
            Verdict::Ok(c) => format!(
                "Ok(hash={} kernel={:?} cb_table={} entries exec={})",
                &c.hash[..18],
                c.kernel.iter().map(|k| &k[..10]).collect::<Vec<_>>(),
                c.table.len(),
                brief_outcome(&c.outcome)
            ),
            Verdict::Err(v, m) => format!("Err({v}: {})", m.chars().take(120).collect::<String>()),
            Verdict::Panic(p) => format!("Panic({})", guard::short_panic(p)),
        }
    }
}

/// source file of a panic location (no line number, path relative to the repository root whatever
/// checkout the harness was built against), for signatures
fn panic_file(p: &str) -> String {
    let sp = guard::short_panic(p);
    let file = sp.split(" @ ").last().unwrap_or("").split(':').next().unwrap_or("");
    let parts: Vec<&str> = file.split('/').collect();
    match parts.iter().position(|c| *c == "src") {
        Some(i) if i > 0 => parts[i - 1..].join("/"),
        _ => file.to_string(),
    }
}

fn outcome_class(o: &Outcome) -> String {
    match o {
        Outcome::Ok(_) => "ok".into(),
        Outcome::Err(e) => err_variant(e),
        Outcome::AsmErr(_) => "asm_err".into(),
        Outcome::Panic(_) => "panic".into(),
    }
}

fn brief_outcome(o: &Outcome) -> String {
    match o {
        Outcome::Ok(s) => format!("Ok{:?}", &s[..6.min(s.len())]),
        o => o.brief().chars().take(140).collect(),
    }
}

/// `DefaultHost` prints the VM state for `debug.*`, `emit` and `trace`; this host stays silent.
struct QuietHost(processor::DefaultHost<processor::MemAdviceProvider>);

impl processor::Host for QuietHost {
    fn get_advice<S: processor::ProcessState>(
        &mut self,
        process: &S,
        extractor: processor::AdviceExtractor,
    ) -> Result<processor::HostResponse, processor::ExecutionError> {
        self.0.get_advice(process, extractor)
    }
    fn set_advice<S: processor::ProcessState>(
        &mut self,
        process: &S,
        injector: processor::AdviceInjector,
    ) -> Result<processor::HostResponse, processor::ExecutionError> {
        self.0.set_advice(process, injector)
    }
    fn on_event<S: processor::ProcessState>(&mut self, _: &S, _: u32) -> Result<processor::HostResponse, processor::ExecutionError> {
        Ok(processor::HostResponse::None)
    }
    fn on_debug<S: processor::ProcessState>(
        &mut self,
        _: &S,
        _: &vm_core::DebugOptions,
    ) -> Result<processor::HostResponse, processor::ExecutionError> {
        Ok(processor::HostResponse::None)
    }
    fn on_trace<S: processor::ProcessState>(&mut self, _: &S, _: u32) -> Result<processor::HostResponse, processor::ExecutionError> {
        Ok(processor::HostResponse::None)
    }
}

fn run_quiet(program: &Program) -> Outcome {
    let si = stack_inputs(&FIXED_STACK);
    match guard::catch(|| processor::execute(program, si, QuietHost(host(&[])), processor::ExecutionOptions::default())) {
        Err(p) => Outcome::Panic(p),
        Ok(Err(e)) => Outcome::Err(format!("{e:?}")),
        Ok(Ok(t)) => Outcome::Ok(t.stack_outputs().stack().to_vec()),
    }
}

fn not_found(o: &Outcome) -> bool {
    matches!(o, Outcome::Err(e) if e.starts_with("CodeBlockNotFound") || e.starts_with("DynamicCodeBlockNotFound"))
}

fn compile_once(u: &Universe, asm: &Assembler, si: usize, execute: bool) -> Verdict {
    let s = &u.sources[si];
    match guard::catch(|| asm.compile(&s.text)) {
        Err(p) => Verdict::Panic(p),
        Ok(Err(e)) => Verdict::Err(err_variant(&format!("{e:?}")), format!("{e}")),
        Ok(Ok(program)) => {
            let mut w = Walk::default();
            walk(program.root(), &program, &mut w);
            let missing_procrefs = u.procref_roots[si]
                .iter()
                .filter(|(_, r)| !program.cb_table().has(*r))
                .map(|(n, r)| format!("{n}={}", hex(r)))
                .collect();
            let outcome = if execute { run_quiet(&program) } else { Outcome::Ok(vec![]) };
            Verdict::Ok(Box::new(Compiled {
                hash: hex(&program.hash()),
                kernel: program.kernel().proc_hashes().iter().map(hex).collect(),
                table: table_keys(&program),
                walk: w,
                missing_procrefs,
                outcome,
                program,
            }))
        }
    }
}

/// The code-block table has no iterator; its `Debug` rendering is the map `{[k0, .., k31]: block, ..}`.
/// The keys (32 bytes each, followed by `: `) are recovered from it; no other 32-element array is
/// followed by a colon in that rendering.
fn table_keys(p: &Program) -> BTreeSet<String> {
    let text = format!("{:?}", p.cb_table());
    let b = text.as_bytes();
    let mut out = BTreeSet::new();
    let mut i = 0;
    while i < b.len() {
        if b[i] != b'[' {
            i += 1;
            continue;
        }
        // try to read `[d, d, ..., d]: ` with exactly 32 numbers < 256
        let mut j = i + 1;
        let mut key = [0u8; 32];
        let mut n = 0;
        let ok = loop {
            let st = j;
            let mut val: u32 = 0;
            while j < b.len() && b[j].is_ascii_digit() && j - st < 4 {
                val = val * 10 + (b[j] - b'0') as u32;
                j += 1;
            }
            if j == st || val > 255 || n >= 32 {
                break false;
            }
            key[n] = val as u8;
            n += 1;
            if b[j..].starts_with(b", ") {
                j += 2;
            } else if b[j..].starts_with(b"]: ") {
                break n == 32;
            } else {
                break false;
            }
        };
        if ok {
            let d = RpoDigest::try_from(key).expect("table key is a digest");
            out.insert(hex(&d));
            i = j;
        } else {
            i += 1;
        }
    }
    assert_eq!(out.is_empty(), p.cb_table().is_empty(), "code-block table keys could not be recovered from {text}");
    for k in &out {
        let d = RpoDigest::try_from(k.as_str()).expect("hex digest");
        assert!(p.cb_table().has(d), "recovered key {k} is not in the table");
    }
    out
}

/// the set of roots present in a code-block table, measured by probing (the table has no iterator)
fn table_roots(p: &Program, probes: &BTreeSet<[u8; 32]>) -> BTreeSet<String> {
    probes
        .iter()
        .filter_map(|k| RpoDigest::try_from(*k).ok())
        .filter(|d| p.cb_table().has(*d))
        .map(|d| hex(&d))
        .collect()
}

// ================================================================================================
// the history machine
// ================================================================================================

struct Machine {
    u: Universe,
    configs: Vec<Config>,
    /// reference verdicts: fresh[config index][source index]
    fresh: Vec<Vec<Verdict>>,
    /// every digest seen anywhere while computing the references (probe set for table membership)
    probes: BTreeSet<[u8; 32]>,
    known: Vec<Known>,
    max_len: usize,
}

#[derive(Clone, Debug)]
struct Fail {
    signature: Value,
    summary: String,
    case: Value,
}

#[derive(Default)]
struct NodeReport {
    fails: Vec<Fail>,
    /// classification of the node for the histograms
    class: String,
    cache_dependent: bool,
}

impl Machine {
    fn new(u: Universe, max_len: usize, known: Vec<Known>) -> Machine {
        let configs = Config::all();
        let fresh: Vec<Vec<Verdict>> = configs
            .par_iter()
            .map(|&c| {
                (0..u.sources.len())
                    .map(|si| match build_assembler(&u, c) {
                        Ok(a) => compile_once(&u, &a, si, true),
                        Err(e) => Verdict::Panic(format!("assembler setup failed: {e}")),
                    })
                    .collect()
            })
            .collect();
        let mut probes: BTreeSet<[u8; 32]> = BTreeSet::new();
        for r in u.proc_roots.values() {
            probes.insert((*r).into());
        }
        for rs in &u.procref_roots {
            for (_, r) in rs {
                probes.insert((*r).into());
            }
        }
        for per_cfg in &fresh {
            for v in per_cfg {
                if let Verdict::Ok(c) = v {
                    probes.extend(c.walk.seen.iter().cloned());
                    probes.extend(c.walk.call_targets.iter().cloned());
                    for k in c.program.kernel().proc_hashes() {
                        probes.insert((*k).into());
                    }
                }
            }
        }
        Machine { u, configs, fresh, probes, known, max_len }
    }

    fn case_json(&self, ci: usize, hist: &[usize]) -> Value {
        json!({
            "part": "S",
            "config": self.configs[ci].json(),
            "history": hist.iter().map(|&i| self.u.sources[i].name).collect::<Vec<_>>(),
            "history_sources": hist.iter().map(|&i| self.u.sources[i].text.clone()).collect::<Vec<_>>(),
        })
    }

    /// two different library procedures with the same MAST root but different callsets, one used by
    /// `si`, the other by an earlier source of the history (or by `si` itself)
    fn equal_root_pair(&self, hist_before: &[usize], si: usize) -> Option<(String, String)> {
        let mine = &self.u.sources[si].uses;
        let mut others: Vec<&str> = vec![];
        for &h in hist_before {
            others.extend(self.u.sources[h].uses.iter().cloned());
        }
        others.extend(mine.iter().cloned());
        for p in mine {
            for q in &others {
                let (cp, cq) = (canon_path(p), canon_path(q));
                if cp != cq {
                    if let (Some(rp), Some(rq)) = (self.u.proc_roots.get(cp), self.u.proc_roots.get(cq)) {
                        if rp == rq && documented_callset(cp) != documented_callset(cq) {
                            return Some((cp.to_string(), cq.to_string()));
                        }
                    }
                }
            }
        }
        None
    }

    /// closure / run-time availability of one successfully compiled program
    fn closure_fails(&self, ci: usize, hist: &[usize], c: &Compiled, when: &str, out: &mut Vec<Fail>) {
        let si = *hist.last().unwrap();
        let name = self.u.sources[si].name;
        let case = self.case_json(ci, hist);
        let eq = self.equal_root_pair(&hist[..hist.len() - 1], si);
        let mut push = |what: &str, detail: String| {
            let what = match (&eq, what) {
                (Some(_), "procref_target_missing") | (Some(_), "call_target_missing") => {
                    "missing_callset_for_equal_mast_root"
                }
                _ => what,
            };
            out.push(Fail {
                signature: json!({"part": "S", "kind": "closure", "what": what, "source": name, "when": when}),
                summary: format!(
                    "[{} {:?}] {detail}{}; exec={}",
                    self.configs[ci].tag(),
                    hist.iter().map(|&i| self.u.sources[i].name).collect::<Vec<_>>(),
                    eq.as_ref().map(|(a, b)| format!(" ({a} and {b} have the same MAST root but different callsets)")).unwrap_or_default(),
                    brief_outcome(&c.outcome)
                ),
                case: case.clone(),
            });
        };
        let before = c.walk.missing_calls.len() + c.walk.missing_syscalls.len() + c.missing_procrefs.len();
        if !c.walk.missing_calls.is_empty() {
            push("call_target_missing", format!("call targets not in cb_table: {:?}", c.walk.missing_calls));
        }
        if !c.walk.missing_syscalls.is_empty() {
            push("syscall_target_missing", format!("syscall targets not in cb_table: {:?}", c.walk.missing_syscalls));
        }
        if !c.walk.syscalls_not_in_kernel.is_empty() {
            push("syscall_not_in_kernel", format!("syscall targets not in program kernel: {:?}", c.walk.syscalls_not_in_kernel));
        }
        if !c.missing_procrefs.is_empty() {
            push("procref_target_missing", format!("procref targets not in cb_table: {:?}", c.missing_procrefs));
        }
        if c.walk.proxies > 0 {
            push("proxy_block", format!("{} proxy blocks in an assembled program", c.walk.proxies));
        }
        if before == 0 && not_found(&c.outcome) {
            push("block_not_found_at_run_time", "execution could not find a code block".into());
        }
        if let Outcome::Panic(p) = &c.outcome {
            push("execution_panics", guard::short_panic(p));
        }
    }

    /// evaluates the oracle for the LAST compilation of `hist` on configuration `ci`
    fn check_node(&self, ci: usize, hist: &[usize], execute: bool) -> NodeReport {
        let mut rep = NodeReport::default();
        if hist.is_empty() {
            rep.class = "root".into();
            return rep;
        }
        let cfg = self.configs[ci];
        let si = *hist.last().unwrap();
        let src = &self.u.sources[si];
        let names: Vec<&str> = hist.iter().map(|&i| self.u.sources[i].name).collect();
        let tag = cfg.tag();
        let asm = match build_assembler(&self.u, cfg) {
            Ok(a) => a,
            Err(e) => {
                rep.class = "setup_failed".into();
                rep.fails.push(Fail {
                    signature: json!({"part": "S", "kind": "assembler_setup_failed"}),
                    summary: format!("[{tag}] {e}"),
                    case: self.case_json(ci, hist),
                });
                return rep;
            }
        };
        for &h in &hist[..hist.len() - 1] {
            let _ = guard::catch(|| asm.compile(&self.u.sources[h].text));
        }
        let got = compile_once(&self.u, &asm, si, execute);
        let fresh = &self.fresh[ci][si];
        rep.class = format!("fresh:{} -> after:{}", fresh.kind(), got.kind());
        let mut fails: Vec<Fail> = vec![];
        let mut fail = |what: &str, detail: String| {
            fails.push(Fail {
                signature: json!({"part": "S", "kind": "history_dependence", "what": what, "source": src.name}),
                summary: format!("[{tag} {names:?}] {detail}"),
                case: self.case_json(ci, hist),
            });
        };
        let mut extra: Vec<Fail> = vec![];
        match (fresh, &got) {
            (_, Verdict::Panic(p)) => {
                extra.push(Fail {
                    signature: json!({"part": "S", "kind": "panic", "when": "history", "source": src.name, "panic": panic_file(p)}),
                    summary: format!("[{tag} {names:?}] compile panicked: {} (fresh: {})", guard::short_panic(p), fresh.brief()),
                    case: self.case_json(ci, hist),
                });
            }
            (Verdict::Panic(_), _) => {} // reported by the fresh phase
            (Verdict::Err(..), Verdict::Err(..)) => {}
            (Verdict::Err(fv, fm), Verdict::Ok(c)) => {
                if src.root_only && fv == "PhantomCallsNotAllowed" {
                    rep.cache_dependent = true;
                    // the program that does come out must still be self-contained
                    self.closure_fails(ci, hist, c, "history", &mut extra);
                    // the verdict on `call.0x<root>` depends on what the cache happens to hold:
                    // a dependence on the history like any other (recorded finding F-C11-h)
                    fail(
                        "accepted_after_history",
                        format!("a fresh assembler rejects the source ({fv}: {fm}) but after this history it compiles: {}", got.brief()),
                    );
                } else {
                    fail(
                        "accepted_after_history",
                        format!("a fresh assembler rejects the source ({fv}: {fm}) but after this history it compiles: {}", got.brief()),
                    );
                }
            }
            (Verdict::Ok(_), Verdict::Err(v, m)) => {
                fail("compile_fails_after_history", format!("fresh: {} ; after history: Err({v}: {m})", fresh.brief()));
            }
            (Verdict::Ok(f), Verdict::Ok(g)) => {
                if f.hash != g.hash {
                    fail("hash_differs", format!("fresh root {} / after history {}", f.hash, g.hash));
                } else if f.kernel != g.kernel {
                    fail("kernel_differs", format!("fresh kernel {:?} / after history {:?}", f.kernel, g.kernel));
                } else if f.table != g.table {
                    let (fs, gs) = (&f.table, &g.table);
                    let eq = self.equal_root_pair(&hist[..hist.len() - 1], si);
                    let missing: Vec<&String> = fs.difference(&gs).collect();
                    let surplus: Vec<&String> = gs.difference(&fs).collect();
                    let what = if !missing.is_empty() && surplus.is_empty() {
                        if eq.is_some() { "missing_callset_for_equal_mast_root" } else { "cb_table_smaller" }
                    } else if missing.is_empty() && !surplus.is_empty() {
                        if eq.is_some() { "extra_callset_for_equal_mast_root" } else { "cb_table_larger" }
                    } else {
                        "cb_table_differs"
                    };
                    fail(
                        what,
                        format!(
                            "same root {}, cb_table roots fresh={} after={} missing={missing:?} extra={surplus:?}{}; exec fresh={} after={}",
                            &f.hash[..18],
                            fs.len(),
                            gs.len(),
                            eq.map(|(a, b)| format!(" ({a} and {b} have the same MAST root but different callsets)")).unwrap_or_default(),
                            brief_outcome(&f.outcome),
                            brief_outcome(&g.outcome)
                        ),
                    );
                } else if f.outcome != g.outcome {
                    fail(
                        "outcome_differs",
                        format!("identical program, exec fresh={} after={}", brief_outcome(&f.outcome), brief_outcome(&g.outcome)),
                    );
                }
            }
        }
        rep.fails = fails;
        rep.fails.extend(extra);
        rep
    }

    /// checks on the reference verdicts themselves (fresh assembler per configuration)
    fn check_fresh(&self) -> Vec<Fail> {
        let mut out = vec![];
        for (ci, cfg) in self.configs.iter().enumerate() {
            for (si, s) in self.u.sources.iter().enumerate() {
                let v = &self.fresh[ci][si];
                let hist = [si];
                let case = self.case_json(ci, &hist);
                let expect_ok = s.valid && (!s.needs_kernel || cfg.kernel);
                match v {
                    Verdict::Panic(p) => out.push(Fail {
                        signature: json!({"part": "S", "kind": "panic", "when": "fresh", "source": s.name, "panic": panic_file(p)}),
                        summary: format!("[{}] fresh compile of {} panicked: {}", cfg.tag(), s.name, guard::short_panic(p)),
                        case,
                    }),
                    Verdict::Err(var, m) => {
                        if expect_ok {
                            out.push(Fail {
                                signature: json!({"part": "S", "kind": "valid_source_rejected", "source": s.name}),
                                summary: format!("[{}] {} is a valid program but a fresh assembler rejects it: {var}: {m}", cfg.tag(), s.name),
                                case,
                            });
                        }
                    }
                    Verdict::Ok(c) => {
                        if !expect_ok {
                            out.push(Fail {
                                signature: json!({"part": "S", "kind": "invalid_source_accepted", "source": s.name}),
                                summary: format!("[{}] {} is invalid but a fresh assembler accepts it ({})", cfg.tag(), s.name, v.brief()),
                                case,
                            });
                        } else {
                            self.closure_fails(ci, &hist, c, "fresh", &mut out);
                        }
                    }
                }
            }
        }
        // library order and debug mode must not change the program
        let cmp = |a: usize, b: usize, what: &str, out: &mut Vec<Fail>| {
            for (si, s) in self.u.sources.iter().enumerate() {
                let (va, vb) = (&self.fresh[a][si], &self.fresh[b][si]);
                let same = match (va, vb) {
                    (Verdict::Ok(x), Verdict::Ok(y)) => {
                        x.hash == y.hash
                            && x.kernel == y.kernel
                            && x.table == y.table
                            && x.outcome == y.outcome
                    }
                    (Verdict::Err(x, _), Verdict::Err(y, _)) => x == y,
                    (Verdict::Panic(_), _) | (_, Verdict::Panic(_)) => true, // reported above
                    _ => false,
                };
                if !same {
                    out.push(Fail {
                        signature: json!({"part": "S", "kind": what, "source": s.name}),
                        summary: format!(
                            "{} : [{}] {} vs [{}] {}",
                            s.name,
                            self.configs[a].tag(),
                            va.brief(),
                            self.configs[b].tag(),
                            vb.brief()
                        ),
                        case: json!({"part": "S-cross", "what": what, "source": s.name, "text": s.text,
                                     "config_a": self.configs[a].json(), "config_b": self.configs[b].json()}),
                    });
                }
            }
        };
        for (a, ca) in self.configs.iter().enumerate() {
            for (b, cb) in self.configs.iter().enumerate() {
                if ca.kernel == cb.kernel && ca.debug == cb.debug && ca.order == 0 && cb.order == 1 {
                    cmp(a, b, "library_order_changes_program", &mut out);
                }
                if ca.kernel == cb.kernel && ca.order == cb.order && !ca.debug && cb.debug {
                    cmp(a, b, "debug_mode_changes_program", &mut out);
                }
            }
        }
        // direct path vs re-export
        for (ci, cfg) in self.configs.iter().enumerate() {
            for &(a, b) in &self.u.pairs {
                if let (Verdict::Ok(x), Verdict::Ok(y)) = (&self.fresh[ci][a], &self.fresh[ci][b]) {
                    if x.hash != y.hash || x.outcome != y.outcome {
                        out.push(Fail {
                            signature: json!({"part": "S", "kind": "reexport_changes_program", "source": self.u.sources[b].name}),
                            summary: format!(
                                "[{}] {} -> {} but {} -> {}",
                                cfg.tag(),
                                self.u.sources[a].name,
                                self.fresh[ci][a].brief(),
                                self.u.sources[b].name,
                                self.fresh[ci][b].brief()
                            ),
                            case: json!({"part": "S-pair", "config": cfg.json(), "a": self.u.sources[a].name, "b": self.u.sources[b].name}),
                        });
                    }
                }
            }
        }
        out
    }

    fn unexplained(&self, fails: &[Fail]) -> bool {
        fails.iter().any(|f| !self.known.iter().any(|k| k.status == "known" && sig_matches(&k.signature, &f.signature)))
    }
}

/// all histories of length 1..=max_len over `n` sources, shortest first, lexicographic
fn histories(n: usize, max_len: usize) -> Vec<Vec<usize>> {
    let alphabet: Vec<usize> = (0..n).collect();
    mcx::space::sequences(&alphabet, 1, max_len)
}

// ------------------------------------------------------------------------------------------------
// the same machine as a stateright model
// ------------------------------------------------------------------------------------------------

mod sr {
    use super::Machine;
    use stateright::{Model, Property};

    pub struct HistoryModel(pub Machine);

    impl Model for HistoryModel {
        /// (configuration index, history of source indices)
        type State = (u8, Vec<u8>);
        type Action = u8;

        fn init_states(&self) -> Vec<Self::State> {
            (0..self.0.configs.len()).map(|c| (c as u8, vec![])).collect()
        }

        fn actions(&self, state: &Self::State, actions: &mut Vec<Self::Action>) {
            if state.1.len() < self.0.max_len {
                actions.extend(0..self.0.u.sources.len() as u8);
            }
        }

        fn next_state(&self, last: &Self::State, action: Self::Action) -> Option<Self::State> {
            let mut h = last.1.clone();
            h.push(action);
            Some((last.0, h))
        }

        fn properties(&self) -> Vec<Property<Self>> {
            vec![Property::always("oracle", |m: &HistoryModel, s: &(u8, Vec<u8>)| {
                let hist: Vec<usize> = s.1.iter().map(|&x| x as usize).collect();
                let rep = m.0.check_node(s.0 as usize, &hist, true);
                !m.0.unexplained(&rep.fails)
            })]
        }
    }
}

// ================================================================================================
// part E: invalid programs over a stated grid
// ================================================================================================

#[derive(Clone, Copy, Debug, PartialEq, Eq)]
enum Expect {
    Ok,
    Err,
    /// the documentation does not say: only "no panic" is required
    NoPanic,
}

#[derive(Clone, Debug)]
enum Target {
    /// `src` is a program, assembled by an assembler with the stated kernel (if any)
    Program { kernel: Option<String> },
    /// `src` is a kernel module, assembled by `with_kernel`
    Kernel,
    /// `src` is a library module at path `lx::m` (exporting `f`); `use.lx::m begin exec.m::f end` is compiled
    Library { kernel: Option<String> },
    /// `src` is a kernel module which imports library module `lx::m` with source `module`
    KernelWithLibrary { module: String },
}

#[derive(Clone, Debug)]
struct ECase {
    class: &'static str,
    family: String,
    point: String,
    target: Target,
    src: String,
    expect: Expect,
}

const E_KERNEL: &str = "export.k1 push.5 add end";

fn e_cases(u: &Universe) -> Vec<ECase> {
    let mut v: Vec<ECase> = vec![];
    let prog = |instr: &str| format!("begin {instr} end");
    let p = P as i128;
    let u32max = (1i128 << 32) - 1;

    // ---- parameter ranges: {lo-1, lo, hi, hi+1}
    {
    let mut range = |class: &'static str, family: &str, lo: i128, hi: i128, render: &dyn Fn(&str) -> String| {
        for (label, val, expect) in [
            ("lowest-1", lo - 1, Expect::Err),
            ("lowest", lo, Expect::Ok),
            ("highest", hi, Expect::Ok),
            ("highest+1", hi + 1, Expect::Err),
        ] {
            v.push(ECase {
                class,
                family: family.to_string(),
                point: label.to_string(),
                target: Target::Program { kernel: None },
                src: render(&val.to_string()),
                expect,
            });
        }
    };
    for (f, lo, hi) in [
        ("dup", 0, 15),
        ("dupw", 0, 3),
        ("swap", 1, 15),
        ("swapw", 1, 3),
        ("movup", 2, 15),
        ("movdn", 2, 15),
        ("movupw", 2, 3),
        ("movdnw", 2, 3),
    ] {
        range("stack_index", f, lo, hi, &|x| prog(&format!("{f}.{x}")));
    }
    for f in ["add", "sub", "mul", "eq", "neq", "exp", "push"] {
        range("felt_immediate", f, 0, p - 1, &|x| prog(&format!("push.1 {f}.{x}")));
    }
    range("felt_immediate", "div", 1, p - 1, &|x| prog(&format!("push.1 div.{x}")));
    range("exp_bits", "exp.u", 0, 64, &|x| prog(&format!("push.2 push.3 exp.u{x}")));
    for f in [
        "u32wrapping_add",
        "u32overflowing_add",
        "u32wrapping_sub",
        "u32overflowing_sub",
        "u32wrapping_mul",
        "u32overflowing_mul",
    ] {
        range("u32_immediate", f, 0, u32max, &|x| prog(&format!("push.1 {f}.{x}")));
    }
    for f in ["u32div", "u32mod", "u32divmod"] {
        range("u32_immediate", f, 1, u32max, &|x| prog(&format!("push.1 {f}.{x}")));
    }
    for f in ["u32shl", "u32shr", "u32rotl", "u32rotr"] {
        range("u32_shift", f, 0, 31, &|x| prog(&format!("push.1 {f}.{x}")));
    }
    range("advice_count", "adv_push", 1, 16, &|x| prog(&format!("adv_push.{x}")));
    for f in ["mem_load", "mem_loadw", "mem_store", "mem_storew"] {
        range("memory_address", f, 0, u32max, &|x| prog(&format!("padw push.1 {f}.{x}")));
    }
    for f in ["assert", "assertz", "assert_eq", "assert_eqw", "u32assert", "u32assert2", "u32assertw"] {
        range("error_code", f, 0, u32max, &|x| prog(&format!("padw padw {f}.err={x}")));
    }
    for f in ["emit", "trace"] {
        range("event_id", f, 0, u32max, &|x| prog(&format!("push.1 {f}.{x}")));
    }
    range("debug_param", "debug.stack", 1, 65535, &|x| prog(&format!("push.1 debug.stack.{x}")));
    range("debug_param", "debug.local", 0, 65535, &|x| format!("proc.x.2 push.1 debug.local.{x} end begin exec.x end"));
    range("debug_param", "debug.local.n.n", 0, 65535, &|x| format!("proc.x.2 push.1 debug.local.{x}.{x} end begin exec.x end"));
    range("injector_param", "adv.insert_hdword", 0, 255, &|x| prog(&format!("push.1 adv.insert_hdword.{x}")));
    }

    let mut one = |class: &'static str, family: &str, point: &str, target: Target, src: String, expect: Expect| {
        v.push(ECase { class, family: family.to_string(), point: point.to_string(), target, src, expect });
    };
    let program = || Target::Program { kernel: None };
    let kprogram = || Target::Program { kernel: Some(E_KERNEL.to_string()) };

    // number of locals: "at most 2^16" (code_organization.md) vs a 16-bit counter: 65536 may go either way
    let locals = |x: &str| format!("proc.x.{x} push.1 end begin exec.x end");
    one("num_locals", "proc", "lowest-1", program(), locals("-1"), Expect::Err);
    one("num_locals", "proc", "lowest", program(), locals("0"), Expect::Ok);
    one("num_locals", "proc", "2^16-1", program(), locals("65535"), Expect::Ok);
    one("num_locals", "proc", "2^16 (documentation ambiguous)", program(), locals("65536"), Expect::NoPanic);
    one("num_locals", "proc", "2^16+1", program(), locals("65537"), Expect::Err);
    one("num_locals", "proc", "not a number", program(), locals("two"), Expect::Err);
    // debug.mem: addresses are u32; interval end >= start
    one("debug_param", "debug.mem", "n=1", program(), prog("push.1 debug.mem.1"), Expect::Ok);
    one("debug_param", "debug.mem", "n=2^32-1", program(), prog("push.1 debug.mem.4294967295"), Expect::Ok);
    one("debug_param", "debug.mem", "n=2^32", program(), prog("push.1 debug.mem.4294967296"), Expect::Err);
    one("debug_param", "debug.mem", "n=-1", program(), prog("push.1 debug.mem.-1"), Expect::Err);
    one("debug_param", "debug.mem", "n=0 (address 0; range of n not documented)", program(), prog("push.1 debug.mem.0"), Expect::NoPanic);
    one("debug_param", "debug.mem.n.m", "m=n", program(), prog("push.1 debug.mem.7.7"), Expect::Ok);
    one("debug_param", "debug.mem.n.m", "m=n+1", program(), prog("push.1 debug.mem.7.8"), Expect::Ok);
    one("debug_param", "debug.mem.n.m", "m=n-1", program(), prog("push.1 debug.mem.7.6"), Expect::Err);
    one("debug_param", "debug.mem.n.m", "m=2^32", program(), prog("push.1 debug.mem.7.4294967296"), Expect::Err);
    one("debug_param", "debug.local.n.m", "m=n+1", program(), "proc.x.2 push.1 debug.local.0.1 end begin exec.x end".into(), Expect::Ok);
    one("debug_param", "debug.local.n.m", "m=n-1", program(), "proc.x.2 push.1 debug.local.1.0 end begin exec.x end".into(), Expect::Err);
    one("debug_param", "debug", "no target", program(), prog("push.1 debug"), Expect::Err);
    one("debug_param", "debug", "unknown target", program(), prog("push.1 debug.regs"), Expect::Err);
    // advice injector offsets: the key word must lie within the top 16 elements (not documented as a range)
    for f in ["adv.push_mapval", "adv.push_mapvaln"] {
        one("injector_param", f, "lowest-1", program(), prog(&format!("push.1 {f}.-1")), Expect::Err);
        one("injector_param", f, "lowest", program(), prog(&format!("push.1 {f}.0")), Expect::Ok);
        one("injector_param", f, "12", program(), prog(&format!("push.1 {f}.12")), Expect::Ok);
        one("injector_param", f, "13 (undocumented bound)", program(), prog(&format!("push.1 {f}.13")), Expect::NoPanic);
        one("injector_param", f, "256", program(), prog(&format!("push.1 {f}.256")), Expect::NoPanic);
    }
    one("injector_param", "adv.push_sig", "known kind", program(), prog("push.1 adv.push_sig.rpo_falcon512"), Expect::Ok);
    one("injector_param", "adv.push_sig", "unknown kind", program(), prog("push.1 adv.push_sig.ecdsa"), Expect::Err);
    one("injector_param", "adv", "unknown injector", program(), prog("push.1 adv.push_nothing"), Expect::Err);
    // repeat: count > 0 (documented); no documented upper bound
    one("repeat_count", "repeat", "lowest-1 (0)", program(), "begin repeat.0 push.1 end end".into(), Expect::Err);
    one("repeat_count", "repeat", "lowest (1)", program(), "begin repeat.1 push.1 end end".into(), Expect::Ok);
    one("repeat_count", "repeat", "1000", program(), "begin repeat.1000 push.1 drop end end".into(), Expect::Ok);
    one("repeat_count", "repeat", "-1", program(), "begin repeat.-1 push.1 end end".into(), Expect::Err);
    one("repeat_count", "repeat", "2^32 (no documented upper bound)", program(), "begin repeat.4294967296 push.1 end end".into(), Expect::NoPanic);
    one("repeat_count", "repeat", "missing", program(), "begin repeat push.1 end end".into(), Expect::Err);
    // push: 1..=16 values, each a field element, decimal or hex
    let vals = |k: usize| (0..k).map(|i| (i + 2).to_string()).collect::<Vec<_>>().join(".");
    one("push_arity", "push", "0 values", program(), prog("push"), Expect::Err);
    one("push_arity", "push", "1 value", program(), prog("push.7"), Expect::Ok);
    one("push_arity", "push", "16 values", program(), prog(&format!("push.{}", vals(16))), Expect::Ok);
    one("push_arity", "push", "17 values", program(), prog(&format!("push.{}", vals(17))), Expect::Err);
    one("push_value", "push", "list with p-1", program(), prog(&format!("push.1.{}", p - 1)), Expect::Ok);
    one("push_value", "push", "list with p", program(), prog(&format!("push.1.{p}")), Expect::Err);
    one("push_value", "push", "list with -1", program(), prog("push.1.-1"), Expect::Err);
    one("push_value", "push", "non-numeric", program(), prog("push.abc"), Expect::Err);
    one("push_value", "push", "list with non-numeric", program(), prog("push.1.x"), Expect::Err);
    one("push_value", "push", "empty value", program(), prog("push.1..2"), Expect::Err);
    one("push_value", "push", "undefined constant", program(), prog("push.NOPE"), Expect::Err);
    one("push_value", "push", "hex p-1", program(), prog("push.0xffffffff00000000"), Expect::Ok);
    one("push_value", "push", "hex p", program(), prog("push.0xffffffff00000001"), Expect::Err);
    one("push_value", "push", "hex short", program(), prog("push.0x7b"), Expect::Ok);
    one("push_value", "push", "hex odd digits", program(), prog("push.0x7"), Expect::Err);
    one("push_value", "push", "hex 18 digits", program(), prog("push.0x010000000000000000"), Expect::Err);
    one("push_value", "push", "hex not hex", program(), prog("push.0xzz"), Expect::Err);
    one("push_value", "push", "hex empty", program(), prog("push.0x"), Expect::Err);
    one(
        "push_value",
        "push",
        "hex word",
        program(),
        prog("push.0x341200000000000078560000000000001290000000000000cdab000000000000"),
        Expect::Ok,
    );
    one(
        "push_value",
        "push",
        "hex word with element p (little endian)",
        program(),
        prog("push.0x01000000ffffffff78560000000000001290000000000000cdab000000000000"),
        Expect::Err,
    );
    one(
        "push_value",
        "push",
        "hex word 62 digits",
        program(),
        prog("push.0x3412000000000000785600000000000012900000000000cdab000000000000"),
        Expect::Err,
    );
    // instructions without parameters must refuse one
    for f in ["drop", "swapdw", "caller", "dynexec", "hperm", "mem_stream", "adv_loadw", "clk"] {
        one("extra_param", f, "one extra", program(), prog(&format!("{f}.1")), Expect::Err);
    }
    for f in ["movup", "movdn", "movupw", "movdnw", "adv_push", "locaddr", "loc_load", "loc_store", "emit", "trace", "exec", "call", "syscall", "procref"] {
        one("missing_param", f, "none", program(), format!("proc.x.1 {f} end begin exec.x end"), Expect::Err);
    }
    one("unknown_instruction", "-", "unknown op", program(), prog("frobnicate"), Expect::Err);

    // ---- local index x number of locals
    for f in ["loc_load", "loc_loadw", "loc_store", "loc_storew", "locaddr"] {
        for n in [0u32, 1, 2, 65535] {
            let mut idxs: BTreeSet<i64> = [0i64, n as i64 - 1, n as i64, 65535, 65536].into_iter().collect();
            idxs.remove(&-1);
            for idx in idxs {
                let expect = if idx < n as i64 { Expect::Ok } else { Expect::Err };
                one(
                    "local_index",
                    f,
                    &format!("locals={n}"),
                    Target::Program { kernel: None },
                    format!("proc.x.{n} padw {f}.{idx} end begin exec.x end"),
                    expect,
                );
                if n == 0 {
                    // `begin` blocks have no locals at all ("available only in procedure context")
                    one("local_index", f, "locals=0(begin)", program(), prog(&format!("padw {f}.{idx}")), Expect::Err);
                }
            }
        }
    }

    // ---- call / syscall / caller, in and out of kernels
    let root = hex(&u.foo_root);
    one("kernel_rules", "call", "local call in kernel", Target::Kernel, "proc.h push.1 end export.k call.h end".into(), Expect::Err);
    one("kernel_rules", "call", "call by root in kernel", Target::Kernel, format!("export.k call.{root} end"), Expect::Err);
    one("kernel_rules", "syscall", "syscall in kernel", Target::Kernel, "export.a push.1 end export.k syscall.a end".into(), Expect::Err);
    one("kernel_rules", "caller", "caller in kernel export", Target::Kernel, "export.k caller end".into(), Expect::Ok);
    one("kernel_rules", "caller", "caller in kernel internal proc", Target::Kernel, "proc.h caller end export.k exec.h end".into(), Expect::Ok);
    one("kernel_rules", "exec", "exec in kernel", Target::Kernel, "proc.h push.1 end export.k exec.h end".into(), Expect::Ok);
    one("kernel_rules", "dyncall", "dyncall in kernel (not documented)", Target::Kernel, "export.k dyncall end".into(), Expect::NoPanic);
    one("kernel_rules", "dynexec", "dynexec in kernel (not documented)", Target::Kernel, "export.k dynexec end".into(), Expect::NoPanic);
    one("kernel_rules", "kernel", "kernel without exports (not documented)", Target::Kernel, "proc.h push.1 end".into(), Expect::NoPanic);
    one("kernel_rules", "kernel", "kernel with a begin block", Target::Kernel, "export.k push.1 end begin push.1 end".into(), Expect::Err);
    one(
        "kernel_rules",
        "call",
        "kernel execs a library procedure containing call",
        Target::KernelWithLibrary { module: "proc.h push.1 end export.f call.h end".into() },
        "use.lx::m export.k exec.m::f end".into(),
        Expect::Err,
    );
    one(
        "kernel_rules",
        "exec",
        "kernel execs a plain library procedure",
        Target::KernelWithLibrary { module: "export.f push.1 add end".into() },
        "use.lx::m export.k exec.m::f end".into(),
        Expect::Ok,
    );
    one("kernel_rules", "caller", "caller in program body", program(), prog("caller"), Expect::Err);
    one("kernel_rules", "caller", "caller in program procedure", program(), "proc.c caller end begin exec.c end".into(), Expect::Err);
    one("kernel_rules", "caller", "caller in program (assembler has a kernel)", kprogram(), prog("caller"), Expect::Err);
    one("kernel_rules", "caller", "caller in library module", Target::Library { kernel: None }, "export.f caller end".into(), Expect::Err);
    one("kernel_rules", "caller", "caller in library module (assembler has a kernel)", Target::Library { kernel: Some(E_KERNEL.into()) }, "export.f caller end".into(), Expect::Err);
    one("kernel_rules", "syscall", "syscall without kernel", program(), prog("syscall.k1"), Expect::Err);
    one("kernel_rules", "syscall", "syscall to kernel procedure", kprogram(), prog("syscall.k1"), Expect::Ok);
    one("kernel_rules", "syscall", "syscall to unknown kernel procedure", kprogram(), prog("syscall.k9"), Expect::Err);
    one("kernel_rules", "syscall", "syscall to local procedure", kprogram(), "proc.k9 push.1 end begin syscall.k9 end".into(), Expect::Err);
    one("kernel_rules", "syscall", "syscall with module path", kprogram(), prog("syscall.m::k1"), Expect::Err);
    one("kernel_rules", "syscall", "syscall with MAST root", kprogram(), prog(&format!("syscall.{root}")), Expect::Err);
    one("kernel_rules", "syscall", "syscall in library module", Target::Library { kernel: Some(E_KERNEL.into()) }, "export.f syscall.k1 end".into(), Expect::Ok);
    one("kernel_rules", "syscall", "syscall in library module without kernel", Target::Library { kernel: None }, "export.f syscall.k1 end".into(), Expect::Err);
    one("kernel_rules", "call", "call in program", program(), "proc.h push.1 end begin call.h end".into(), Expect::Ok);
    one("kernel_rules", "call", "call in library module", Target::Library { kernel: None }, "proc.h push.1 end export.f call.h end".into(), Expect::Ok);
    one("kernel_rules", "exec", "exec with MAST root", program(), prog(&format!("exec.{root}")), Expect::Err);
    one("kernel_rules", "call", "call with short MAST root", program(), prog("call.0x1234"), Expect::Err);
    one("kernel_rules", "call", "call with unknown MAST root", program(), prog(&format!("call.{root}")), Expect::Err);

    // ---- export in an executable, undefined / duplicate procedures
    one("export_in_executable", "export", "exported procedure", program(), "export.e push.1 end begin push.1 end".into(), Expect::Err);
    one("export_in_executable", "export", "export after proc", program(), "proc.a push.1 end export.e push.1 end begin exec.a end".into(), Expect::Err);
    one("export_in_executable", "export", "re-export", program(), "use.lx::m export.m::f begin push.1 end".into(), Expect::Err);
    for f in ["exec", "call", "procref"] {
        one("undefined_procedure", f, "undefined local", program(), prog(&format!("{f}.nope")), Expect::Err);
        one("undefined_procedure", f, "defined later", program(), format!("proc.a {f}.b end proc.b push.1 end begin exec.a end"), Expect::Err);
        one("undefined_procedure", f, "itself", program(), format!("proc.a {f}.a end begin exec.a end"), Expect::Err);
        one("undefined_procedure", f, "module not imported", program(), prog(&format!("{f}.m::f")), Expect::Err);
        one("undefined_procedure", f, "module not in any library", program(), format!("use.lx::zz begin {f}.zz::f end"), Expect::Err);
        one(
            "undefined_procedure",
            f,
            "defined earlier in the same module (positive control)",
            Target::Library { kernel: None },
            format!("export.f push.1 end export.g {f}.f end"),
            Expect::Ok,
        );
    }
    one("undefined_procedure", "exec", "name missing from library module", Target::Library { kernel: None }, "export.g push.1 end".into(), Expect::Err);
    one("undefined_procedure", "exec", "internal procedure of library module", Target::Library { kernel: None }, "export.g push.1 end proc.f push.2 end".into(), Expect::Err);
    one("duplicate_procedure", "proc", "two procs, one name", program(), "proc.a push.1 end proc.a push.2 end begin exec.a end".into(), Expect::Err);
    one("duplicate_procedure", "proc", "identical twins", program(), "proc.a push.1 end proc.a push.1 end begin exec.a end".into(), Expect::Err);
    one("duplicate_procedure", "export", "two exports, one name", Target::Library { kernel: None }, "export.f push.1 end export.f push.2 end".into(), Expect::Err);
    one("duplicate_procedure", "export", "proc and export, one name", Target::Library { kernel: None }, "proc.f push.1 end export.f push.2 end".into(), Expect::Err);
    one("duplicate_procedure", "export", "two kernel exports, one name", Target::Kernel, "export.k push.1 end export.k push.2 end".into(), Expect::Err);
    one("program_shape", "begin", "no begin", program(), "proc.a push.1 end".into(), Expect::Err);
    one("program_shape", "begin", "two begins", program(), "begin push.1 end begin push.2 end".into(), Expect::Err);
    one("program_shape", "begin", "unterminated", program(), "begin push.1".into(), Expect::Err);
    one("program_shape", "begin", "proc after begin", program(), "begin push.1 end proc.a push.1 end".into(), Expect::Err);
    one("program_shape", "begin", "empty source", program(), "".into(), Expect::Err);
    one("program_shape", "begin", "empty body (not documented)", program(), "begin end".into(), Expect::NoPanic);
    one("program_shape", "if", "if without condition", program(), "begin push.1 if push.2 end end".into(), Expect::Err);
    one("program_shape", "if", "else without if", program(), "begin push.1 else push.2 end end".into(), Expect::Err);
    one("program_shape", "use", "use inside body", program(), "begin use.lx::m push.1 end".into(), Expect::Err);

    // ---- decorators (emit / trace / debug / advice injectors) where no operation precedes them in the span
    for f in ["emit.1", "trace.1", "adv.push_mapval", "adv.insert_hperm", "debug.stack", "debug.mem", "debug.local", "breakpoint"] {
        // bodies consisting only of decorators: accepted or rejected, but never a panic
        one("decorator_only_span", f, "whole body", program(), prog(f), Expect::NoPanic);
        one("decorator_only_span", f, "whole procedure", program(), format!("proc.h {f} end begin push.1 exec.h end"), Expect::NoPanic);
        one("decorator_only_span", f, "whole if branch", program(), format!("begin push.1 if.true {f} else push.2 end end"), Expect::NoPanic);
        one("decorator_only_span", f, "whole else branch", program(), format!("begin push.1 if.true push.2 else {f} end end"), Expect::NoPanic);
        one("decorator_only_span", f, "whole while body", program(), format!("begin push.0 while.true {f} end end"), Expect::NoPanic);
        one("decorator_only_span", f, "whole repeat body", program(), format!("begin repeat.2 {f} end end"), Expect::NoPanic);
        one("decorator_only_span", f, "whole exported library procedure", Target::Library { kernel: None }, format!("export.f {f} end"), Expect::NoPanic);
        one("decorator_only_span", f, "whole kernel procedure", Target::Kernel, format!("export.k {f} end"), Expect::NoPanic);
        // a decorator in front of a control-flow block of a body that does contain operations
        one("decorator_only_span", f, "before exec", program(), format!("proc.h push.1 end begin {f} exec.h end"), Expect::Ok);
        one("decorator_only_span", f, "before call", program(), format!("proc.h push.1 end begin {f} call.h end"), Expect::Ok);
        one("decorator_only_span", f, "before if", program(), format!("begin {f} if.true push.1 end end"), Expect::Ok);
        one("decorator_only_span", f, "before while", program(), format!("begin {f} while.true push.0 end end"), Expect::Ok);
        one("decorator_only_span", f, "before repeat", program(), format!("begin {f} repeat.2 push.0 end end"), Expect::NoPanic);
        one("decorator_only_span", f, "between exec and exec", program(), format!("proc.h push.1 end begin exec.h {f} exec.h end"), Expect::Ok);
        one("decorator_only_span", f, "after the last block", program(), format!("proc.h push.1 end begin exec.h {f} end"), Expect::Ok);
        one("decorator_only_span", f, "after an operation (control)", program(), format!("begin push.1 {f} end"), Expect::Ok);
        one("decorator_only_span", f, "after an operation, before exec (control)", program(), format!("proc.h push.1 end begin push.1 {f} exec.h end"), Expect::Ok);
    }

    // ---- constants: value in [0, p-1], decimal / hex / arithmetic expression over + - * / // ( )
    let cst = |e: &str| format!("const.A={e} begin push.A end");
    for (point, e, expect) in [
        ("lowest", "0".to_string(), Expect::Ok),
        ("highest", (p - 1).to_string(), Expect::Ok),
        ("highest+1", p.to_string(), Expect::Err),
        ("2^64", "18446744073709551616".to_string(), Expect::Err),
        ("hex", "0x0a".to_string(), Expect::Ok),
        ("expression", "2*3+(10-4)//2".to_string(), Expect::Ok),
        ("field division", "6/3".to_string(), Expect::Ok),
        ("integer division by zero", "6//0".to_string(), Expect::Err),
        ("field division by zero", "6/0".to_string(), Expect::Err),
        ("division by zero expression", "6/(3-3)".to_string(), Expect::Err),
        ("undefined constant in expression", "B+1".to_string(), Expect::Err),
        ("empty", "".to_string(), Expect::Err),
        ("dangling operator", "1+".to_string(), Expect::Err),
        ("leading operator", "*2".to_string(), Expect::Err),
        ("double operator", "1+*2".to_string(), Expect::Err),
        ("unmatched )", "1)".to_string(), Expect::Err),
        ("unmatched (", "(1".to_string(), Expect::Err),
        ("empty parentheses", "()".to_string(), Expect::Err),
        ("two values", "(1)(2)".to_string(), Expect::Err),
        ("negative literal (not documented)", "-1".to_string(), Expect::NoPanic),
        ("two equal signs", "1=2".to_string(), Expect::Err),
    ] {
        one("constant_expression", "const", point, program(), cst(&e), expect);
    }
    one("constant_expression", "const", "lower-case name", program(), "const.a=1 begin push.1 end".into(), Expect::Err);
    one("constant_expression", "const", "declared twice", program(), "const.A=1 const.A=2 begin push.A end".into(), Expect::Err);
    one("constant_expression", "const", "declared inside body", program(), "begin const.A=1 push.A end".into(), Expect::Err);
    one("constant_expression", "const", "reference to earlier constant", program(), "const.A=3 const.B=A*2 begin push.B end".into(), Expect::Ok);
    // constants as parameters keep the parameter's own range
    one("constant_param", "mem_load", "highest", program(), "const.A=4294967295 begin mem_load.A end".into(), Expect::Ok);
    one("constant_param", "mem_load", "highest+1", program(), "const.A=4294967296 begin mem_load.A end".into(), Expect::Err);
    one("constant_param", "assert", "highest", program(), "const.A=4294967295 begin push.1 assert.err=A end".into(), Expect::Ok);
    one("constant_param", "assert", "highest+1", program(), "const.A=4294967296 begin push.1 assert.err=A end".into(), Expect::Err);
    one("constant_param", "loc_load", "index = locals", program(), "const.A=1 proc.x.1 loc_load.A end begin exec.x end".into(), Expect::Err);
    one("constant_param", "loc_load", "index = locals-1", program(), "const.A=0 proc.x.1 loc_load.A end begin exec.x end".into(), Expect::Ok);
    one("constant_param", "locaddr", "2^16", program(), "const.A=65536 proc.x.1 locaddr.A end begin exec.x end".into(), Expect::Err);
    one("constant_param", "emit", "highest+1", program(), "const.A=4294967296 begin push.1 emit.A end".into(), Expect::Err);
    one("constant_param", "push", "undefined", program(), "const.A=1 begin push.B end".into(), Expect::Err);
    // control-flow keywords
    for (point, src, expect) in [
        ("if.true", "begin push.1 if.true push.2 end end", Expect::Ok),
        ("if.false (not documented)", "begin push.1 if.false push.2 end end", Expect::NoPanic),
        ("if.1", "begin push.1 if.1 push.2 end end", Expect::Err),
        ("if.true.true", "begin push.1 if.true.true push.2 end end", Expect::Err),
        ("while.true", "begin push.0 while.true push.0 end end", Expect::Ok),
        ("while", "begin push.0 while push.0 end end", Expect::Err),
        ("while.false", "begin push.0 while.false push.0 end end", Expect::Err),
        ("end.1", "begin push.0 end.1", Expect::Err),
        ("begin.1", "begin.1 push.0 end", Expect::Err),
        ("else.1", "begin push.1 if.true push.2 else.1 push.3 end end", Expect::Err),
    ] {
        one("control_flow_keyword", "-", point, program(), src.into(), expect);
    }

    // ---- zero-immediate divisions
    for f in ["div", "u32div", "u32mod", "u32divmod"] {
        one("zero_division", f, "immediate 0", program(), prog(&format!("push.8 {f}.0")), Expect::Err);
        one("zero_division", f, "immediate 00", program(), prog(&format!("push.8 {f}.00")), Expect::Err);
        one("zero_division", f, "immediate 1", program(), prog(&format!("push.8 {f}.1")), Expect::Ok);
        one("zero_division", f, "no immediate", program(), prog(&format!("push.8 push.2 {f}")), Expect::Ok);
    }
    v
}

#[derive(Clone, Debug)]
enum EObs {
    Ok,
    Err(String, String),
    Panic(String),
}

fn lx(module_src: &str) -> Result<MaslLibrary, String> {
    let ast = ModuleAst::parse(module_src).map_err(|e| format!("{e}"))?;
    Ok(library("lx", vec![Module::new(LibraryPath::new("lx::m").expect("path"), ast)]))
}

fn e_run(c: &ECase, debug: bool) -> EObs {
    let r = guard::catch(|| -> Result<(), (String, String)> {
        let ev = |e: assembly::AssemblyError| (err_variant(&format!("{e:?}")), format!("{e}"));
        let base = Assembler::default().with_debug_mode(debug);
        match &c.target {
            Target::Program { kernel } => {
                let a = match kernel {
                    Some(k) => base.with_kernel(k).expect("SUBJECT: part E kernel must assemble"),
                    None => base,
                };
                a.compile(&c.src).map(|_| ()).map_err(ev)
            }
            Target::Kernel => base.with_kernel(&c.src).map(|_| ()).map_err(ev),
            Target::Library { kernel } => {
                // a module which does not parse is an Err observation as well
                let lib = lx(&c.src).map_err(|m| ("ParsingError".to_string(), m))?;
                let a = base.with_library(&lib).map_err(ev)?;
                let a = match kernel {
                    Some(k) => a.with_kernel(k).expect("SUBJECT: part E kernel must assemble"),
                    None => a,
                };
                a.compile("use.lx::m begin exec.m::f end").map(|_| ()).map_err(ev)
            }
            Target::KernelWithLibrary { module } => {
                let lib = lx(module).map_err(|m| ("ParsingError".to_string(), m))?;
                let a = base.with_library(&lib).map_err(ev)?;
                a.with_kernel(&c.src).map(|_| ()).map_err(ev)
            }
        }
    });
    match r {
        Err(p) => EObs::Panic(p),
        Ok(Ok(())) => EObs::Ok,
        Ok(Err((v, m))) => EObs::Err(v, m),
    }
}

fn e_case_json(c: &ECase, debug: bool) -> Value {
    let (target, kernel, module) = match &c.target {
        Target::Program { kernel } => ("program", kernel.clone(), None),
        Target::Kernel => ("kernel", None, None),
        Target::Library { kernel } => ("library", kernel.clone(), None),
        Target::KernelWithLibrary { module } => ("kernel_with_library", None, Some(module.clone())),
    };
    json!({
        "part": "E", "class": c.class, "family": c.family, "point": c.point, "target": target,
        "kernel": kernel, "module": module, "src": c.src, "debug": debug,
        "expect": match c.expect { Expect::Ok => "ok", Expect::Err => "err", Expect::NoPanic => "no_panic" },
    })
}

fn e_case_from_json(v: &Value) -> (ECase, bool) {
    let s = |k: &str| v[k].as_str().map(String::from);
    let target = match v["target"].as_str().expect("target") {
        "program" => Target::Program { kernel: s("kernel") },
        "kernel" => Target::Kernel,
        "library" => Target::Library { kernel: s("kernel") },
        _ => Target::KernelWithLibrary { module: s("module").expect("module") },
    };
    let class: &'static str = Box::leak(s("class").expect("class").into_boxed_str());
    (
        ECase {
            class,
            family: s("family").expect("family"),
            point: s("point").expect("point"),
            target,
            src: s("src").expect("src"),
            expect: match v["expect"].as_str() {
                Some("ok") => Expect::Ok,
                Some("err") => Expect::Err,
                _ => Expect::NoPanic,
            },
        },
        v["debug"].as_bool().unwrap_or(false),
    )
}

/// oracle of part E; returns the failure (if any) and the outcome class
fn e_check(c: &ECase, debug: bool, obs: &EObs) -> Option<Fail> {
    let mk = |kind: &str, wher: &str, detail: String| Fail {
        signature: json!({"part": "E", "kind": kind, "class": c.class, "family": c.family, "point": c.point, "where": wher}),
        summary: format!("{} [{}{}] expected {:?}: {detail}", c.src, match &c.target {
            Target::Program { kernel: None } => "program",
            Target::Program { .. } => "program+kernel",
            Target::Kernel => "kernel module",
            Target::Library { .. } => "library module lx::m",
            Target::KernelWithLibrary { .. } => "kernel module using lx::m",
        }, if debug { ", debug mode" } else { "" }, c.expect),
        case: e_case_json(c, debug),
    };
    match (obs, c.expect) {
        (EObs::Panic(p), _) => {
            Some(mk("panic", &panic_file(p), format!("panicked: {}", guard::short_panic(p))))
        }
        (EObs::Ok, Expect::Err) => Some(mk("accepted_invalid", "-", "assembled successfully".into())),
        (EObs::Err(v, m), Expect::Ok) => Some(mk("rejected_valid", "-", format!("rejected: {v}: {m}"))),
        _ => None,
    }
}

// ================================================================================================
// part K: assemblers with a kernel that shares library code with programs
// ================================================================================================
//
// The kernel is part of an assembler's construction history: `with_kernel` compiles the kernel
// module with the procedure cache as it is at that moment, and everything it compiles stays in the
// cache for the programs that follow. All combinations of
//   library module lx::m (6 bodies of the exported procedure f) x
//   compilations BEFORE `with_kernel` (none / a program that execs f / a program that calls f) x
//   kernel source (execs f / re-exports f / re-exports f under another name / does not use m) x
//   program compiled afterwards (7)
// are enumerated. Oracles: (a) the verdict on the kernel and the kernel's procedure hashes do not
// depend on what was compiled before; (b) the documented verdict on the kernel (a `call` reachable
// in a kernel procedure is refused); (c) the documented verdict on each program (in particular
// `caller` reachable outside a kernel is refused, whatever the kernel did with the same module);
// (d) every syscall target of an assembled program is a procedure of its kernel and the program
// runs without a missing-procedure error.

const K_MODULES: [(&str, &str); 6] = [
    ("plain", "export.f push.1 add end"),
    ("call_local", "proc.h push.1 add end export.f call.h end"),
    ("exec_of_call", "proc.h push.1 add end proc.g call.h end export.f exec.g end"),
    ("procref_local", "proc.h push.1 add end export.f procref.h dropw end"),
    ("caller", "export.f caller dropw end"),
    ("exec_of_caller", "proc.g caller dropw end export.f exec.g end"),
];
const K_PRE: [(&str, Option<&str>); 3] = [
    ("none", None),
    ("program execs m::f", Some("use.lx::m begin exec.m::f end")),
    ("program calls m::f", Some("use.lx::m begin call.m::f end")),
];
const K_KERNELS: [(&str, &str); 4] = [
    ("execs m::f", "use.lx::m export.k exec.m::f end"),
    ("re-exports m::f", "use.lx::m export.m::f export.k push.2 add end"),
    ("re-exports m::f as g", "use.lx::m export.m::f->g export.k push.2 add end"),
    ("independent of m", "export.k push.2 add end"),
];
const K_PROGRAMS: [(&str, &str); 7] = [
    ("syscall.k", "begin syscall.k end"),
    ("syscall.f", "begin syscall.f end"),
    ("syscall.g", "begin syscall.g end"),
    ("syscall.f in a called procedure", "proc.p syscall.f end begin call.p end"),
    ("exec.m::f", "use.lx::m begin exec.m::f end"),
    ("call.m::f", "use.lx::m begin call.m::f end"),
    ("syscall.k then exec.m::f", "use.lx::m begin syscall.k exec.m::f end"),
];

#[derive(Clone, Debug, PartialEq)]
enum KV {
    Ok(Vec<String>),
    Err(String, String),
    Panic(String),
}

impl KV {
    fn class(&self) -> &'static str {
        match self {
            KV::Ok(_) => "ok",
            KV::Err(..) => "err",
            KV::Panic(_) => "panic",
        }
    }
    fn brief(&self) -> String {
        match self {
            KV::Ok(h) => format!("Ok({} kernel procedures)", h.len()),
            KV::Err(v, m) => format!("Err({v}: {m})"),
            KV::Panic(p) => format!("PANIC {}", guard::short_panic(p)),
        }
    }
}

/// builds library + pre-history + kernel; returns the verdict on the kernel and the assembler
fn k_build(mi: usize, pi: usize, ki: usize, debug: bool) -> (KV, Option<Assembler>) {
    let r = guard::catch(|| -> Result<Assembler, (String, String)> {
        let ev = |e: assembly::AssemblyError| (err_variant(&format!("{e:?}")), format!("{e}"));
        let lib = lx(K_MODULES[mi].1).expect("SUBJECT: part K library module must parse");
        let a = Assembler::default().with_debug_mode(debug).with_library(&lib).map_err(ev)?;
        if let Some(p) = K_PRE[pi].1 {
            let _ = a.compile(p); // verdict judged elsewhere (program after an independent kernel)
        }
        a.with_kernel(K_KERNELS[ki].1).map_err(ev)
    });
    match r {
        Err(p) => (KV::Panic(p), None),
        Ok(Err((v, m))) => (KV::Err(v, m), None),
        Ok(Ok(a)) => (KV::Ok(a.kernel().proc_hashes().iter().map(hex).collect()), Some(a)),
    }
}

fn k_case(mi: usize, pi: usize, ki: usize, gi: Option<usize>, debug: bool) -> Value {
    json!({"part": "K", "module": K_MODULES[mi].0, "module_src": K_MODULES[mi].1, "before_kernel": K_PRE[pi].0,
           "before_kernel_src": K_PRE[pi].1, "kernel": K_KERNELS[ki].0, "kernel_src": K_KERNELS[ki].1,
           "program": gi.map(|g| K_PROGRAMS[g].0), "program_src": gi.map(|g| K_PROGRAMS[g].1), "debug": debug})
}

fn k_check(mi: usize, pi: usize, ki: usize, debug: bool, only_program: Option<usize>, verbose: bool) -> (Vec<Fail>, u64) {
    let mut fails = vec![];
    let mut compiled = 0u64;
    let (mname, _) = K_MODULES[mi];
    let has_call = matches!(mname, "call_local" | "exec_of_call");
    let has_caller = matches!(mname, "caller" | "exec_of_caller");
    let uses_m = ki != 3;
    let mk = |kind: &str, gi: Option<usize>, detail: String| Fail {
        signature: json!({"part": "K", "kind": kind, "module": mname, "before_kernel": K_PRE[pi].0, "kernel": K_KERNELS[ki].0,
                          "program": gi.map(|g| K_PROGRAMS[g].0)}),
        summary: format!(
            "lx::m = `{}`; before with_kernel: {}; kernel `{}`{}{}: {detail}",
            K_MODULES[mi].1,
            K_PRE[pi].0,
            K_KERNELS[ki].1,
            gi.map(|g| format!("; program `{}`", K_PROGRAMS[g].1)).unwrap_or_default(),
            if debug { " [debug mode]" } else { "" }
        ),
        case: k_case(mi, pi, ki, gi, debug),
    };
    let (kv, asm) = k_build(mi, pi, ki, debug);
    if verbose {
        println!("kernel verdict: {}", kv.brief());
    }
    if only_program.is_none() {
        if let KV::Panic(p) = &kv {
            fails.push(mk("panic", None, format!("with_kernel panicked: {}", guard::short_panic(p))));
        }
        // (a) no dependence on what was compiled before
        if pi != 0 {
            let (fresh, _) = k_build(mi, 0, ki, debug);
            if verbose {
                println!("kernel verdict without the earlier compilation: {}", fresh.brief());
            }
            if fresh.class() != kv.class() || matches!((&fresh, &kv), (KV::Ok(a), KV::Ok(b)) if a != b) {
                fails.push(mk("kernel_depends_on_history", None, format!("without the earlier compilation: {} ; with it: {}", fresh.brief(), kv.brief())));
            }
        }
        // (b) documented verdict
        if uses_m && has_call && kv.class() == "ok" {
            fails.push(mk("call_in_kernel_accepted", None, "a kernel procedure with a reachable `call` was accepted".into()));
        }
        if (!uses_m || mname == "plain" || (has_caller && ki == 0)) && kv.class() == "err" {
            fails.push(mk("valid_kernel_rejected", None, kv.brief()));
        }
    }
    let Some(asm) = asm else { return (fails, compiled) };
    let KV::Ok(khashes) = &kv else { unreachable!() };
    for (gi, (gname, gsrc)) in K_PROGRAMS.iter().enumerate() {
        if only_program.is_some() && only_program != Some(gi) {
            continue;
        }
        compiled += 1;
        let r = guard::catch(|| asm.compile(gsrc));
        // (c) documented verdict on the program
        let sys_f = gname.contains("syscall.f");
        let sys_g = gname.contains("syscall.g");
        let uses_f = gname.contains("m::f");
        let expect_ok = if sys_f {
            ki == 1
        } else if sys_g {
            ki == 2
        } else if uses_f {
            !has_caller
        } else {
            true
        };
        match r {
            Err(p) => fails.push(mk("panic", Some(gi), format!("compile panicked: {}", guard::short_panic(&p)))),
            Ok(Err(e)) => {
                if verbose {
                    println!("program `{gsrc}`: Err({e})");
                }
                if expect_ok {
                    fails.push(mk("valid_program_rejected", Some(gi), format!("{e}")));
                }
            }
            Ok(Ok(prog)) => {
                if verbose {
                    println!("program `{gsrc}`: assembled, root {}", hex(&prog.hash()));
                }
                if !expect_ok {
                    let why = if uses_f { "`caller` is reachable outside a kernel" } else { "the syscall target is not a kernel procedure" };
                    fails.push(mk("accepted_invalid", Some(gi), format!("assembled although {why}")));
                }
                // (d) self-contained
                let pk: Vec<String> = prog.kernel().proc_hashes().iter().map(hex).collect();
                if &pk != khashes {
                    fails.push(mk("program_kernel_differs_from_assembler_kernel", Some(gi), format!("{pk:?} / {khashes:?}")));
                }
                let mut w = Walk::default();
                walk(prog.root(), &prog, &mut w);
                if !w.syscalls_not_in_kernel.is_empty() {
                    fails.push(mk("syscall_target_not_in_kernel", Some(gi), format!("syscall targets {:?} are not among the kernel procedures {pk:?}", w.syscalls_not_in_kernel)));
                }
                if !w.missing_calls.is_empty() || !w.missing_syscalls.is_empty() {
                    fails.push(mk("call_target_missing", Some(gi), format!("calls {:?} syscalls {:?} have no body in the code-block table", w.missing_calls, w.missing_syscalls)));
                }
                if expect_ok {
                    match run_program(&prog, &FIXED_STACK, &[]) {
                        Outcome::Ok(_) | Outcome::AsmErr(_) => {}
                        Outcome::Panic(p) => fails.push(mk("panic", Some(gi), format!("execution panicked: {}", guard::short_panic(&p)))),
                        Outcome::Err(e) => {
                            let v = err_variant(&e);
                            if verbose {
                                println!("   execution: {e}");
                            }
                            if matches!(v.as_str(), "SyscallTargetNotInKernel" | "CodeBlockNotFound" | "DynamicCodeBlockNotFound") {
                                fails.push(mk("missing_at_run_time", Some(gi), e));
                            } else {
                                fails.push(mk("unexpected_execution_error", Some(gi), e));
                            }
                        }
                    }
                }
            }
        }
    }
    (fails, compiled)
}

// ================================================================================================
// entry point
// ================================================================================================

pub fn run(ctx: &Ctx, replay: Option<&Value>) -> i32 {
    let known = load_known(&ctx.root, &ctx.prop);
    if let Some(case) = replay {
        return run_replay(ctx, case, known);
    }
    let max_len = ctx.tier.pick(2usize, 3usize);
    let u = build_universe();
    let m = Machine::new(u, max_len, known);
    let n = m.u.sources.len();
    let pool: Vec<&'static str> = m.u.sources.iter().map(|s| s.name).collect();

    // ---- part S: references
    for (path, src, e) in &m.u.root_failures {
        ctx.fail(
            json!({"part": "S", "kind": "valid_source_rejected", "source": format!("exec of {path}")}),
            format!("a fresh assembler (L1,L2; no kernel) refuses the valid program `{src}`: {e}"),
            json!({"part": "S-root", "path": path, "src": src}),
        );
    }
    let fresh_fails = m.check_fresh();
    for f in &fresh_fails {
        ctx.fail(f.signature.clone(), f.summary.clone(), f.case.clone());
    }
    let mut fresh_hist: BTreeMap<String, u64> = BTreeMap::new();
    for per in &m.fresh {
        for v in per {
            *fresh_hist.entry(v.kind()).or_insert(0) += 1;
        }
    }

    // ---- part S: all histories, all configurations
    let hists = histories(n, max_len);
    let nodes: Vec<(usize, &Vec<usize>)> =
        (0..m.configs.len()).flat_map(|ci| hists.iter().map(move |h| (ci, h))).collect();
    // determinism of the machinery: the first 50 nodes are evaluated twice
    for &(ci, h) in nodes.iter().take(50) {
        let (a, b) = (m.check_node(ci, h, true), m.check_node(ci, h, true));
        assert!(
            a.class == b.class && a.fails.len() == b.fails.len(),
            "machinery is not deterministic on config {ci} history {h:?}"
        );
    }
    let reports: Vec<NodeReport> = nodes.par_iter().map(|&(ci, h)| m.check_node(ci, h, true)).collect();
    let mut class_hist: BTreeMap<String, u64> = BTreeMap::new();
    let mut cache_dependent = 0u64;
    let mut failing_nodes: BTreeSet<(usize, Vec<usize>)> = BTreeSet::new();
    let mut unexplained_nodes: BTreeSet<(usize, Vec<usize>)> = BTreeSet::new();
    for (rep, &(ci, h)) in reports.iter().zip(nodes.iter()) {
        *class_hist.entry(rep.class.clone()).or_insert(0) += 1;
        cache_dependent += rep.cache_dependent as u64;
        if !rep.fails.is_empty() {
            failing_nodes.insert((ci, h.clone()));
            if m.unexplained(&rep.fails) {
                unexplained_nodes.insert((ci, h.clone()));
            }
        }
        for f in &rep.fails {
            ctx.fail(f.signature.clone(), f.summary.clone(), f.case.clone());
        }
    }
    let states = (nodes.len() + m.configs.len()) as u64;
    let transitions = nodes.len() as u64;
    let expected_states = m.configs.len() as u64 * mcx::space::sequences_card(n, 0, max_len);
    assert_eq!(states, expected_states, "history tree not enumerated completely");
    for &(ci, h) in nodes.iter().step_by(nodes.len() / 5 + 1) {
        let rep = m.check_node(ci, h, true);
        ctx.sample(json!({"part": "S", "config": m.configs[ci].json(),
                          "history": h.iter().map(|&i| m.u.sources[i].name).collect::<Vec<_>>(), "class": rep.class}));
    }

    // ---- part E
    let ecases = e_cases(&m.u);
    let eruns: Vec<(usize, bool)> = (0..ecases.len()).flat_map(|i| [(i, false), (i, true)]).collect();
    let eobs: Vec<EObs> = eruns.par_iter().map(|&(i, d)| e_run(&ecases[i], d)).collect();
    let mut e_hist: BTreeMap<String, BTreeMap<&'static str, u64>> = BTreeMap::new();
    let (mut e_acc, mut e_rej, mut e_panic) = (0u64, 0u64, 0u64);
    let mut e_err_variants: BTreeMap<String, u64> = BTreeMap::new();
    for (&(i, d), obs) in eruns.iter().zip(eobs.iter()) {
        let c = &ecases[i];
        let h = e_hist.entry(c.class.to_string()).or_default();
        *h.entry("cases").or_insert(0) += 1;
        match obs {
            EObs::Ok => {
                e_acc += 1;
                *h.entry("accepted").or_insert(0) += 1;
            }
            EObs::Err(v, _) => {
                e_rej += 1;
                *h.entry("rejected").or_insert(0) += 1;
                *e_err_variants.entry(v.clone()).or_insert(0) += 1;
            }
            EObs::Panic(_) => {
                e_panic += 1;
                *h.entry("panicked").or_insert(0) += 1;
            }
        }
        match c.expect {
            Expect::Ok => *h.entry("expected_ok").or_insert(0) += 1,
            Expect::Err => *h.entry("expected_err").or_insert(0) += 1,
            Expect::NoPanic => *h.entry("expected_no_panic_only").or_insert(0) += 1,
        }
        if let Some(f) = e_check(c, d, obs) {
            ctx.fail(f.signature, f.summary, f.case);
        }
    }
    for &(i, d) in eruns.iter().step_by(eruns.len() / 3 + 1) {
        ctx.sample(e_case_json(&ecases[i], d));
    }

    // ---- part K
    let kgrid: Vec<(usize, usize, usize, bool)> = (0..K_MODULES.len())
        .flat_map(|mi| (0..K_PRE.len()).flat_map(move |pi| (0..K_KERNELS.len()).flat_map(move |ki| [(mi, pi, ki, false), (mi, pi, ki, true)])))
        .collect();
    let kres: Vec<(Vec<Fail>, u64)> = kgrid.par_iter().map(|&(mi, pi, ki, d)| k_check(mi, pi, ki, d, None, false)).collect();
    let mut k_programs = 0u64;
    let mut k_kinds: BTreeMap<String, u64> = BTreeMap::new();
    for (fails, n) in kres {
        k_programs += n;
        for f in fails {
            *k_kinds.entry(f.signature["kind"].as_str().unwrap_or("?").to_string()).or_insert(0) += 1;
            ctx.fail(f.signature, f.summary, f.case);
        }
    }
    ctx.sample(k_case(1, 1, 0, None, false));

    // ---- cross-check of the explorer with stateright (thorough tier)
    let mut sr_json = json!({"run": false, "reason": "thorough tier only"});
    if ctx.tier == Tier::Thorough {
        use stateright::{Checker, Model};
        let t0 = std::time::Instant::now();
        let configs = m.configs.clone();
        let names: Vec<&'static str> = m.u.sources.iter().map(|s| s.name).collect();
        let checker = sr::HistoryModel(m).checker().threads(1).spawn_bfs().join();
        let unique = checker.unique_state_count() as u64;
        let discovery = checker.discovery("oracle");
        let sr_verdict_clean = discovery.is_none();
        let own_verdict_clean = unexplained_nodes.is_empty();
        sr_json = json!({
            "run": true, "threads": 1, "unique_states": unique, "generated_states": checker.state_count(),
            "max_depth": checker.max_depth(), "own_states": states,
            "verdict_clean": sr_verdict_clean, "own_verdict_clean": own_verdict_clean,
            "wall_s": t0.elapsed().as_secs_f64(),
        });
        match discovery {
            None => {
                assert!(own_verdict_clean, "stateright found no violating state but the own enumeration did: {unexplained_nodes:?}");
                assert_eq!(unique, states, "stateright and the own enumeration disagree on the number of states");
            }
            Some(path) => {
                let last = path.last_state().clone();
                let key = (last.0 as usize, last.1.iter().map(|&x| x as usize).collect::<Vec<_>>());
                sr_json["discovery"] = json!({"config": configs[key.0].json(),
                                              "history": key.1.iter().map(|&i| names[i]).collect::<Vec<_>>()});
                assert!(
                    unexplained_nodes.contains(&key),
                    "stateright reports a violating state the own enumeration did not flag: {key:?}"
                );
            }
        }
    }

    let cov = json!({
        "states": states,
        "transitions": transitions,
        "traces_validated_against_impl": transitions,
        "exhaustive": true,
        "part_S": {
            "configurations": Config::all().iter().map(|c| c.tag()).collect::<Vec<_>>(),
            "sources": n,
            "source_pool": pool,
            "max_history_length": max_len,
            "histories_per_configuration": hists.len() + 1,
            "fresh_verdicts": fresh_hist,
            "node_classes (fresh verdict -> verdict after history)": class_hist,
            "cache_dependent": cache_dependent,
            "failing_states": failing_nodes.len(),
            "failing_states_not_explained_by_known_findings": unexplained_nodes.len(),
            "fresh_phase_failures": fresh_fails.len(),
            "compilations_executed_including_rematerialisation": hists.iter().map(|h| h.len() as u64).sum::<u64>() * Config::all().len() as u64,
        },
        "stateright_cross_check": sr_json,
        "part_E": {
            "cases": eruns.len(),
            "distinct_sources": ecases.len(),
            "assemblers": ["debug off", "debug on"],
            "accepted": e_acc,
            "rejected": e_rej,
            "panicked": e_panic,
            "per_class": e_hist,
            "error_variants": e_err_variants,
            "grid": "every parameterised instruction form x {lowest-1, lowest, highest, highest+1}; local index {0,n-1,n,65535,65536} x locals n in {0,1,2,65535} x {procedure, begin}; call/syscall/caller/exec/dyn* in kernel, program, library; export in executable; undefined/duplicate procedures; zero immediates of div/u32div/u32mod/u32divmod",
            "profile": if cfg!(debug_assertions) { "checked (debug-assertions, overflow-checks)" } else { "release" },
        },
        "part_K": {
            "library_modules": K_MODULES.iter().map(|x| x.0).collect::<Vec<_>>(),
            "compilations_before_with_kernel": K_PRE.iter().map(|x| x.0).collect::<Vec<_>>(),
            "kernels": K_KERNELS.iter().map(|x| x.0).collect::<Vec<_>>(),
            "programs": K_PROGRAMS.iter().map(|x| x.0).collect::<Vec<_>>(),
            "assembler_constructions": kgrid.len(),
            "programs_compiled_after_with_kernel": k_programs,
            "failures_by_kind (including recorded findings)": k_kinds,
        },
        "bounds": format!("{} sources, {} configurations, histories of length <= {}", n, Config::all().len(), max_len),
    });
    ctx.finish(
        "model_checking",
        cov,
        &[
            "the verdict of a fresh assembler of the same configuration is the reference for a source",
            "the code-block table has no iterator: equality of tables is decided on their Debug rendering, the root sets reported are measured by probing with every digest seen in any reference program",
            "MAST roots of library procedures used by the closure check are computed by the assembler itself (correctness of the hash is C08)",
            "fixed execution inputs (stack 5..12 on top, empty advice)",
            "source pool and libraries are fixed and finite; other sources are not covered",
        ],
    )
}

fn run_replay(ctx: &Ctx, case: &Value, known: Vec<Known>) -> i32 {
    match case["part"].as_str() {
        Some("E") => {
            let (c, debug) = e_case_from_json(case);
            let obs = e_run(&c, debug);
            println!("source: {}", c.src);
            println!("target: {:?}  debug mode: {debug}", c.target);
            println!("observed: {obs:?}");
            println!("expected: {:?} (class {}, family {}, point {})", c.expect, c.class, c.family, c.point);
            if let Some(f) = e_check(&c, debug, &obs) {
                ctx.fail(f.signature, f.summary, f.case);
            }
        }
        Some("S") => {
            let u = build_universe();
            let m = Machine::new(u, 3, known);
            let cfg = Config::from_json(&case["config"]);
            let ci = m.configs.iter().position(|c| *c == cfg).expect("config");
            let hist: Vec<usize> = case["history"]
                .as_array()
                .expect("history")
                .iter()
                .map(|nm| {
                    m.u.sources
                        .iter()
                        .position(|s| Some(s.name) == nm.as_str())
                        .unwrap_or_else(|| panic!("replay file names a source this build does not have: {nm}"))
                })
                .collect();
            for (k, &i) in hist.iter().enumerate() {
                assert_eq!(
                    Some(m.u.sources[i].text.as_str()),
                    case["history_sources"][k].as_str(),
                    "replay file was recorded with a different source text for {}",
                    m.u.sources[i].name
                );
            }
            println!("configuration: {}", cfg.json());
            println!("kernel module (configurations with a kernel):\n{KERNEL_SRC}");
            for (path, text) in [("l1::base", L1_BASE), ("l1::b", L1_B), ("l1::util", L1_UTIL), ("l2::re", L2_RE), ("l2::deep", L2_DEEP),
                                 ("l2::nest", L2_NEST), ("l2::util", L2_UTIL), ("l2::half", L2_HALF)] {
                println!("library module {path}:\n{text}");
            }
            println!("library module l1::a:\nexport.p2 push.<the four elements of the MAST root of l1::base::foo = {}> end\n", hex(&m.u.foo_root));
            for (k, &i) in hist.iter().enumerate() {
                println!("compile #{k}: {} :: {}", m.u.sources[i].name, m.u.sources[i].text);
            }
            let si = *hist.last().expect("non-empty history");
            println!("fresh assembler  : {}", m.fresh[ci][si].brief());
            if let Verdict::Ok(c) = &m.fresh[ci][si] {
                println!("   cb_table roots : {:?}", table_roots(&c.program, &m.probes));
            }
            let asm = build_assembler(&m.u, cfg).expect("assembler");
            for &h in &hist[..hist.len() - 1] {
                let r = compile_once(&m.u, &asm, h, false);
                println!("   after {} -> {}", m.u.sources[h].name, r.brief());
            }
            let got = compile_once(&m.u, &asm, si, true);
            println!("after the history: {}", got.brief());
            if let Verdict::Ok(c) = &got {
                println!("   cb_table roots : {:?}", table_roots(&c.program, &m.probes));
                println!("   missing call targets {:?}, missing procref targets {:?}", c.walk.missing_calls, c.missing_procrefs);
            }
            println!("expected: the same verdict, program and execution outcome as on the fresh assembler");
            if hist.len() == 1 {
                for f in m.check_fresh() {
                    if f.case == m.case_json(ci, &hist) {
                        ctx.fail(f.signature, f.summary, f.case);
                    }
                }
            }
            for f in m.check_node(ci, &hist, true).fails {
                ctx.fail(f.signature, f.summary, f.case);
            }
        }
        Some("S-root") => {
            let u = build_universe();
            println!("program: {}", case["src"]);
            match u.root_failures.iter().find(|(p, _, _)| Some(p.as_str()) == case["path"].as_str()) {
                Some((path, src, e)) => {
                    println!("fresh assembler (L1,L2; no kernel): {e}");
                    println!("expected: Ok (exec of an exported library procedure)");
                    ctx.fail(
                        json!({"part": "S", "kind": "valid_source_rejected", "source": format!("exec of {path}")}),
                        format!("a fresh assembler (L1,L2; no kernel) refuses the valid program `{src}`: {e}"),
                        case.clone(),
                    );
                }
                None => println!("fresh assembler (L1,L2; no kernel): compiles (expected)"),
            }
        }
        Some("S-cross") | Some("S-pair") => {
            let u = build_universe();
            let m = Machine::new(u, 1, known);
            for (ci, c) in m.configs.iter().enumerate() {
                for (si, s) in m.u.sources.iter().enumerate() {
                    let relevant = case["source"].as_str() == Some(s.name)
                        || case["a"].as_str() == Some(s.name)
                        || case["b"].as_str() == Some(s.name);
                    if relevant {
                        println!("[{}] {} -> {}", c.tag(), s.name, m.fresh[ci][si].brief());
                    }
                }
            }
            println!("expected: identical programs");
            for f in m.check_fresh() {
                if f.case == *case {
                    ctx.fail(f.signature, f.summary, f.case);
                }
            }
        }
        Some("K") => {
            let pos = |list: &[&str], key: &str| {
                let want = case[key].as_str().expect("replay field");
                list.iter().position(|x| *x == want).unwrap_or_else(|| panic!("replay file names a {key} this build does not have: {want}"))
            };
            let mi = pos(&K_MODULES.map(|x| x.0), "module");
            let pi = pos(&K_PRE.map(|x| x.0), "before_kernel");
            let ki = pos(&K_KERNELS.map(|x| x.0), "kernel");
            let gi = case["program"].as_str().map(|_| pos(&K_PROGRAMS.map(|x| x.0), "program"));
            let debug = case["debug"].as_bool().unwrap_or(false);
            println!("library module lx::m: {}", K_MODULES[mi].1);
            println!("compiled before with_kernel: {:?}", K_PRE[pi].1);
            println!("kernel module: {}", K_KERNELS[ki].1);
            println!("debug mode: {debug}");
            let (fails, _) = k_check(mi, pi, ki, debug, gi, true);
            for f in fails {
                ctx.fail(f.signature, f.summary, f.case);
            }
        }
        other => panic!("unknown replay case kind {other:?}"),
    }
    ctx.finish("model_checking", json!({}), &[])
}
