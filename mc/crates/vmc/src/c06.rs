//! C06 — control flow and procedure inlining follow the documented semantics.
//!
//! Programs: every nesting up to depth D of {if/else, if, while, repeat.1, repeat.3, exec of a local
//! procedure with 0 / 2 locals, exec of an imported procedure with 0 / 2 locals}; every body pushes
//! unique markers, so the final stack spells the path that was executed. Every decision point
//! (if, loop entry, after each loop iteration) takes its condition from the advice stack, so the
//! environment's answer sequence is the schedule: all binary answer sequences up to a length bound,
//! then every single deviation that replaces the answer at one decision point by a non-binary value.
//!
//! Oracles: (1) `refvm`; (2) metamorphic on the real VM: the program with every repeat unrolled and
//! every 0-local exec pasted has the same outcome (its MAST root may differ: join grouping); (3) a non-binary answer at
//! any decision point gives Err(NotBinaryValue) — not success, not a panic.

use crate::common::*;
use crate::refglue::{self, Verdict};
use assembly::{ast::ModuleAst, Assembler, LibraryNamespace, LibraryPath, MaslLibrary, Module, Version};
use mcx::{json, Ctx, Value};
use rayon::prelude::*;
use refvm::ast::{op, Node, Proc, Prog};
use refvm::interp::{Fail, Stop, Vm};
use std::collections::BTreeMap;
use std::sync::Mutex;

#[derive(Clone, Copy, Debug, PartialEq, Eq)]
enum Kind {
    If,
    IfNoElse,
    While,
    Repeat(u32),
    ExecLocal(u16),
    ExecImp(u16),
}

const KINDS: [Kind; 9] = [
    Kind::If,
    Kind::IfNoElse,
    Kind::While,
    Kind::Repeat(1),
    Kind::Repeat(3),
    Kind::ExecLocal(0),
    Kind::ExecLocal(2),
    Kind::ExecImp(0),
    Kind::ExecImp(2),
];

#[derive(Clone, Debug)]
struct Tree {
    kind: Kind,
    /// one body (two for If); each body optionally nests one construct
    bodies: Vec<Option<Box<Tree>>>,
}

fn trees(depth: usize) -> Vec<Tree> {
    if depth == 0 {
        return vec![];
    }
    let sub = trees(depth - 1);
    let mut opts: Vec<Option<Box<Tree>>> = vec![None];
    opts.extend(sub.into_iter().map(|t| Some(Box::new(t))));
    let mut out = vec![];
    for k in KINDS {
        if k == Kind::If {
            for a in &opts {
                for b in &opts {
                    out.push(Tree { kind: k, bodies: vec![a.clone(), b.clone()] });
                }
            }
        } else {
            for a in &opts {
                out.push(Tree { kind: k, bodies: vec![a.clone()] });
            }
        }
    }
    out
}

fn has_local_under_imported(t: &Tree, under: bool) -> bool {
    let here = matches!(t.kind, Kind::ExecLocal(_)) && under;
    let under = under || matches!(t.kind, Kind::ExecImp(_));
    here || t.bodies.iter().flatten().any(|c| has_local_under_imported(c, under))
}

struct Builder {
    marker: u64,
    procs: Vec<Proc>,
    lib_procs: Vec<Proc>,
}

impl Builder {
    fn leaf(&mut self) -> Vec<Node> {
        self.marker += 1;
        let m = self.marker;
        let mut v = vec![op(&format!("push.{}", 100 + m))];
        match m % 4 {
            1 => v.push(op("swap")),
            2 => {
                v.push(op("dup.1"));
                v.push(op("add"));
            }
            3 => {
                v.push(op("drop"));
                v.push(op(&format!("push.{}", 500 + m)));
            }
            _ => {}
        }
        v
    }
    fn body(&mut self, child: &Option<Box<Tree>>) -> Vec<Node> {
        let mut v = self.leaf();
        if let Some(c) = child {
            v.extend(self.construct(c));
        }
        v.extend(self.leaf());
        v
    }
    fn construct(&mut self, t: &Tree) -> Vec<Node> {
        match t.kind {
            Kind::If => {
                let a = self.body(&t.bodies[0]);
                let b = self.body(&t.bodies[1]);
                vec![op("adv_push.1"), Node::If(a, b)]
            }
            Kind::IfNoElse => {
                let a = self.body(&t.bodies[0]);
                vec![op("adv_push.1"), Node::If(a, vec![])]
            }
            Kind::While => {
                let mut a = self.body(&t.bodies[0]);
                a.push(op("adv_push.1"));
                vec![op("adv_push.1"), Node::While(a)]
            }
            Kind::Repeat(n) => {
                let a = self.body(&t.bodies[0]);
                vec![Node::Repeat(n, a)]
            }
            Kind::ExecLocal(l) | Kind::ExecImp(l) => {
                let imported = matches!(t.kind, Kind::ExecImp(_));
                let mut a = vec![];
                if l > 0 {
                    self.marker += 1;
                    a.push(op(&format!("push.{}", 900 + self.marker)));
                    a.push(op(&format!("loc_store.{}", l - 1)));
                }
                a.extend(self.body(&t.bodies[0]));
                if l > 0 {
                    // the local written before the nested constructs must still be intact
                    a.push(op(&format!("loc_load.{}", l - 1)));
                }
                if imported {
                    let name = format!("m::g{}", self.lib_procs.len());
                    self.lib_procs.push(Proc { name: name.clone(), locals: l, body: a });
                    vec![Node::Exec(name)]
                } else {
                    let name = format!("f{}", self.procs.len());
                    self.procs.push(Proc { name: name.clone(), locals: l, body: a });
                    vec![Node::Exec(name)]
                }
            }
        }
    }
}

fn build(t: &Tree) -> Prog {
    let mut b = Builder { marker: 0, procs: vec![], lib_procs: vec![] };
    let mut body = b.leaf();
    body.extend(b.construct(t));
    body.extend(b.leaf());
    let uses = if b.lib_procs.is_empty() { vec![] } else { vec!["lib::m".to_string()] };
    Prog { procs: b.procs, kernel: vec![], body, uses, lib_procs: b.lib_procs }
}

/// metamorphic transform: unroll every repeat, paste the body of every exec'd procedure that has
/// no locals (local or imported)
fn flatten(prog: &Prog, body: &[Node]) -> Vec<Node> {
    let mut out = vec![];
    for n in body {
        match n {
            Node::Repeat(k, b) => {
                let fb = flatten(prog, b);
                for _ in 0..*k {
                    out.extend(fb.clone());
                }
            }
            Node::If(a, b) => out.push(Node::If(flatten(prog, a), flatten(prog, b))),
            Node::While(b) => out.push(Node::While(flatten(prog, b))),
            Node::Exec(name) => {
                let p = prog.find_proc(name).expect("proc");
                if p.locals == 0 {
                    out.extend(flatten(prog, &p.body));
                } else {
                    out.push(n.clone());
                }
            }
            other => out.push(other.clone()),
        }
    }
    out
}

fn flatten_prog(prog: &Prog) -> Prog {
    let mut q = prog.clone();
    q.body = flatten(prog, &prog.body);
    for p in q.procs.iter_mut() {
        p.body = flatten(prog, &p.body);
    }
    for p in q.lib_procs.iter_mut() {
        p.body = flatten(prog, &p.body);
    }
    q
}

const BASE_MODULE: &str = "export.b0\n    push.77001 drop\nend\nexport.b1\n    push.77002 push.77003 drop drop\nend\n";

/// the library module with re-exports of another module's procedures before its first procedure and
/// between its procedures (they do not change what the module's own procedures mean)
fn with_reexports(lib_src: &str) -> String {
    let mut s = String::from("use.lib::base\nexport.base::b0\n");
    match lib_src.find("\nend\n") {
        Some(i) => {
            s.push_str(&lib_src[..i + 5]);
            s.push_str("export.base::b1\n");
            s.push_str(&lib_src[i + 5..]);
        }
        None => s.push_str(lib_src),
    }
    s
}

fn library_of(lib_src: &str, reexports: bool) -> MaslLibrary {
    let parse = |src: &str| ModuleAst::parse(src).unwrap_or_else(|e| panic!("SUBJECT: library module must parse: {e}\n{src}"));
    let mut modules = vec![];
    let src = if reexports {
        modules.push(Module::new(LibraryPath::new("lib::base").unwrap(), parse(BASE_MODULE)));
        with_reexports(lib_src)
    } else {
        lib_src.to_string()
    };
    modules.push(Module::new(LibraryPath::new("lib::m").unwrap(), parse(&src)));
    MaslLibrary::new(LibraryNamespace::new("lib").unwrap(), Version::default(), false, modules, vec![]).expect("SUBJECT: library must build")
}

fn assembler_for(prog: &Prog, reexports: bool) -> Assembler {
    let mut asm = Assembler::default();
    if let Some(src) = prog.lib_source() {
        asm = asm.with_library(&library_of(&src, reexports)).expect("SUBJECT: with_library must succeed");
    }
    asm
}

fn compile(prog: &Prog) -> processor::Program {
    compile_cfg(prog, false)
}

fn compile_cfg(prog: &Prog, reexports: bool) -> processor::Program {
    match try_compile_cfg(prog, reexports) {
        Ok(p) => p,
        Err(e) => panic!("SUBJECT: {e}"),
    }
}

fn try_compile_cfg(prog: &Prog, reexports: bool) -> Result<processor::Program, String> {
    let src = prog.to_source();
    match mcx::guard::catch(|| assembler_for(prog, reexports).compile(&src)) {
        Ok(Ok(p)) => Ok(p),
        Ok(Err(e)) => Err(format!("family program must assemble: {e}\n{src}\n{:?}", prog.lib_source())),
        Err(p) => Err(format!("assembler panicked: {p}\n{src}")),
    }
}

fn run_ref(prog: &Prog, advice: &[u64]) -> (Result<(), Stop>, Vec<u64>, bool) {
    // MAST roots matter to `caller` only, which this family does not use: any distinct values will do
    let roots = prog
        .procs
        .iter()
        .chain(prog.lib_procs.iter())
        .enumerate()
        .map(|(i, p)| (p.name.clone(), [i as u64 + 1, 77, 78, 79]))
        .collect();
    let mut vm = Vm::new(prog, &[], advice, roots);
    let r = vm.run();
    (r, vm.stack.clone(), vm.depth_uncertain)
}

/// all answer sequences: DFS driven by the reference — whenever it runs out of advice at a decision
/// point the prefix is extended by every binary answer; every such decision prefix is also extended
/// by each non-binary value (1 deviation; the run ends there). Returns (complete binary sequences,
/// deviation sequences, prefixes cut off at the length bound).
fn answer_sequences(prog: &Prog, max_len: usize) -> (Vec<Vec<u64>>, Vec<Vec<u64>>, u64) {
    let mut complete = vec![];
    let mut deviations = vec![];
    let mut cut = 0;
    let mut work = vec![vec![]];
    while let Some(prefix) = work.pop() {
        let (r, _, _) = run_ref(prog, &prefix);
        if r == Err(Stop::Fail(Fail::AdviceEmpty)) {
            for nb in [2u64, P - 1] {
                let mut d = prefix.clone();
                d.push(nb);
                deviations.push(d);
            }
            if prefix.len() >= max_len {
                cut += 1;
                continue;
            }
            for a in [0u64, 1] {
                let mut e = prefix.clone();
                e.push(a);
                work.push(e);
            }
        } else {
            complete.push(prefix);
        }
    }
    complete.sort();
    deviations.sort();
    (complete, deviations, cut)
}

fn check_program(ctx: &Ctx, prog: &Prog, max_len: usize, stats: &Mutex<BTreeMap<String, u64>>) {
    let program = compile(prog);
    let flat = flatten_prog(prog);
    let flat_program = compile(&flat);
    let src = prog.to_source();
    let case = |adv: &[u64]| json!({"src": src, "lib": prog.lib_source(), "advice": adv, "prog": format!("{prog:?}")});
    let mut local: BTreeMap<String, u64> = BTreeMap::new();
    // oracle 2a: inlining / unrolling is invisible in the MAST root
    // information only: the MAST root of the unrolled / pasted program usually differs (the join
    // tree is grouped differently), which the property does not forbid — it speaks of behaviour
    let key = if program.hash() == flat_program.hash() { "flattened_same_mast_root" } else { "flattened_different_mast_root" };
    *local.entry(key.into()).or_insert(0) += 1;
    let (complete, deviations, cut) = answer_sequences(prog, max_len);
    *local.entry("cut_off_prefixes".into()).or_insert(0) += cut;
    for (adv, is_dev) in complete.iter().map(|a| (a, false)).chain(deviations.iter().map(|a| (a, true))) {
        let real = run_program(&program, &[], adv);
        let (r, rs, unc) = run_ref(prog, adv);
        let class = refglue::ref_class(&r);
        *local.entry(format!("{}{}", if is_dev { "deviation:" } else { "binary:" }, class)).or_insert(0) += 1;
        if let Outcome::Panic(p) = &real {
            ctx.fail(json!({"kind": "panic", "panic": mcx::guard::short_panic(p)}), format!("advice {adv:?} :: {src}"), case(adv));
            continue;
        }
        if is_dev {
            // oracle 3, stated without the reference: a non-binary answer must end in NotBinaryValue
            let ok = matches!(&real, Outcome::Err(e) if err_variant(e) == "NotBinaryValue");
            if !ok {
                let where_ = where_of_last_decision(prog, adv);
                ctx.fail(
                    json!({"kind": "non_binary_condition_not_rejected", "at": where_, "real": real.kind()}),
                    format!("answers {adv:?} (last one non-binary, consumed at: {where_}) => {} :: {}", real.brief(), src.replace('\n', " ")),
                    case(adv),
                );
            }
            continue;
        }
        if let Verdict::Mismatch(m) = refglue::compare(&real, &r, &rs, !unc) {
            ctx.fail(
                json!({"kind": "control_flow_mismatch", "ref": class, "real": real.kind()}),
                format!("answers {adv:?}: {m} :: {}", src.replace('\n', " ")),
                case(adv),
            );
        }
        // oracle 2b: same outcome for the unrolled / pasted program
        let real_flat = run_program(&flat_program, &[], adv);
        if real_flat != real {
            ctx.fail(
                json!({"kind": "inlined_program_behaves_differently"}),
                format!("answers {adv:?}: original {} vs unrolled/pasted {}", real.brief(), real_flat.brief()),
                case(adv),
            );
        }
    }
    // second assembler configuration for programs with an imported module: the same module with
    // re-exports of another module's procedures before and between its own procedures; what the
    // module's procedures mean (and so the whole behaviour) must not change
    if prog.lib_source().is_some() {
        let program_rx = match try_compile_cfg(prog, true) {
            Ok(p) => Some(p),
            Err(e) => {
                let mut c = case(&[]);
                c["lib_reexports"] = json!(true);
                ctx.fail(
                    json!({"kind": "valid_program_rejected", "config": "imported module with re-exports"}),
                    e.chars().take(300).collect::<String>().replace('\n', " "),
                    c,
                );
                None
            }
        };
        for adv in complete.iter().filter(|_| program_rx.is_some()) {
            let real = run_program(program_rx.as_ref().unwrap(), &[], adv);
            let (r, rs, unc) = run_ref(prog, adv);
            *local.entry("binary(re-export configuration)".into()).or_insert(0) += 1;
            let mismatch = match (&real, refglue::compare(&real, &r, &rs, !unc)) {
                (Outcome::Panic(p), _) => Some(format!("panic: {}", mcx::guard::short_panic(p))),
                (_, Verdict::Mismatch(m)) => Some(m),
                _ => None,
            };
            if let Some(m) = mismatch {
                let mut c = case(adv);
                c["lib_reexports"] = json!(true);
                ctx.fail(
                    json!({"kind": "control_flow_mismatch", "config": "imported module with re-exports", "ref": refglue::ref_class(&r), "real": real.kind()}),
                    format!("answers {adv:?}: {m} :: {}", src.replace('\n', " ")),
                    c,
                );
            }
        }
    }
    let mut s = stats.lock().unwrap();
    for (k, v) in local {
        *s.entry(k).or_insert(0) += v;
    }
    *s.entry("programs".into()).or_insert(0) += 1;
    *s.entry("binary_sequences".into()).or_insert(0) += complete.len() as u64;
    *s.entry("deviation_sequences".into()).or_insert(0) += deviations.len() as u64;
}

/// names the decision point that consumed the last answer: "if", "loop_entry" or "after_loop_body"
fn where_of_last_decision(prog: &Prog, adv: &[u64]) -> String {
    // replay with the binary prefix only: the reference stops with AdviceEmpty exactly at the
    // decision in question; find out which by instrumenting a second run per candidate kind
    fn decisions(
        body: &[Node],
        prog: &Prog,
        out: &mut Vec<&'static str>,
        adv: &mut std::collections::VecDeque<u64>,
        pending: &mut Option<u64>,
    ) -> bool {
        // returns false when advice ran out (the decision reached is the last element of `out`)
        for (i, n) in body.iter().enumerate() {
            match n {
                Node::Op(s) if s == "adv_push.1" => {
                    let kind = match body.get(i + 1) {
                        Some(Node::If(..)) => "if",
                        Some(Node::While(..)) => "loop_entry",
                        None => "after_loop_body",
                        _ => "other",
                    };
                    out.push(kind);
                    match adv.pop_front() {
                        None => return false,
                        Some(v) => *pending = Some(v),
                    }
                }
                Node::Op(s) if s == "push.1" => *pending = Some(1),
                Node::If(a, b) => {
                    let c = pending.take().unwrap_or(0);
                    if !decisions(if c == 1 { a } else { b }, prog, out, adv, pending) {
                        return false;
                    }
                }
                Node::While(b) => {
                    let mut c = pending.take().unwrap_or(0);
                    while c == 1 {
                        if !decisions(b, prog, out, adv, pending) {
                            return false;
                        }
                        c = pending.take().unwrap_or(0);
                    }
                }
                Node::Repeat(k, b) => {
                    for _ in 0..*k {
                        if !decisions(b, prog, out, adv, pending) {
                            return false;
                        }
                    }
                }
                Node::Exec(name) => {
                    if !decisions(&prog.find_proc(name).unwrap().body, prog, out, adv, pending) {
                        return false;
                    }
                }
                _ => {}
            }
        }
        true
    }
    let mut out = vec![];
    let mut q: std::collections::VecDeque<u64> = adv[..adv.len() - 1].iter().cloned().collect();
    decisions(&prog.body, prog, &mut out, &mut q, &mut None);
    out.last().cloned().unwrap_or("?").to_string()
}

/// hand-written programs of the same family with consuming bodies (not only markers)
fn extra_programs() -> Vec<Prog> {
    let mut v = vec![];
    let p = |body: Vec<Node>| Prog::simple(body);
    // the shape of F-C06-a: value after the loop body decides continuation
    v.push(p(vec![op("adv_push.1"), Node::While(vec![op("push.7"), op("drop"), op("adv_push.1")])]));
    v.push(p(vec![op("push.1"), Node::While(vec![op("adv_push.1")])]));
    // nested loops with a counter
    v.push(p(vec![
        op("push.0"),
        op("adv_push.1"),
        Node::While(vec![op("add.1"), op("adv_push.1"), Node::While(vec![op("add.10"), op("adv_push.1")]), op("adv_push.1")]),
    ]));
    // repeat.5 around an if
    v.push(p(vec![op("push.0"), Node::Repeat(5, vec![op("adv_push.1"), Node::If(vec![op("add.1")], vec![op("add.100")])])]));
    // repeat counts: every count up to 20 and around the powers of two up to 2^8 (the assembler unrolls
    // repeat into spans / join trees whose shape depends on the count), with a counting body, with a body
    // that carries an immediate (operation groups and batches fill differently), nested in each other,
    // around a call-free exec with locals, and around a zero-iteration while (a control block per iteration)
    let counts: Vec<u32> = (1..=20).chain([31, 32, 33, 63, 64, 65, 100, 127, 128, 129, 255, 256, 257]).collect();
    for &n in &counts {
        v.push(p(vec![op("push.0"), Node::Repeat(n, vec![op("add.1")])]));
        v.push(p(vec![op("push.1"), Node::Repeat(n, vec![op("push.3"), op("add")])]));
        v.push(p(vec![op("push.0"), Node::Repeat(n, vec![op("push.0"), Node::While(vec![op("push.0")]), op("add.1")])]));
    }
    // an exported procedure of the imported module reaches a `call` only through an exec of a module-local
    // helper, under every control-flow construct: inlining must carry the helper's call targets along
    let lp = |name: &str, body: Vec<Node>| refvm::ast::Proc { name: name.to_string(), locals: 0, body };
    for wrap in 0..4 {
        let inner = vec![Node::Exec("m::g1".into())];
        let wrapped = match wrap {
            0 => inner,
            1 => vec![op("adv_push.1"), Node::If(inner, vec![op("push.5"), op("drop")])],
            2 => vec![op("adv_push.1"), Node::While(vec![Node::Exec("m::g1".into()), op("adv_push.1")])],
            _ => vec![Node::Repeat(2, inner)],
        };
        let mut body_g2 = vec![op("push.100")];
        body_g2.extend(wrapped);
        body_g2.push(op("add.1"));
        v.push(Prog {
            procs: vec![],
            kernel: vec![],
            body: vec![op("push.1"), Node::Exec("m::g2".into())],
            uses: vec!["lib::m".to_string()],
            lib_procs: vec![
                lp("m::g0", vec![op("push.7"), op("add")]),
                lp("m::g1", vec![Node::Call("m::g0".into())]),
                lp("m::g2", body_g2),
            ],
        });
    }
    for n in 1..=9u32 {
        for m in 1..=9u32 {
            v.push(p(vec![op("push.0"), Node::Repeat(n, vec![op("add.1"), Node::Repeat(m, vec![op("add.100")])])]));
        }
    }
    v
}

pub fn run(ctx: &Ctx, replay: Option<&Value>) -> i32 {
    if let Some(case) = replay {
        return replay_case(ctx, case);
    }
    let depth = ctx.tier.pick(2, 3);
    let max_len = ctx.tier.pick(7, 8);
    let all = trees(depth);
    let total_trees = all.len();
    let mut progs: Vec<Prog> = all.iter().filter(|t| !has_local_under_imported(t, false)).map(build).collect();
    let generated = progs.len();
    progs.extend(extra_programs());
    let stats: Mutex<BTreeMap<String, u64>> = Mutex::new(BTreeMap::new());
    progs.par_iter().for_each(|p| check_program(ctx, p, max_len, &stats));
    for p in progs.iter().step_by(progs.len() / 5 + 1) {
        ctx.sample(json!({"program": p.to_source(), "library_module": p.lib_source()}));
    }
    let s = stats.into_inner().unwrap();
    let g = |k: &str| *s.get(k).unwrap_or(&0);
    let runs = g("binary_sequences") + g("deviation_sequences");
    let cov = json!({
        "states": runs,
        "transitions": runs * 2 + g("binary_sequences"),
        "traces_validated_against_impl": runs,
        "evaluations": runs,
        "programs": progs.len(),
        "construct_trees_enumerated": total_trees,
        "trees_dropped(local exec under imported exec is not expressible)": total_trees - generated,
        "nesting_depth": depth,
        "kinds": format!("{KINDS:?}"),
        "answer_length_bound": max_len,
        "per_class": s,
        "exhaustive": g("cut_off_prefixes") == 0,
        "bounds": format!("all construct trees of depth <= {depth} (one nested construct per body); all binary answer sequences of length <= {max_len}; 1 non-binary deviation at every decision prefix; {} decision prefixes were cut at the length bound (their continuations are not explored)", g("cut_off_prefixes")),
    });
    ctx.finish("model_checking", cov, &[
        "state = (program, answer prefix); transition = one more environment answer; every complete run executes the real assembler + processor",
        "reference = refvm (docs/src/user_docs/assembly/flow_control.md, execution_contexts.md)",
    ])
}

fn replay_case(ctx: &Ctx, case: &Value) -> i32 {
    let src = case["src"].as_str().unwrap();
    let adv: Vec<u64> = case["advice"].as_array().unwrap().iter().map(|x| x.as_u64().unwrap()).collect();
    let mut asm = Assembler::default();
    if let Some(lib) = case["lib"].as_str() {
        let rx = case["lib_reexports"].as_bool().unwrap_or(false);
        if rx {
            println!("library module as assembled (with re-exports):\n{}\nmodule lib::base:\n{BASE_MODULE}", with_reexports(lib));
        }
        asm = asm.with_library(&library_of(lib, rx)).unwrap();
    }
    let real = run_source(&asm, src, &[], &adv);
    println!("program:\n{src}\nlibrary: {:?}\nadvice (answers): {adv:?}\nreal: {}", case["lib"].as_str(), real.brief());
    if let Outcome::AsmErr(e) = &real {
        println!("expected: the program assembles (it is valid by construction)");
        ctx.fail(json!({"kind": "valid_program_rejected"}), e.clone(), case.clone());
    } else if adv.last().map(|x| *x > 1).unwrap_or(false) {
        println!("expected: Err(NotBinaryValue) because the last answer is not binary");
        if !matches!(&real, Outcome::Err(e) if err_variant(e) == "NotBinaryValue") {
            ctx.fail(json!({"kind": "non_binary_condition_not_rejected", "real": real.kind()}), real.brief(), case.clone());
        }
    } else {
        println!("(binary answers: compare with the reference by re-running `./check C06 quick`; reference AST: {})", case["prog"]);
    }
    ctx.finish("model_checking", json!({}), &[])
}
