//! C18 — standard-library memory, stack and collection utilities keep their contracts.
//!
//! (E) parts, each a finite explicitly enumerated space executed on the real VM:
//!   * `std::sys::truncate_stack`: every depth 16..=48 (distinct contents), as stack inputs, after
//!     pushes, inside a `call` frame and inside a procedure with locals;
//!   * `std::mem::memcopy`: all (n, read_ptr, write_ptr), n in 0..=4(6), pointers in an 8-word window;
//!     overlapping ranges are executed but only checked for the frame condition;
//!   * `pipe_words_to_memory`, `pipe_double_words_to_memory`, `pipe_preimage_to_memory`;
//!   * the arithmetic helpers of `std::collections::mmr` and pack/unpack/add on synthetic peak lists.
//! (S) parts, explored with `mcx::bfs`: the native `Smt` / `Mmr` of miden-crypto as explicit-state
//! machines; every transition runs the masm procedure on the real VM with advice derived from the
//! native structure in the pre-state (and, in "chain" mode, with the advice the VM itself produced
//! while replaying the whole history) and compares every returned value and the memory layout.
//! The SMT machine also reads every key through the host injector `adv.push_smtpeek`.
//!
//! Trusted: `Rpo256::{apply_permutation, hash_elements, merge}`, miden-crypto's `Smt`, `Mmr`,
//! `MmrPeaks`, `MerkleStore` (the structures the property names as the reference).

use crate::common::*;
use mcx::{bfs, guard, json, Ctx, Tier, Value};
use processor::{
    AdviceInputs, ContextId, DefaultHost, ExecutionOptions, MemAdviceProvider, Process,
    ProcessState, Program,
};
use rayon::prelude::*;
use std::collections::{BTreeMap, HashMap};
use std::sync::{Arc, Mutex, OnceLock};
use vm_core::crypto::hash::{Rpo256, RpoDigest};
use vm_core::crypto::merkle::{MerkleStore, Mmr, MmrPeaks, NodeIndex, Smt};
use vm_core::{Felt, StarkField, Word, ZERO};

type W = [u64; 4];
type Proc = Process<DefaultHost<MemAdviceProvider>>;
type Mem = BTreeMap<u64, W>;

const LEVEL: &str = "model_checking";
const MAX_CYCLES: u32 = 1 << 20;
/// procedure locals of the root context live from this address upwards; not part of any contract
const LOCALS_BASE: u64 = 1 << 30;

// ------------------------------------------------------------------------------------------------
// small helpers
// ------------------------------------------------------------------------------------------------

fn sentinels(n: usize) -> Vec<u64> {
    (0..n as u64).map(|i| 9001 + i).collect()
}

fn word(w: W) -> Word {
    [Felt::new(w[0]), Felt::new(w[1]), Felt::new(w[2]), Felt::new(w[3])]
}

fn unword(w: Word) -> W {
    [w[0].as_int(), w[1].as_int(), w[2].as_int(), w[3].as_int()]
}

fn digest(w: W) -> RpoDigest {
    RpoDigest::new(word(w))
}

fn undigest(d: RpoDigest) -> W {
    unword(d.into())
}

/// appends a word in stack order (element 3 is on top) to a top-first stack listing
fn push_w(v: &mut Vec<u64>, w: W) {
    v.extend([w[3], w[2], w[1], w[0]]);
}

/// the word whose top element is at position `i` of a top-first stack listing
fn word_at(stack: &[u64], i: usize) -> W {
    [stack[i + 3], stack[i + 2], stack[i + 1], stack[i]]
}

fn hash_elems(v: &[u64]) -> W {
    undigest(Rpo256::hash_elements(&felts(v)))
}

struct Hist(Mutex<BTreeMap<String, u64>>);

impl Hist {
    fn new() -> Self {
        Hist(Mutex::new(BTreeMap::new()))
    }
    fn inc(&self, k: &str) {
        *self.0.lock().unwrap().entry(k.to_string()).or_insert(0) += 1;
    }
    fn get(&self, k: &str) -> u64 {
        *self.0.lock().unwrap().get(k).unwrap_or(&0)
    }
    fn json(&self) -> Value {
        json!(*self.0.lock().unwrap())
    }
}

fn program(src: &str) -> Arc<Program> {
    static CACHE: OnceLock<Mutex<HashMap<String, Arc<Program>>>> = OnceLock::new();
    let cache = CACHE.get_or_init(|| Mutex::new(HashMap::new()));
    if let Some(p) = cache.lock().unwrap().get(src) {
        return p.clone();
    }
    let p = Arc::new(assembler().compile(src).unwrap_or_else(|e| panic!("SUBJECT: harness program must assemble: {e}\n{src}")));
    cache.lock().unwrap().insert(src.to_string(), p.clone());
    p
}

struct Obs {
    /// full final stack, top first, or the Debug form of the execution error
    stack: Result<Vec<u64>, String>,
    /// root-context memory below the locals region (every address accessed at least once)
    mem: Mem,
    p: Proc,
}

fn exec(program: &Program, stack_top_first: &[u64], adv: AdviceInputs) -> Result<Obs, String> {
    guard::catch(|| {
        let opts = ExecutionOptions::new(Some(MAX_CYCLES), 64, false).expect("options");
        let mut p = Process::new(program.kernel().clone(), stack_inputs(stack_top_first), host_from(adv), opts);
        let r = p.execute(program);
        let mem = p
            .get_mem_state(ContextId::root())
            .into_iter()
            .filter(|(a, _)| *a < LOCALS_BASE)
            .map(|(a, w)| (a, unword(w)))
            .collect();
        Obs { stack: r.map(|o| o.stack().to_vec()).map_err(|e| format!("{e:?}")), mem, p }
    })
}

/// first address at which the two memories differ (an absent address is a zero word)
fn mem_mismatch(exp: &Mem, got: &Mem) -> Option<String> {
    let mut addrs: Vec<u64> = exp.keys().chain(got.keys()).copied().collect();
    addrs.sort();
    addrs.dedup();
    for a in addrs {
        let e = exp.get(&a).copied().unwrap_or([0; 4]);
        let g = got.get(&a).copied().unwrap_or([0; 4]);
        if e != g {
            return Some(format!("mem[{a}] = {g:?}, expected {e:?}"));
        }
    }
    None
}

/// reports through ctx.fail and prints when replaying
struct Rep<'a> {
    ctx: &'a Ctx,
    verbose: bool,
    case: Value,
}

impl Rep<'_> {
    fn fail(&self, kind: &str, proc_: &str, class: &str, detail: String) {
        if self.verbose {
            println!("ORACLE FAILED: {kind} {proc_} [{class}] {detail}");
        }
        self.ctx.fail(json!({"kind": kind, "proc": proc_, "class": class}), format!("{proc_} [{class}] {detail} :: case={}", self.case), self.case.clone());
    }
    fn say(&self, s: impl FnOnce() -> String) {
        if self.verbose {
            println!("{}", s());
        }
    }
}

fn brief(r: &Result<Vec<u64>, String>) -> String {
    match r {
        Ok(s) => format!("Ok{s:?}"),
        Err(e) => format!("Err({})", e.chars().take(240).collect::<String>()),
    }
}

/// masm procedure that moves `n` words from the advice stack to memory starting at `ptr`; built
/// from core instructions only so that no procedure under test is used to set a case up
const LOADER: &str = "
proc.load_words
    dup neq.0
    while.true
        padw adv_loadw dup.5 mem_storew dropw
        sub.1 swap add.1 swap
        dup neq.0
    end
    drop drop
end
";

fn u(case: &Value, k: &str) -> u64 {
    case[k].as_u64().unwrap_or_else(|| panic!("replay case lacks integer field {k}"))
}

// ------------------------------------------------------------------------------------------------
// truncate_stack
// ------------------------------------------------------------------------------------------------

fn check_truncate(ctx: &Ctx, mode: &str, k: u64, verbose: bool) {
    let case = json!({"part": "truncate", "mode": mode, "k": k});
    let rep = Rep { ctx, verbose, case };
    let k = k as usize;
    let pushes: Vec<u64> = (0..k as u64).map(|i| 5001 + i).collect();
    let push_src: String = pushes.iter().map(|v| format!("push.{v} ")).collect();
    // stack seen by truncate_stack, top first, and what lies below the frame
    let (src, inputs, seen, below, above): (String, Vec<u64>, Vec<u64>, Vec<u64>, Vec<u64>) = match mode {
        "inputs" => {
            let inputs: Vec<u64> = (0..k as u64).map(|i| 1001 + i).collect();
            ("use.std::sys begin exec.sys::truncate_stack end".into(), inputs.clone(), inputs, vec![], vec![])
        }
        "pushes" => {
            let inputs: Vec<u64> = (0..16u64).map(|i| 1001 + i).collect();
            let mut seen: Vec<u64> = pushes.iter().rev().copied().collect();
            seen.extend(&inputs);
            (format!("use.std::sys begin {push_src} exec.sys::truncate_stack end"), inputs, seen, vec![], vec![])
        }
        "call16" | "call21" => {
            let d = if mode == "call16" { 16u64 } else { 21 };
            let inputs: Vec<u64> = (0..d).map(|i| 1001 + i).collect();
            let mut seen: Vec<u64> = pushes.iter().rev().copied().collect();
            seen.extend(&inputs[..16]);
            (
                format!("use.std::sys proc.f {push_src} exec.sys::truncate_stack end begin call.f end"),
                inputs.clone(),
                seen,
                inputs[16..].to_vec(),
                vec![],
            )
        }
        "exec_locals" => {
            let inputs: Vec<u64> = (0..18u64).map(|i| 1001 + i).collect();
            let mut seen: Vec<u64> = pushes.iter().rev().copied().collect();
            seen.extend(&inputs);
            (
                format!("use.std::sys proc.g.3 push.4711 loc_store.0 push.4712 loc_store.2 {push_src} exec.sys::truncate_stack loc_load.0 loc_load.2 end begin exec.g end"),
                inputs,
                seen,
                vec![],
                vec![4712, 4711],
            )
        }
        _ => panic!("unknown truncate mode {mode}"),
    };
    let mut expected = above;
    expected.extend(&seen[..16]);
    expected.extend(&below);
    let prog = program(&src);
    match exec(&prog, &inputs, AdviceInputs::default()) {
        Err(p) => rep.fail("panic", "std::sys::truncate_stack", mode, guard::short_panic(&p)),
        Ok(o) => {
            rep.say(|| format!("depth seen by truncate_stack = {}; result {}; expected Ok{expected:?}", seen.len(), brief(&o.stack)));
            match &o.stack {
                Err(e) => rep.fail("unexpected_error", "std::sys::truncate_stack", mode, format!("depth {} -> {}", seen.len(), err_variant(e))),
                Ok(s) if *s != expected => {
                    let what = if s.len() != expected.len() { "wrong_depth" } else { "wrong_result" };
                    rep.fail(what, "std::sys::truncate_stack", mode, format!("depth {} -> {s:?}, expected {expected:?}", seen.len()))
                }
                Ok(_) => {}
            }
        }
    }
}

// ------------------------------------------------------------------------------------------------
// memcopy
// ------------------------------------------------------------------------------------------------

const FILL_LO: u64 = 96;
const FILL_HI: u64 = 120; // exclusive

fn fill_word(a: u64) -> W {
    [a * 10 + 1, a * 10 + 2, a * 10 + 3, a * 10 + 4]
}

/// returns the outcome class
fn check_memcopy(ctx: &Ctx, n: u64, r: u64, w: u64, verbose: bool) -> &'static str {
    let case = json!({"part": "memcopy", "n": n, "read_ptr": r, "write_ptr": w});
    let rep = Rep { ctx, verbose, case };
    let src = format!("use.std::mem {LOADER} begin exec.load_words exec.mem::memcopy end");
    let prog = program(&src);
    let sent = sentinels(16);
    let mut stack = vec![FILL_HI - FILL_LO, FILL_LO, n, r, w];
    stack.extend(&sent);
    let orig: Mem = (FILL_LO..FILL_HI).map(|a| (a, fill_word(a))).collect();
    let adv_stack: Vec<u64> = (FILL_LO..FILL_HI).flat_map(fill_word).collect();
    let adv = AdviceInputs::default().with_stack(felts(&adv_stack));
    let overlapping = n > 0 && r < w + n && w < r + n;
    let class = if n == 0 {
        "n=0"
    } else if overlapping {
        "overlapping"
    } else {
        "disjoint"
    };
    let o = match exec(&prog, &stack, adv) {
        Err(p) => {
            rep.fail("panic", "std::mem::memcopy", class, guard::short_panic(&p));
            return "panic";
        }
        Ok(o) => o,
    };
    rep.say(|| format!("memcopy n={n} read_ptr={r} write_ptr={w} ({class}): stack {}; memory {:?}", brief(&o.stack), o.mem));
    match &o.stack {
        Err(e) => {
            rep.fail("unexpected_error", "std::mem::memcopy", class, err_variant(e));
            return "error";
        }
        Ok(s) if *s != sent => {
            rep.fail("wrong_stack", "std::mem::memcopy", class, format!("stack {s:?}, expected the 16 elements below the operands {sent:?}"));
            return "wrong_stack";
        }
        Ok(_) => {}
    }
    if overlapping {
        // the documentation does not define the content of the destination; only the frame condition
        let mut exp = orig.clone();
        let mut got = o.mem.clone();
        for a in w..w + n {
            exp.remove(&a);
            got.remove(&a);
        }
        if let Some(d) = mem_mismatch(&exp, &got) {
            rep.fail("write_outside_destination", "std::mem::memcopy", class, d);
            return "frame_violated";
        }
        let memmove = (0..n).all(|i| o.mem.get(&(w + i)) == Some(&fill_word(r + i)));
        if memmove {
            "overlap_result_as_memmove"
        } else {
            "overlap_result_smeared"
        }
    } else {
        let mut exp = orig.clone();
        for i in 0..n {
            exp.insert(w + i, fill_word(r + i));
        }
        rep.say(|| format!("expected memory {exp:?}"));
        if let Some(d) = mem_mismatch(&exp, &o.mem) {
            rep.fail("wrong_memory", "std::mem::memcopy", class, d);
            return "wrong_memory";
        }
        "ok"
    }
}

// ------------------------------------------------------------------------------------------------
// pipe_*
// ------------------------------------------------------------------------------------------------

const ADV_TAIL: u64 = 777_777;

fn pipe_data(n_words: u64) -> Vec<u64> {
    (0..n_words * 4).map(|i| 30_001 + i).collect()
}

fn pipe_mem(ptr: u64, data: &[u64]) -> Mem {
    data.chunks(4).enumerate().map(|(i, c)| (ptr + i as u64, [c[0], c[1], c[2], c[3]])).collect()
}

fn check_pipe_words(ctx: &Ctx, n: u64, ptr: u64, verbose: bool) -> &'static str {
    const PROC: &str = "std::mem::pipe_words_to_memory";
    let case = json!({"part": "pipe_words", "n": n, "ptr": ptr});
    let rep = Rep { ctx, verbose, case };
    let class = if n % 2 == 0 { "even" } else { "odd" };
    let prog = program("use.std::mem begin exec.mem::pipe_words_to_memory adv_push.1 end");
    let sent = sentinels(16);
    let mut stack = vec![n, ptr];
    stack.extend(&sent);
    let data = pipe_data(n);
    let mut adv_stack = data.clone();
    adv_stack.push(ADV_TAIL);
    let mut expected = vec![ADV_TAIL];
    push_w(&mut expected, hash_elems(&data));
    expected.push(ptr + n);
    expected.extend(&sent);
    match exec(&prog, &stack, AdviceInputs::default().with_stack(felts(&adv_stack))) {
        Err(p) => {
            rep.fail("panic", PROC, class, guard::short_panic(&p));
            "panic"
        }
        Ok(o) => {
            rep.say(|| format!("n={n} ptr={ptr}: stack {}\nexpected Ok{expected:?} (= [next advice element, Rpo256::hash_elements(data), ptr+n, rest])\nmemory {:?}", brief(&o.stack), o.mem));
            match &o.stack {
                Err(e) => {
                    rep.fail("unexpected_error", PROC, class, err_variant(e));
                    "error"
                }
                Ok(s) if *s != expected => {
                    let what = if s.len() == expected.len() && s[1..5] != expected[1..5] && s[5..] == expected[5..] && s[0] == expected[0] {
                        "wrong_hash"
                    } else {
                        "wrong_stack"
                    };
                    rep.fail(what, PROC, class, format!("stack {s:?}, expected {expected:?}"));
                    what
                }
                Ok(_) => match mem_mismatch(&pipe_mem(ptr, &data), &o.mem) {
                    Some(d) => {
                        rep.fail("wrong_memory", PROC, class, d);
                        "wrong_memory"
                    }
                    None => "ok",
                },
            }
        }
    }
}

fn check_pipe_double(ctx: &Ctx, n: u64, ptr: u64, init: &str, verbose: bool) -> &'static str {
    const PROC: &str = "std::mem::pipe_double_words_to_memory";
    let case = json!({"part": "pipe_double", "n": n, "ptr": ptr, "init": init});
    let rep = Rep { ctx, verbose, case };
    let class = if n == 0 { "n=0(outside contract)" } else { init };
    let prog = program("use.std::mem begin exec.mem::pipe_double_words_to_memory adv_push.1 end");
    let sent = sentinels(16);
    // hasher state: elements 0..4 capacity (A), 4..8 (B), 8..12 (C)
    let state0: Vec<u64> = match init {
        "zero" => vec![0; 12],
        "distinct" => (0..12u64).map(|i| 60_001 + i).collect(),
        _ => panic!("unknown init {init}"),
    };
    let mut stack: Vec<u64> = state0.iter().rev().copied().collect();
    stack.extend([ptr, ptr + n]);
    stack.extend(&sent);
    let data = pipe_data(n);
    let mut adv_stack = data.clone();
    adv_stack.push(ADV_TAIL);
    let mut st: [Felt; 12] = core::array::from_fn(|i| Felt::new(state0[i]));
    for blk in data.chunks(8) {
        for (i, v) in blk.iter().enumerate() {
            st[4 + i] = Felt::new(*v);
        }
        Rpo256::apply_permutation(&mut st);
    }
    let mut expected = vec![ADV_TAIL];
    expected.extend(st.iter().rev().map(|x| x.as_int()));
    expected.push(ptr + n);
    expected.extend(&sent);
    if init == "zero" && n > 0 {
        // cross-check of the reference construction against the library's sponge
        assert_eq!(hash_elems(&data), [st[4].as_int(), st[5].as_int(), st[6].as_int(), st[7].as_int()], "reference sponge disagrees with Rpo256::hash_elements");
    }
    match exec(&prog, &stack, AdviceInputs::default().with_stack(felts(&adv_stack))) {
        Err(p) => {
            rep.fail("panic", PROC, class, guard::short_panic(&p));
            "panic"
        }
        Ok(o) => {
            rep.say(|| format!("n={n} ptr={ptr} init={init}: stack {}\nexpected Ok{expected:?}\nmemory {:?}", brief(&o.stack), o.mem));
            if n == 0 {
                // "words must be positive": outside the contract; frame conditions only
                return match &o.stack {
                    Err(_) => "n=0:error",
                    Ok(s) => {
                        if s.len() != expected.len() || s[14..] != expected[14..] || s[0] != ADV_TAIL {
                            rep.fail("frame_violated", PROC, class, format!("stack {s:?}"));
                        } else if mem_mismatch(&Mem::new(), &o.mem).is_some() {
                            rep.fail("write_outside_destination", PROC, class, format!("{:?}", o.mem));
                        }
                        "n=0:returns"
                    }
                };
            }
            match &o.stack {
                Err(e) => {
                    rep.fail("unexpected_error", PROC, class, err_variant(e));
                    "error"
                }
                Ok(s) if *s != expected => {
                    rep.fail("wrong_stack", PROC, class, format!("stack {s:?}, expected {expected:?}"));
                    "wrong_stack"
                }
                Ok(_) => match mem_mismatch(&pipe_mem(ptr, &data), &o.mem) {
                    Some(d) => {
                        rep.fail("wrong_memory", PROC, class, d);
                        "wrong_memory"
                    }
                    None => "ok",
                },
            }
        }
    }
}

/// com: "ok", "bad0".."bad3" (one element of the commitment off by one), "other" (hash of other data)
fn check_pipe_preimage(ctx: &Ctx, n: u64, ptr: u64, com: &str, verbose: bool) -> String {
    const PROC: &str = "std::mem::pipe_preimage_to_memory";
    let case = json!({"part": "pipe_preimage", "n": n, "ptr": ptr, "com": com});
    let rep = Rep { ctx, verbose, case };
    let parity = if n % 2 == 0 { "even" } else { "odd" };
    let class = format!("{parity},commitment={}", if com == "ok" { "correct" } else { "wrong" });
    let prog = program("use.std::mem begin exec.mem::pipe_preimage_to_memory adv_push.1 end");
    let sent = sentinels(16);
    let data = pipe_data(n);
    let mut c = hash_elems(&data);
    match com {
        "ok" => {}
        "other" => {
            let mut d2 = data.clone();
            d2.push(1);
            c = hash_elems(&d2);
        }
        b if b.starts_with("bad") => {
            let i: usize = b[3..].parse().expect("badN");
            c[i] = (c[i] + 1) % P;
        }
        _ => panic!("unknown com {com}"),
    }
    let mut stack = vec![n, ptr];
    push_w(&mut stack, c);
    stack.extend(&sent);
    let mut adv_stack = data.clone();
    adv_stack.push(ADV_TAIL);
    let mut expected = vec![ADV_TAIL, ptr + n];
    expected.extend(&sent);
    match exec(&prog, &stack, AdviceInputs::default().with_stack(felts(&adv_stack))) {
        Err(p) => {
            rep.fail("panic", PROC, &class, guard::short_panic(&p));
            "panic".into()
        }
        Ok(o) => {
            rep.say(|| format!("n={n} ptr={ptr} com={com}: stack {}\nexpected {}\nmemory {:?}", brief(&o.stack), if com == "ok" { format!("Ok{expected:?}") } else { "an error".into() }, o.mem));
            match (&o.stack, com == "ok") {
                (Err(e), true) => {
                    rep.fail("unexpected_error", PROC, &class, err_variant(e));
                    "error".into()
                }
                (Err(e), false) => format!("rejected:{}", err_variant(e)),
                (Ok(s), false) => {
                    rep.fail("wrong_commitment_accepted", PROC, &class, format!("stack {s:?}"));
                    "accepted_wrong".into()
                }
                (Ok(s), true) if *s != expected => {
                    rep.fail("wrong_stack", PROC, &class, format!("stack {s:?}, expected {expected:?}"));
                    "wrong_stack".into()
                }
                (Ok(_), true) => match mem_mismatch(&pipe_mem(ptr, &data), &o.mem) {
                    Some(d) => {
                        rep.fail("wrong_memory", PROC, &class, d);
                        "wrong_memory".into()
                    }
                    None => "ok".into(),
                },
            }
        }
    }
}

// ------------------------------------------------------------------------------------------------
// mmr: arithmetic helpers
// ------------------------------------------------------------------------------------------------

/// Some(expected stack prefix) or None when the input must be rejected
fn mmr_arith_ref(proc_: &str, x: u64) -> Option<Vec<u64>> {
    match proc_ {
        "u32unchecked_trailing_ones" => Some(vec![(x as u32).trailing_ones() as u64]),
        "trailing_ones" => Some(vec![x.trailing_ones() as u64]),
        "ilog2_checked" => {
            if x == 0 {
                None
            } else {
                let l = 63 - x.leading_zeros() as u64;
                Some(vec![l, 1 << l])
            }
        }
        "num_leaves_to_num_peaks" => Some(vec![x.count_ones() as u64]),
        "num_peaks_to_message_size" => {
            let m = x.max(16);
            Some(vec![m + m % 2])
        }
        _ => panic!("unknown mmr helper {proc_}"),
    }
}

fn check_mmr_arith(ctx: &Ctx, proc_: &str, x: u64, verbose: bool) -> &'static str {
    let case = json!({"part": "mmr_arith", "proc": proc_, "x": x});
    let rep = Rep { ctx, verbose, case };
    let full = format!("std::collections::mmr::{proc_}");
    let class = if x == 0 {
        "x=0"
    } else if x & (x - 1) == 0 {
        "x=2^k"
    } else if x & (x + 1) == 0 {
        "x=2^k-1"
    } else {
        "other"
    };
    let prog = program(&format!("use.std::collections::mmr begin exec.mmr::{proc_} end"));
    let sent = sentinels(16);
    let mut stack = vec![x];
    stack.extend(&sent);
    let reference = mmr_arith_ref(proc_, x);
    match exec(&prog, &stack, AdviceInputs::default()) {
        Err(p) => {
            rep.fail("panic", &full, class, guard::short_panic(&p));
            "panic"
        }
        Ok(o) => {
            rep.say(|| format!("{proc_}({x}) -> {}; reference {reference:?} followed by {sent:?}", brief(&o.stack)));
            match (&o.stack, reference) {
                (Err(_), None) => "rejected",
                (Ok(s), None) => {
                    rep.fail("accepted_invalid", &full, class, format!("x={x} -> {s:?}"));
                    "accepted_invalid"
                }
                (Err(e), Some(_)) => {
                    rep.fail("unexpected_error", &full, class, format!("x={x} -> {}", err_variant(e)));
                    "error"
                }
                (Ok(s), Some(mut exp)) => {
                    exp.extend(&sent);
                    if *s != exp {
                        rep.fail("wrong_result", &full, class, format!("x={x} -> {s:?}, expected {exp:?}"));
                        "wrong_result"
                    } else {
                        "ok"
                    }
                }
            }
        }
    }
}

fn mmr_arith_inputs(proc_: &str, tier: Tier) -> Vec<u64> {
    let mut v: Vec<u64> = vec![];
    match proc_ {
        "num_peaks_to_message_size" => v.extend(0..=tier.pick(40, 200)),
        "u32unchecked_trailing_ones" | "ilog2_checked" => {
            v.extend(0..=tier.pick(256, 4096));
            for k in 0..32u32 {
                v.extend([1u64 << k, (1u64 << k) - 1, (1u64 << k) + 1, ((1u64 << k) - 1) ^ 0xFFFF_FFFF, (1u64 << k) | 0x8000_0000]);
                for j in 0..k {
                    v.push((1u64 << k) | (1u64 << j));
                    v.push(((1u64 << k) - 1) & !(1u64 << j));
                }
            }
            v.retain(|x| *x <= u32::MAX as u64);
        }
        _ => {
            v.extend(0..=tier.pick(256, 4096));
            for k in 0..64u32 {
                v.extend([1u64 << k, (1u64 << k) - 1, (1u64 << k) + 1]);
                for j in 0..k {
                    v.push((1u64 << k) | (1u64 << j));
                    v.push(((1u64 << k) - 1) & !(1u64 << j));
                }
            }
            v.retain(|x| *x < P);
        }
    }
    v.sort();
    v.dedup();
    v
}

// ------------------------------------------------------------------------------------------------
// mmr on peak lists (shared by the synthetic-peaks enumeration and the state machine)
// ------------------------------------------------------------------------------------------------

const MMR_PTR: u64 = 1000;
const MMR_PTR2: u64 = 2000;
const CHAIN_OUT: u64 = 5000;

fn mmr_layout(ptr: u64, num_leaves: u64, peaks: &[W]) -> Mem {
    let mut m = Mem::new();
    m.insert(ptr, [num_leaves, 0, 0, 0]);
    for (i, p) in peaks.iter().enumerate() {
        m.insert(ptr + 1 + i as u64, *p);
    }
    m
}

fn native_peaks(num_leaves: u64, peaks: &[W]) -> MmrPeaks {
    MmrPeaks::new(num_leaves as usize, peaks.iter().map(|p| digest(*p)).collect()).expect("peak count must match popcount(num_leaves)")
}

/// advice-map value `mmr::unpack` expects / `mmr::pack` produces: [num_leaves,0,0,0] ‖ padded peaks
fn mmr_map_value(num_leaves: u64, peaks: &[W]) -> Vec<u64> {
    let mut v = vec![num_leaves, 0, 0, 0];
    v.extend(ints(&native_peaks(num_leaves, peaks).flatten_and_pad_peaks()));
    v
}

/// loader arguments + advice stack that put an MMR at `ptr`
fn mmr_loader(ptr: u64, num_leaves: u64, peaks: &[W]) -> (Vec<u64>, Vec<u64>) {
    let mut adv = vec![num_leaves, 0, 0, 0];
    for p in peaks {
        adv.extend(p);
    }
    (vec![1 + peaks.len() as u64, ptr], adv)
}

fn class_of_leaves(n: u64) -> String {
    let peaks = n.count_ones();
    format!("peaks{}", if peaks == 0 { "=0".to_string() } else if peaks <= 16 { "<=16".into() } else if peaks % 2 == 1 { ">16,odd".into() } else { ">16,even".into() })
}

/// reference for `add` written from the documentation: merge the new element with the last peak
/// while the number of leaves has a trailing one bit
fn ref_add(num_leaves: u64, peaks: &[W], el: W) -> Vec<W> {
    let mut out = peaks.to_vec();
    let mut cur = el;
    let mut n = num_leaves;
    while n & 1 == 1 {
        let left = out.pop().expect("peak");
        cur = undigest(Rpo256::merge(&[digest(left), digest(cur)]));
        n >>= 1;
    }
    out.push(cur);
    out
}

/// op: "pack", "unpack", "unpack_bad", "pack_unpack", "add". `store`: Merkle store given to the VM.
/// Returns the outcome class and, for "add", the final process (for store inspection).
fn check_mmr_op(rep: &Rep, op: &str, num_leaves: u64, peaks: &[W], el: W, store: MerkleStore) -> (&'static str, Option<Obs>) {
    let full = format!("std::collections::mmr::{}", if op == "unpack_bad" { "unpack" } else if op == "pack_unpack_call" { "pack_unpack (inside a call)" } else { op });
    let class = if op == "unpack_bad" { "wrong_hash".to_string() } else { class_of_leaves(num_leaves) };
    let hash = undigest(native_peaks(num_leaves, peaks).hash_peaks());
    let map_value = mmr_map_value(num_leaves, peaks);
    let padded_words = (map_value.len() / 4 - 1) as u64;
    let (ld_args, ld_adv) = mmr_loader(MMR_PTR, num_leaves, peaks);
    let (src, mut stack, adv_stack, adv_map, exp_top, exp_mem): (String, Vec<u64>, Vec<u64>, Vec<(RpoDigest, Vec<Felt>)>, Vec<u64>, Mem) = match op {
        "pack" => {
            let mut st = ld_args.clone();
            st.push(MMR_PTR);
            let mut top = vec![];
            push_w(&mut top, hash);
            (format!("use.std::collections::mmr {LOADER} begin exec.load_words exec.mmr::pack end"), st, ld_adv, vec![], top, mmr_layout(MMR_PTR, num_leaves, peaks))
        }
        "unpack" | "unpack_bad" => {
            let mut st = vec![];
            push_w(&mut st, hash);
            st.push(MMR_PTR);
            let mut val = map_value.clone();
            if op == "unpack_bad" {
                // corrupt the first element of the first peak word (as the repository's own test does)
                val[4] = (val[4] + 1) % P;
            }
            ("use.std::collections::mmr begin exec.mmr::unpack end".to_string(), st, vec![], vec![(digest(hash), felts(&val))], vec![], mmr_layout(MMR_PTR, num_leaves, peaks))
        }
        "pack_unpack" => {
            let mut st = ld_args.clone();
            st.extend([MMR_PTR, MMR_PTR2]);
            let mut m = mmr_layout(MMR_PTR, num_leaves, peaks);
            m.extend(mmr_layout(MMR_PTR2, num_leaves, peaks));
            (format!("use.std::collections::mmr {LOADER} begin exec.load_words exec.mmr::pack exec.mmr::unpack end"), st, ld_adv, vec![], vec![], m)
        }
        // the same round trip inside a called procedure: a non-root execution context with its own memory
        // (the advice-map entry written by pack must hold the words of THAT context's memory)
        "pack_unpack_call" => {
            let mut st = ld_args.clone();
            st.extend([MMR_PTR, MMR_PTR2]);
            (
                format!("use.std::collections::mmr {LOADER} proc.in_call exec.load_words exec.mmr::pack exec.mmr::unpack end begin call.in_call end"),
                st,
                ld_adv,
                vec![],
                vec![],
                Mem::new(),
            )
        }
        "add" => {
            let mut st = ld_args.clone();
            push_w(&mut st, el);
            st.push(MMR_PTR);
            let new_peaks = ref_add(num_leaves, peaks, el);
            (format!("use.std::collections::mmr {LOADER} begin exec.load_words exec.mmr::add end"), st, ld_adv, vec![], vec![], mmr_layout(MMR_PTR, num_leaves + 1, &new_peaks))
        }
        _ => panic!("unknown mmr op {op}"),
    };
    let sent = sentinels(16);
    let n_args = stack.len();
    stack.extend(&sent);
    let mut expected = exp_top;
    if op == "pack_unpack_call" {
        // the callee sees the top 16 elements only: it consumes the arguments, zeros are shifted in at the
        // bottom of ITS stack, and the caller's deeper elements come back below them on return
        assert!(n_args <= 16 && expected.is_empty());
        expected.extend(&sent[..16 - n_args]);
        expected.extend(std::iter::repeat(0).take(n_args));
        expected.extend(&sent[16 - n_args..]);
    } else {
        expected.extend(&sent);
    }
    let prog = program(&src);
    let adv = AdviceInputs::default().with_stack(felts(&adv_stack)).with_map(adv_map).with_merkle_store(store);
    let o = match exec(&prog, &stack, adv) {
        Err(p) => {
            rep.fail("panic", &full, &class, guard::short_panic(&p));
            return ("panic", None);
        }
        Ok(o) => o,
    };
    rep.say(|| format!("{op} num_leaves={num_leaves} peaks={peaks:?}: stack {}\nexpected {}\nmemory {:?}\nexpected memory {exp_mem:?} (+ zero padding)", brief(&o.stack), if op == "unpack_bad" { "an error".into() } else { format!("Ok{expected:?}") }, o.mem));
    if op == "unpack_bad" {
        return match &o.stack {
            Err(_) => ("rejected", None),
            Ok(s) => {
                rep.fail("wrong_commitment_accepted", &full, &class, format!("stack {s:?}"));
                ("accepted_wrong", None)
            }
        };
    }
    match &o.stack {
        Err(e) => {
            rep.fail("unexpected_error", &full, &class, format!("num_leaves={num_leaves}: {}", err_variant(e)));
            return ("error", None);
        }
        Ok(s) if *s != expected => {
            let what = if op == "pack" { "wrong_hash" } else { "wrong_stack" };
            rep.fail(what, &full, &class, format!("num_leaves={num_leaves}: stack {s:?}, expected {expected:?}"));
            return (what, None);
        }
        Ok(_) => {}
    }
    if let Some(d) = mem_mismatch(&exp_mem, &o.mem) {
        rep.fail("wrong_memory", &full, &class, format!("num_leaves={num_leaves}: {d}"));
        return ("wrong_memory", None);
    }
    if op == "unpack" || op == "pack_unpack" {
        // the padding words are written as well
        let base = if op == "unpack" { MMR_PTR } else { MMR_PTR2 };
        if let Some(a) = (base..=base + padded_words).find(|a| !o.mem.contains_key(a)) {
            rep.fail("wrong_memory", &full, &class, format!("num_leaves={num_leaves}: address {a} was never written (padding)"));
            return ("wrong_memory", None);
        }
    }
    if op == "pack" || op == "pack_unpack" || op == "pack_unpack_call" {
        let host = o.p.host.borrow();
        let got = host.advice_provider().map().get(&digest(hash)).map(|v| ints(v));
        if got.as_deref() != Some(&map_value[..]) {
            drop(host);
            rep.fail("wrong_advice_map", &full, &class, format!("num_leaves={num_leaves}: advice map entry under the hash is {got:?}, expected {map_value:?}"));
            return ("wrong_advice_map", None);
        }
    }
    ("ok", Some(o))
}

fn synth_peaks(num_leaves: u64) -> Vec<W> {
    (0..num_leaves.count_ones() as u64).map(|i| [70_001 + i, 70_101 + i, 70_201 + i, 70_301 + i]).collect()
}

const SYNTH_EL: W = [81, 82, 83, 84];

fn check_mmr_synth(ctx: &Ctx, op: &str, num_leaves: u64, verbose: bool) -> &'static str {
    let case = json!({"part": "mmr_synth", "op": op, "num_leaves": num_leaves});
    let rep = Rep { ctx, verbose, case };
    check_mmr_op(&rep, op, num_leaves, &synth_peaks(num_leaves), SYNTH_EL, MerkleStore::new()).0
}

fn mmr_synth_leaf_counts(tier: Tier) -> Vec<u64> {
    let mut v: Vec<u64> = (0..=tier.pick(40u64, 300)).collect();
    for k in 6..=tier.pick(20u32, 31) {
        v.extend([(1u64 << k) - 1, 1u64 << k, (1u64 << k) + 1]);
    }
    v.extend([(1u64 << 32) - 1, 1u64 << 32, (1u64 << 32) + 1]);
    v.sort();
    v.dedup();
    v
}

// ------------------------------------------------------------------------------------------------
// SMT machine
// ------------------------------------------------------------------------------------------------

#[derive(Clone, Copy, PartialEq, Eq, Debug)]
enum SAct {
    Set(u8, u8),
    Get(u8),
    /// `adv.push_smtpeek adv_push.4`: the value the host's SMT injector reports for the key
    Peek(u8),
}

impl SAct {
    fn to_json(self) -> Value {
        match self {
            SAct::Set(k, v) => json!({"set": [k, v]}),
            SAct::Get(k) => json!({"get": k}),
            SAct::Peek(k) => json!({"peek": k}),
        }
    }
    fn from_json(v: &Value) -> SAct {
        if let Some(a) = v["set"].as_array() {
            SAct::Set(a[0].as_u64().unwrap() as u8, a[1].as_u64().unwrap() as u8)
        } else if let Some(k) = v["peek"].as_u64() {
            SAct::Peek(k as u8)
        } else {
            SAct::Get(v["get"].as_u64().expect("smt action") as u8)
        }
    }
}

fn acts_json(a: &[SAct]) -> Value {
    Value::Array(a.iter().map(|x| x.to_json()).collect())
}

fn acts_from(v: &Value) -> Vec<SAct> {
    v.as_array().expect("action list").iter().map(SAct::from_json).collect()
}

struct SmtCfg {
    keys: Vec<W>,
    vals: Vec<W>,
    /// value alphabet with the four words that have exactly one non-zero element
    sparse: bool,
}

/// keys 0 and 1 share the leaf index (element 3 of the key word); key 2 lives in another leaf;
/// key 3 (thorough) is the sibling leaf of key 2. Values are opaque payload (seed-dependent).
fn smt_cfg(nkeys: usize, seed: u64) -> SmtCfg {
    let s = seed.wrapping_mul(0x9E37_79B9).wrapping_add(seed >> 7) % (1 << 40);
    let keys = [[101, 102, 103, 42], [1, 12, 3, 42], [105, 106, 107, 77], [42, 77, 76, 76]];
    SmtCfg {
        keys: keys[..nkeys].to_vec(),
        vals: vec![[0; 4], [s + 1, s + 2, s + 3, s + 4], [s + 5, s + 6, s + 7, s + 8]],
        sparse: false,
    }
}

/// the same keys with the values {EMPTY, v1} and the four words with exactly one non-zero element:
/// a value is the empty word only if ALL its elements are zero, whichever element a test forgets
fn smt_cfg_sparse(nkeys: usize, seed: u64) -> SmtCfg {
    let mut c = smt_cfg(nkeys, seed);
    let t = c.vals[2][0];
    c.vals = vec![[0; 4], c.vals[1], [0, 0, 0, t], [0, 0, t, 0], [0, t, 0, 0], [t, 0, 0, 0]];
    c.sparse = true;
    c
}

impl SmtCfg {
    fn actions(&self) -> Vec<SAct> {
        let mut v = vec![];
        for k in 0..self.keys.len() as u8 {
            v.push(SAct::Get(k));
        }
        for k in 0..self.keys.len() as u8 {
            v.push(SAct::Peek(k));
        }
        for k in 0..self.keys.len() as u8 {
            for x in 0..self.vals.len() as u8 {
                v.push(SAct::Set(k, x));
            }
        }
        v
    }
    fn key(&self, a: SAct) -> RpoDigest {
        match a {
            SAct::Set(k, _) | SAct::Get(k) | SAct::Peek(k) => digest(self.keys[k as usize]),
        }
    }
    /// applies the action to the native tree; returns (value on the stack, root afterwards)
    fn apply(&self, smt: &mut Smt, a: SAct) -> (W, W) {
        match a {
            SAct::Set(k, v) => {
                let old = smt.insert(digest(self.keys[k as usize]), word(self.vals[v as usize]));
                (unword(old), undigest(smt.root()))
            }
            SAct::Get(k) | SAct::Peek(k) => (unword(smt.get_value(&digest(self.keys[k as usize]))), undigest(smt.root())),
        }
    }
    /// operand class of the action in the given pre-state and whether the documentation of
    /// smt.masm defines the outcome ("unimplemented" cases are not defined)
    fn class(&self, pre: &Smt, a: SAct) -> (&'static str, bool) {
        let key = self.key(a);
        let entries = pre.get_leaf(&key).into_entries();
        let same = entries.len() == 1 && entries[0].0 == key;
        match (a, entries.len()) {
            (SAct::Get(_), 0) => ("get:leaf_empty", true),
            (SAct::Get(_), 1) if same => ("get:leaf_single,same_key", true),
            (SAct::Get(_), 1) => ("get:leaf_single,other_key", true),
            (SAct::Get(_), _) => ("get:leaf_multiple(unimplemented)", false),
            (SAct::Peek(_), 0) => ("peek:leaf_empty", true),
            (SAct::Peek(_), 1) if same => ("peek:leaf_single,same_key", true),
            (SAct::Peek(_), 1) => ("peek:leaf_single,other_key", true),
            (SAct::Peek(_), _) => ("peek:leaf_multiple", true),
            (SAct::Set(_, 0), 0) => ("set:leaf_empty,value_empty", true),
            (SAct::Set(..), 0) => ("set:leaf_empty,insert", true),
            (SAct::Set(_, 0), 1) if same => ("set:leaf_single,remove", true),
            (SAct::Set(_, 0), 1) => ("set:leaf_single,other_key,value_empty", true),
            (SAct::Set(..), 1) if same => ("set:leaf_single,update", true),
            (SAct::Set(..), 1) => ("set:leaf_single,other_key,insert(unimplemented)", false),
            (SAct::Set(..), _) => ("set:leaf_multiple(unimplemented)", false),
        }
    }
}

fn smt_advice(smt: &Smt) -> AdviceInputs {
    let store = MerkleStore::from(smt);
    let map: Vec<(RpoDigest, Vec<Felt>)> = smt.leaves().map(|(_, leaf)| (leaf.hash(), leaf.to_elements())).collect();
    AdviceInputs::default().with_merkle_store(store).with_map(map)
}

const SMT_OUT: u64 = 500;

/// one program per pattern of action kinds; operands come from the stack inputs:
/// [R, operands of action 1, operands of action 2, …, sentinels]; results go to memory
fn smt_program(acts: &[SAct]) -> Arc<Program> {
    let mut src = String::from("use.std::collections::smt begin ");
    for (i, a) in acts.iter().enumerate() {
        let out = SMT_OUT + 2 * i as u64;
        src += match a {
            SAct::Set(..) => "movupw.2 movupw.2 exec.smt::set ",
            SAct::Get(..) => "swapw exec.smt::get ",
            SAct::Peek(..) => "swapw adv.push_smtpeek adv_push.4 swapw dropw ",
        };
        src += &format!("push.{out} mem_storew dropw push.{} mem_storew ", out + 1);
    }
    src += "end";
    program(&src)
}

/// Runs `acts` in ONE VM execution starting from the advice derived from the native tree reached by
/// `base`, compares every returned (value, root) pair with the native tree. `mode` is only a label.
fn smt_eval(ctx: &Ctx, cfg: &SmtCfg, hist: &Hist, mode: &str, base: &[SAct], acts: &[SAct], verbose: bool) {
    let case = json!({"part": "smt", "mode": mode, "nkeys": cfg.keys.len(), "sparse_values": cfg.sparse, "base": acts_json(base), "acts": acts_json(acts)});
    let rep = Rep { ctx, verbose, case };
    let mut native = Smt::new();
    for a in base {
        cfg.apply(&mut native, *a);
    }
    let adv = smt_advice(&native);
    let sent = sentinels(16);
    let mut stack = vec![];
    push_w(&mut stack, undigest(native.root()));
    for a in acts {
        match *a {
            SAct::Set(k, v) => {
                push_w(&mut stack, cfg.vals[v as usize]);
                push_w(&mut stack, cfg.keys[k as usize]);
            }
            SAct::Get(k) | SAct::Peek(k) => push_w(&mut stack, cfg.keys[k as usize]),
        }
    }
    stack.extend(&sent);
    // native expectations
    let mut expect = vec![];
    for a in acts {
        let (class, specified) = cfg.class(&native, *a);
        let (val, root) = cfg.apply(&mut native, *a);
        expect.push((class, specified, val, root));
    }
    let prog = smt_program(acts);
    let o = match exec(&prog, &stack, adv) {
        Err(p) => {
            rep.fail("panic", "std::collections::smt", mode, guard::short_panic(&p));
            hist.inc(&format!("{mode}:panic"));
            return;
        }
        Ok(o) => o,
    };
    rep.say(|| format!("keys {:?}\nvalues {:?}\nfinal stack {}\nresult memory {:?}", cfg.keys, cfg.vals, brief(&o.stack), o.mem));
    for (i, (class, specified, val, root)) in expect.iter().enumerate() {
        let proc_ = if class.starts_with("get") {
            "std::collections::smt::get"
        } else if class.starts_with("peek") {
            "adv.push_smtpeek"
        } else {
            "std::collections::smt::set"
        };
        let out = SMT_OUT + 2 * i as u64;
        let got = (o.mem.get(&out), o.mem.get(&(out + 1)));
        rep.say(|| format!("action {i} {:?} [{class}]: VM (value, root) = {got:?}; native = ({val:?}, {root:?})", acts[i]));
        match got {
            (Some(v), Some(r)) => {
                if v != val {
                    rep.fail("wrong_value", proc_, class, format!("action {i}: value {v:?}, native {val:?}"));
                    hist.inc(&format!("{mode}:wrong:{class}"));
                    return;
                }
                if r != root {
                    rep.fail("wrong_root", proc_, class, format!("action {i}: root {r:?}, native {root:?}"));
                    hist.inc(&format!("{mode}:wrong:{class}"));
                    return;
                }
                hist.inc(&format!("{mode}:agree:{class}"));
            }
            _ => {
                // the execution stopped in this action
                let e = match &o.stack {
                    Err(e) => err_variant(e),
                    Ok(_) => "no output written".into(),
                };
                if *specified {
                    rep.fail("unexpected_error", proc_, class, format!("action {i} failed: {e}"));
                    hist.inc(&format!("{mode}:failed:{class}"));
                } else {
                    hist.inc(&format!("{mode}:unspecified_failed:{class}"));
                }
                if i + 1 < acts.len() {
                    hist.inc(&format!("{mode}:chain_cut_short"));
                }
                return;
            }
        }
    }
    // all actions produced output: stack must be [R_final, sentinels], memory only the outputs
    let mut exp_stack = vec![];
    push_w(&mut exp_stack, expect.last().map(|e| e.3).unwrap_or(undigest(Smt::new().root())));
    exp_stack.extend(&sent);
    match &o.stack {
        Ok(s) if *s == exp_stack => {}
        other => rep.fail("wrong_stack", "std::collections::smt", mode, format!("final stack {}, expected {exp_stack:?}", brief(other))),
    }
    if let Some(a) = o.mem.keys().find(|a| **a < SMT_OUT || **a >= SMT_OUT + 2 * acts.len() as u64) {
        rep.fail("unexpected_memory_write", "std::collections::smt", mode, format!("address {a}"));
    }
}

#[derive(Clone)]
struct SState {
    hist: Vec<SAct>,
    smt: Smt,
}

struct SmtModel<'a> {
    ctx: &'a Ctx,
    cfg: SmtCfg,
    hist: Hist,
}

impl bfs::Model for SmtModel<'_> {
    type State = SState;
    type Action = SAct;
    fn init(&self) -> Vec<SState> {
        vec![SState { hist: vec![], smt: Smt::new() }]
    }
    fn actions(&self, _: &SState) -> Vec<SAct> {
        self.cfg.actions()
    }
    fn step(&self, s: &SState, a: &SAct) -> Option<SState> {
        // (1) advice from the native pre-state, one action
        smt_eval(self.ctx, &self.cfg, &self.hist, "single", &s.hist, &[*a], false);
        // (2) the whole history in one execution: advice is what the VM itself produced
        if !s.hist.is_empty() {
            let mut all = s.hist.clone();
            all.push(*a);
            smt_eval(self.ctx, &self.cfg, &self.hist, "chain", &[], &all, false);
        }
        let mut n = s.clone();
        self.cfg.apply(&mut n.smt, *a);
        if let SAct::Set(..) = a {
            n.hist.push(*a);
        }
        Some(n)
    }
    fn canon(&self, s: &SState) -> Vec<u8> {
        let mut entries: Vec<(W, W)> = s.smt.entries().map(|(k, v)| (undigest(*k), unword(*v))).collect();
        entries.sort();
        format!("{:?}|{:?}", undigest(s.smt.root()), entries).into_bytes()
    }
}

// ------------------------------------------------------------------------------------------------
// MMR machine
// ------------------------------------------------------------------------------------------------

#[derive(Clone, Copy, PartialEq, Eq, Debug)]
enum MAct {
    Add(u8),
    Get(u32),
    /// every leaf is added on the VM (empty memory, empty Merkle store), then every position is read
    ChainGetAll,
    Pack,
    Unpack,
    UnpackBad,
    PackUnpack,
}

impl MAct {
    fn to_json(self) -> Value {
        match self {
            MAct::Add(l) => json!({"add": l}),
            MAct::Get(p) => json!({"get": p}),
            MAct::ChainGetAll => json!("chain_get_all"),
            MAct::Pack => json!("pack"),
            MAct::Unpack => json!("unpack"),
            MAct::UnpackBad => json!("unpack_bad"),
            MAct::PackUnpack => json!("pack_unpack"),
        }
    }
    fn from_json(v: &Value) -> MAct {
        if let Some(s) = v.as_str() {
            return match s {
                "pack" => MAct::Pack,
                "unpack" => MAct::Unpack,
                "unpack_bad" => MAct::UnpackBad,
                "pack_unpack" => MAct::PackUnpack,
                "chain_get_all" => MAct::ChainGetAll,
                _ => panic!("unknown mmr action {s}"),
            };
        }
        if let Some(l) = v["add"].as_u64() {
            MAct::Add(l as u8)
        } else {
            MAct::Get(v["get"].as_u64().expect("mmr action") as u32)
        }
    }
}

fn mmr_leaf_alphabet(seed: u64) -> [W; 2] {
    let s = seed.wrapping_mul(0x5851_F42D).wrapping_add(seed >> 5) % (1 << 40);
    [[s + 11, s + 12, s + 13, s + 14], [s + 21, s + 22, s + 23, s + 24]]
}

fn mmr_prefill_leaf(i: usize) -> W {
    [40_001 + i as u64, 3, 5, 7]
}

fn mmr_leaves(seed: u64, prefill: usize, hist: &[u8]) -> Vec<W> {
    let alpha = mmr_leaf_alphabet(seed);
    (0..prefill).map(mmr_prefill_leaf).chain(hist.iter().map(|l| alpha[*l as usize])).collect()
}

fn mmr_build(leaves: &[W]) -> Mmr {
    let mut m = Mmr::new();
    for l in leaves {
        m.add(digest(*l));
    }
    m
}

fn mmr_peaks_of(m: &Mmr) -> Vec<W> {
    m.peaks(m.forest()).expect("peaks").peaks().iter().map(|d| undigest(*d)).collect()
}

/// (peak index, depth of the peak's tree, position inside the tree) of leaf `pos`
fn mmr_locate(forest: u64, pos: u64) -> (usize, u8, u64) {
    let mut acc = 0u64;
    let mut idx = 0usize;
    for b in (0..64u8).rev() {
        if forest >> b & 1 == 1 {
            let size = 1u64 << b;
            if pos < acc + size {
                return (idx, b, pos - acc);
            }
            acc += size;
            idx += 1;
        }
    }
    panic!("position {pos} is not in forest {forest}")
}

fn mmr_eval(ctx: &Ctx, hist: &Hist, prefill: usize, h: &[u8], act: MAct, verbose: bool) {
    let case = json!({"part": "mmr", "prefill": prefill, "hist": h, "act": act.to_json()});
    let rep = Rep { ctx, verbose, case };
    let leaves = mmr_leaves(ctx.seed, prefill, h);
    let native = mmr_build(&leaves);
    let n = leaves.len() as u64;
    let peaks = mmr_peaks_of(&native);
    let mut store = MerkleStore::new();
    store.extend(native.inner_nodes());
    let outcome: String = match act {
        MAct::Pack => check_mmr_op(&rep, "pack", n, &peaks, [0; 4], store).0.into(),
        MAct::Unpack => check_mmr_op(&rep, "unpack", n, &peaks, [0; 4], store).0.into(),
        MAct::UnpackBad => check_mmr_op(&rep, "unpack_bad", n, &peaks, [0; 4], store).0.into(),
        MAct::PackUnpack => check_mmr_op(&rep, "pack_unpack", n, &peaks, [0; 4], store).0.into(),
        MAct::Add(l) => {
            let el = mmr_leaf_alphabet(ctx.seed)[l as usize];
            let mut native2 = native.clone();
            native2.add(digest(el));
            let peaks2 = mmr_peaks_of(&native2);
            // the reference used for the memory layout must be the native structure's result
            assert_eq!(ref_add(n, &peaks, el), peaks2, "documentation-derived add disagrees with native Mmr");
            let (out, obs) = check_mmr_op(&rep, "add", n, &peaks, el, store);
            if let Some(o) = obs {
                // "update … the advice provider with any merged nodes": every leaf must be reachable
                // from its new peak through the VM's Merkle store
                let host = o.p.host.borrow();
                let st = host.advice_provider().store();
                let mut bad = None;
                let mut all = leaves.clone();
                all.push(el);
                for (pos, leaf) in all.iter().enumerate() {
                    let (pi, depth, rel) = mmr_locate(n + 1, pos as u64);
                    if depth == 0 {
                        continue;
                    }
                    let got = st.get_node(digest(peaks2[pi]), NodeIndex::new(depth, rel).expect("index"));
                    if got.ok().map(undigest) != Some(*leaf) {
                        bad = Some(pos);
                        break;
                    }
                }
                drop(host);
                if let Some(pos) = bad {
                    rep.fail("advice_store_not_updated", "std::collections::mmr::add", &class_of_leaves(n), format!("leaf {pos} of {} is not reachable from its peak in the VM's Merkle store after add", n + 1));
                }
            }
            out.into()
        }
        MAct::ChainGetAll => {
            let class = class_of_leaves(n);
            let src = format!(
                "use.std::collections::mmr begin
                    dup dup neq.0
                    while.true push.{MMR_PTR} padw adv_loadw exec.mmr::add sub.1 dup neq.0 end
                    drop dup neq.0
                    while.true
                        sub.1 dup push.{MMR_PTR} swap exec.mmr::get
                        dup.4 push.{CHAIN_OUT} add mem_storew dropw
                        dup neq.0
                    end
                    drop
                end"
            );
            let sent = sentinels(16);
            let mut stack = vec![n];
            stack.extend(&sent);
            let adv_stack: Vec<u64> = leaves.iter().flatten().copied().collect();
            let mut exp_mem = mmr_layout(MMR_PTR, n, &peaks);
            for (i, l) in leaves.iter().enumerate() {
                assert_eq!(undigest(native.get(i).expect("native get")), *l);
                exp_mem.insert(CHAIN_OUT + i as u64, *l);
            }
            match exec(&program(&src), &stack, AdviceInputs::default().with_stack(felts(&adv_stack))) {
                Err(p) => {
                    rep.fail("panic", "std::collections::mmr::add+get", &class, guard::short_panic(&p));
                    "panic".into()
                }
                Ok(o) => {
                    rep.say(|| format!("{n} leaves added on the VM, then get(pos) for every pos stored at {CHAIN_OUT}+pos: stack {}\nmemory {:?}\nexpected memory {exp_mem:?}", brief(&o.stack), o.mem));
                    match &o.stack {
                        Err(e) => {
                            rep.fail("unexpected_error", "std::collections::mmr::add+get", &class, format!("{n} leaves added on the VM: {}", err_variant(e)));
                            "error".into()
                        }
                        Ok(s) if *s != sent => {
                            rep.fail("wrong_stack", "std::collections::mmr::add+get", &class, format!("{n} leaves: stack {s:?}, expected {sent:?}"));
                            "wrong_stack".into()
                        }
                        Ok(_) => match mem_mismatch(&exp_mem, &o.mem) {
                            Some(d) => {
                                rep.fail("wrong_leaf_or_layout", "std::collections::mmr::add+get", &class, format!("{n} leaves added on the VM: {d}"));
                                "wrong_memory".into()
                            }
                            None => "ok".into(),
                        },
                    }
                }
            }
        }
        MAct::Get(pos) => {
            let pos = pos as u64;
            let (_, depth, _) = mmr_locate(n, pos);
            let class = format!("peak_depth{}", if depth == 0 { "=0" } else { ">0" });
            let native_leaf = undigest(native.get(pos as usize).expect("native get"));
            assert_eq!(native_leaf, leaves[pos as usize]);
            let sent = sentinels(16);
            let (mut stack, ld_adv) = mmr_loader(MMR_PTR, n, &peaks);
            stack.extend([pos, MMR_PTR]);
            let src = format!("use.std::collections::mmr {LOADER} begin exec.load_words exec.mmr::get end");
            let adv = AdviceInputs::default().with_stack(felts(&ld_adv)).with_merkle_store(store);
            stack.extend(&sent);
            let mut expected = vec![];
            push_w(&mut expected, native_leaf);
            expected.extend(&sent);
            match exec(&program(&src), &stack, adv) {
                Err(p) => {
                    rep.fail("panic", "std::collections::mmr::get", &class, guard::short_panic(&p));
                    "panic".into()
                }
                Ok(o) => {
                    rep.say(|| format!("{n} leaves, get({pos}): stack {}\nexpected Ok{expected:?}\nmemory {:?}", brief(&o.stack), o.mem));
                    match &o.stack {
                        Err(e) => {
                            rep.fail("unexpected_error", "std::collections::mmr::get", &class, format!("{n} leaves, pos {pos}: {}", err_variant(e)));
                            "error".into()
                        }
                        Ok(s) if *s != expected => {
                            rep.fail("wrong_leaf", "std::collections::mmr::get", &class, format!("{n} leaves, pos {pos}: stack {s:?}, expected {expected:?}"));
                            "wrong_leaf".into()
                        }
                        Ok(_) => match mem_mismatch(&mmr_layout(MMR_PTR, n, &peaks), &o.mem) {
                            Some(d) => {
                                rep.fail("wrong_memory", "std::collections::mmr::get", &class, format!("{n} leaves: {d}"));
                                "wrong_memory".into()
                            }
                            None => "ok".into(),
                        },
                    }
                }
            }
        }
    };
    let kind = match act {
        MAct::Add(_) => "add",
        MAct::Get(_) => "get",
        MAct::ChainGetAll => "chain_get_all",
        MAct::Pack => "pack",
        MAct::Unpack => "unpack",
        MAct::UnpackBad => "unpack_bad",
        MAct::PackUnpack => "pack_unpack",
    };
    hist.inc(&format!("{kind}:{outcome}"));
}

#[derive(Clone)]
struct MState {
    prefill: usize,
    hist: Vec<u8>,
}

struct MmrModel<'a> {
    ctx: &'a Ctx,
    prefills: Vec<usize>,
    hist: Hist,
}

impl bfs::Model for MmrModel<'_> {
    type State = MState;
    type Action = MAct;
    fn init(&self) -> Vec<MState> {
        self.prefills.iter().map(|p| MState { prefill: *p, hist: vec![] }).collect()
    }
    fn actions(&self, s: &MState) -> Vec<MAct> {
        let n = (s.prefill + s.hist.len()) as u32;
        let mut v = vec![MAct::Pack, MAct::Unpack, MAct::UnpackBad, MAct::PackUnpack, MAct::ChainGetAll];
        v.extend((0..n).map(MAct::Get));
        v.extend([MAct::Add(0), MAct::Add(1)]);
        v
    }
    fn step(&self, s: &MState, a: &MAct) -> Option<MState> {
        mmr_eval(self.ctx, &self.hist, s.prefill, &s.hist, *a, false);
        let mut n = s.clone();
        if let MAct::Add(l) = a {
            n.hist.push(*l);
        }
        Some(n)
    }
    fn canon(&self, s: &MState) -> Vec<u8> {
        let m = mmr_build(&mmr_leaves(self.ctx.seed, s.prefill, &s.hist));
        format!("{}|{:?}", m.forest(), mmr_peaks_of(&m)).into_bytes()
    }
}

// ------------------------------------------------------------------------------------------------
// driver
// ------------------------------------------------------------------------------------------------

const TRUNCATE_MODES: [&str; 5] = ["inputs", "pushes", "call16", "call21", "exec_locals"];
const MMR_HELPERS: [&str; 5] = ["u32unchecked_trailing_ones", "trailing_ones", "ilog2_checked", "num_leaves_to_num_peaks", "num_peaks_to_message_size"];
const SYNTH_OPS: [&str; 6] = ["pack", "unpack", "unpack_bad", "pack_unpack", "pack_unpack_call", "add"];

fn replay_case(ctx: &Ctx, case: &Value) {
    let hist = Hist::new();
    let s = |k: &str| case[k].as_str().unwrap_or_else(|| panic!("replay case lacks string field {k}")).to_string();
    match case["part"].as_str().expect("part") {
        "truncate" => check_truncate(ctx, &s("mode"), u(case, "k"), true),
        "memcopy" => {
            let c = check_memcopy(ctx, u(case, "n"), u(case, "read_ptr"), u(case, "write_ptr"), true);
            println!("outcome class: {c}");
        }
        "pipe_words" => println!("outcome class: {}", check_pipe_words(ctx, u(case, "n"), u(case, "ptr"), true)),
        "pipe_double" => println!("outcome class: {}", check_pipe_double(ctx, u(case, "n"), u(case, "ptr"), &s("init"), true)),
        "pipe_preimage" => println!("outcome class: {}", check_pipe_preimage(ctx, u(case, "n"), u(case, "ptr"), &s("com"), true)),
        "mmr_arith" => println!("outcome class: {}", check_mmr_arith(ctx, &s("proc"), u(case, "x"), true)),
        "mmr_synth" => println!("outcome class: {}", check_mmr_synth(ctx, &s("op"), u(case, "num_leaves"), true)),
        "smt" => {
            let cfg = if case["sparse_values"].as_bool() == Some(true) { smt_cfg_sparse(u(case, "nkeys") as usize, ctx.seed) } else { smt_cfg(u(case, "nkeys") as usize, ctx.seed) };
            smt_eval(ctx, &cfg, &hist, &s("mode"), &acts_from(&case["base"]), &acts_from(&case["acts"]), true);
            println!("outcome classes: {}", hist.json());
            if std::env::var("C18_TIMING").is_ok() {
                let t = std::time::Instant::now();
                smt_eval(ctx, &cfg, &Hist::new(), &s("mode"), &acts_from(&case["base"]), &acts_from(&case["acts"]), false);
                println!("second evaluation took {:?}", t.elapsed());
            }
        }
        "mmr" => {
            let h: Vec<u8> = case["hist"].as_array().expect("hist").iter().map(|x| x.as_u64().unwrap() as u8).collect();
            mmr_eval(ctx, &hist, u(case, "prefill") as usize, &h, MAct::from_json(&case["act"]), true);
            if std::env::var("C18_TIMING").is_ok() {
                let t = std::time::Instant::now();
                mmr_eval(ctx, &Hist::new(), u(case, "prefill") as usize, &h, MAct::from_json(&case["act"]), false);
                println!("second evaluation took {:?}", t.elapsed());
            }
            println!("outcome classes: {}", hist.json());
        }
        "probe" => {
            // development aid: run an arbitrary program and print what the harness observes
            let ints = |k: &str| -> Vec<u64> { case[k].as_array().map(|a| a.iter().map(|x| x.as_u64().unwrap()).collect()).unwrap_or_default() };
            let prog = program(&s("src"));
            let t = std::time::Instant::now();
            let o = exec(&prog, &ints("stack"), AdviceInputs::default().with_stack(felts(&ints("adv_stack")))).expect("probe panicked");
            println!("probe: {} cycles in {:?}: stack {} memory {:?}", o.p.system.clk(), t.elapsed(), brief(&o.stack), o.mem);
        }
        p => panic!("unknown part {p}"),
    }
}

/// Every run allocates ~100 trace columns; on this box a fresh page costs ~0.1 ms, so returning
/// freed memory to the kernel after each run makes execution time quadratic-looking in the cycle
/// count. Keep freed memory in the process instead.
fn tune_allocator() {
    #[cfg(all(target_os = "linux", target_env = "gnu"))]
    unsafe {
        libc::mallopt(libc::M_MMAP_THRESHOLD, 32 << 20);
        libc::mallopt(libc::M_TRIM_THRESHOLD, i32::MAX);
        libc::mallopt(libc::M_TOP_PAD, 64 << 20);
    }
}

/// the loader and the observation path themselves (machinery, not a verdict)
fn self_check() {
    let prog = program(&format!("{LOADER} begin exec.load_words end"));
    let mut stack = vec![2, 300];
    stack.extend(sentinels(16));
    let o = exec(&prog, &stack, AdviceInputs::default().with_stack(felts(&[1, 2, 3, 4, 5, 6, 7, 8]))).expect("SUBJECT: loader must not panic");
    assert_eq!(o.stack.as_ref().expect("SUBJECT: loader must run"), &sentinels(16), "loader must leave the stack clean");
    let exp: Mem = [(300, [1, 2, 3, 4]), (301, [5, 6, 7, 8])].into_iter().collect();
    assert!(mem_mismatch(&exp, &o.mem).is_none(), "loader must write the words in advice order: {:?}", o.mem);
    let o2 = exec(&prog, &stack, AdviceInputs::default().with_stack(felts(&[1, 2, 3, 4, 5, 6, 7, 8]))).expect("SUBJECT: loader must not panic");
    assert!(o.stack == o2.stack && o.mem == o2.mem, "two runs of the same case must give the same observation");
    let mut v = vec![];
    push_w(&mut v, [1, 2, 3, 4]);
    assert_eq!(word_at(&v, 0), [1, 2, 3, 4]);
    let _ = ZERO;
}

pub fn run(ctx: &Ctx, replay: Option<&Value>) -> i32 {
    if let Some(case) = replay {
        tune_allocator();
        replay_case(ctx, case);
        return ctx.finish(LEVEL, json!({}), &[]);
    }
    tune_allocator();
    self_check();
    let tier = ctx.tier;
    let t0 = std::time::Instant::now();
    let mut timing = BTreeMap::new();
    let mut lap = |name: &str, t: &mut std::time::Instant| {
        timing.insert(name.to_string(), (t.elapsed().as_secs_f64() * 100.0).round() / 100.0);
        *t = std::time::Instant::now();
    };
    let mut t = t0;

    // ---- truncate_stack ---------------------------------------------------------------------
    let mut trunc_cases: Vec<(&str, u64)> = vec![];
    for m in TRUNCATE_MODES {
        let (lo, hi) = if m == "inputs" { (16u64, 48u64) } else { (0, 32) };
        trunc_cases.extend((lo..=hi).map(|k| (m, k)));
    }
    trunc_cases.par_iter().for_each(|(m, k)| check_truncate(ctx, m, *k, false));
    ctx.sample(json!({"part": "truncate", "mode": "call21", "k": 17, "meaning": "21 caller elements, callee pushes 17 then truncates: depth 33 seen by truncate_stack"}));
    lap("truncate_stack", &mut t);

    // ---- memcopy ------------------------------------------------------------------------------
    let n_max = tier.pick(4u64, 6);
    let mut mc_cases = vec![];
    for n in 0..=n_max {
        for r in 100..108u64 {
            for w in 100..108u64 {
                mc_cases.push((n, r, w));
            }
        }
    }
    let mc_hist = Hist::new();
    mc_cases.par_iter().for_each(|&(n, r, w)| mc_hist.inc(check_memcopy(ctx, n, r, w, false)));
    let mc_overlapping = mc_cases.iter().filter(|&&(n, r, w)| n > 0 && r < w + n && w < r + n).count();
    ctx.sample(json!({"part": "memcopy", "n": 3, "read_ptr": 101, "write_ptr": 105}));
    lap("memcopy", &mut t);

    // ---- pipe_* -------------------------------------------------------------------------------
    let pipe_hist = Hist::new();
    let words_max = tier.pick(5u64, 11);
    let ptrs: Vec<u64> = tier.pick(vec![100], vec![0, 100, 1_000_000_000]);
    let mut pipe_cases: Vec<Value> = vec![];
    for &ptr in &ptrs {
        for n in 0..=words_max {
            pipe_cases.push(json!({"p": "words", "n": n, "ptr": ptr}));
            for com in ["ok", "bad0", "bad1", "bad2", "bad3", "other"] {
                pipe_cases.push(json!({"p": "preimage", "n": n, "ptr": ptr, "com": com}));
            }
            if n % 2 == 0 {
                for init in ["zero", "distinct"] {
                    pipe_cases.push(json!({"p": "double", "n": n, "ptr": ptr, "init": init}));
                }
            }
        }
    }
    pipe_cases.par_iter().for_each(|c| {
        let (n, ptr) = (u(c, "n"), u(c, "ptr"));
        match c["p"].as_str().unwrap() {
            "words" => pipe_hist.inc(&format!("pipe_words:{}", check_pipe_words(ctx, n, ptr, false))),
            "double" => pipe_hist.inc(&format!("pipe_double_words:{}", check_pipe_double(ctx, n, ptr, c["init"].as_str().unwrap(), false))),
            _ => pipe_hist.inc(&format!("pipe_preimage:{}", check_pipe_preimage(ctx, n, ptr, c["com"].as_str().unwrap(), false))),
        }
    });
    ctx.sample(json!({"part": "pipe_preimage", "n": 3, "ptr": 100, "com": "bad2"}));
    lap("pipe", &mut t);

    // ---- mmr helpers and synthetic peak lists -------------------------------------------------
    let arith_hist = Hist::new();
    let mut arith_cases = vec![];
    for p in MMR_HELPERS {
        arith_cases.extend(mmr_arith_inputs(p, tier).into_iter().map(|x| (p, x)));
    }
    arith_cases.par_iter().for_each(|(p, x)| arith_hist.inc(&format!("{p}:{}", check_mmr_arith(ctx, p, *x, false))));
    let synth_hist = Hist::new();
    let synth_ns = mmr_synth_leaf_counts(tier);
    let synth_cases: Vec<(&str, u64)> = SYNTH_OPS.iter().flat_map(|op| synth_ns.iter().map(move |n| (*op, *n))).collect();
    synth_cases.par_iter().for_each(|(op, n)| synth_hist.inc(&format!("{op}:{}", check_mmr_synth(ctx, op, *n, false))));
    ctx.sample(json!({"part": "mmr_synth", "op": "add", "num_leaves": 131071}));
    lap("mmr_helpers_and_synthetic_peaks", &mut t);

    // ---- SMT machine --------------------------------------------------------------------------
    let nkeys = tier.pick(3usize, 4);
    let smt_depth = tier.pick(3usize, 5);
    let smt_model = SmtModel { ctx, cfg: smt_cfg(nkeys, ctx.seed), hist: Hist::new() };
    let smt_stats = bfs::bfs(&smt_model, smt_depth, tier.pick(600.0, 3600.0), 1_000_000);
    lap("smt_bfs", &mut t);
    // every sequence of actions of a fixed length in one VM execution (shorter ones are prefixes)
    let seq_plans: Vec<(usize, usize)> = tier.pick(vec![(3, 3)], vec![(3, 4), (4, 3)]);
    let seq_hist = Hist::new();
    let mut n_seqs = 0usize;
    let mut seq_desc = vec![];
    for &(nk, len) in &seq_plans {
        let seq_cfg = smt_cfg(nk, ctx.seed);
        let seqs = mcx::space::tuples(&seq_cfg.actions(), len);
        assert_eq!(seqs.len() as u64, mcx::space::tuples_card(seq_cfg.actions().len(), len));
        seqs.par_iter().for_each(|s| smt_eval(ctx, &seq_cfg, &seq_hist, "sequence", &[], s, false));
        ctx.sample(json!({"part": "smt", "mode": "sequence", "nkeys": nk, "base": [], "acts": acts_json(&seqs[seqs.len() / 3])}));
        n_seqs += seqs.len();
        seq_desc.push(format!("all {} sequences of length {len} over the {} actions on {nk} keys", seqs.len(), seq_cfg.actions().len()));
    }
    // the same with the sparse value alphabet (keys 0 and 1 share a leaf)
    for &(nk, len) in &tier.pick(vec![(2usize, 3usize)], vec![(2, 3), (1, 4)]) {
        let seq_cfg = smt_cfg_sparse(nk, ctx.seed);
        let seqs = mcx::space::tuples(&seq_cfg.actions(), len);
        seqs.par_iter().for_each(|s| smt_eval(ctx, &seq_cfg, &seq_hist, "sequence", &[], s, false));
        n_seqs += seqs.len();
        seq_desc.push(format!("all {} sequences of length {len} over the {} actions on {nk} keys with the values {{EMPTY, v1, four words with one non-zero element}}", seqs.len(), seq_cfg.actions().len()));
    }
    lap("smt_sequences", &mut t);

    // ---- MMR machine --------------------------------------------------------------------------
    let mmr_model = MmrModel { ctx, prefills: tier.pick(vec![0, 13], vec![0, 13, 29, 61]), hist: Hist::new() };
    let mmr_depth = tier.pick(5usize, 8);
    let mmr_stats = bfs::bfs(&mmr_model, mmr_depth, tier.pick(600.0, 3600.0), 1_000_000);
    ctx.sample(json!({"part": "mmr", "prefill": 13, "hist": [0, 1, 1], "act": "chain_get_all"}));
    lap("mmr_bfs", &mut t);

    let caps: Vec<String> = [&smt_stats.cap_hit, &mmr_stats.cap_hit].iter().filter_map(|c| (*c).clone()).collect();
    if !caps.is_empty() {
        panic!("explorer cap hit before the stated bound: {caps:?}");
    }
    let smt_vm_runs: u64 = ["single", "chain"].iter().map(|m| smt_model.hist.0.lock().unwrap().iter().filter(|(k, _)| k.starts_with(m) && !k.ends_with("chain_cut_short")).map(|(_, v)| *v).sum::<u64>()).sum();
    let unspecified: u64 = [&smt_model.hist, &seq_hist].iter().map(|h| h.0.lock().unwrap().iter().filter(|(k, _)| k.contains("unspecified")).map(|(_, v)| *v).sum::<u64>()).sum();
    let transitions = smt_stats.transitions + mmr_stats.transitions;
    let e_cases = trunc_cases.len() + mc_cases.len() + pipe_cases.len() + arith_cases.len() + synth_cases.len() + n_seqs;
    let cov = json!({
        "states": smt_stats.states + mmr_stats.states,
        "transitions": transitions,
        "traces_validated_against_impl": transitions,
        "exhaustive": true,
        "bounds": {
            "truncate_stack": "depth seen by the procedure 16..=48 (stack inputs), 16+k / 18+k for k pushes 0..=32 at top level, inside call (caller depth 16 and 21) and inside a procedure with 3 locals; contents pairwise distinct",
            "memcopy": format!("n in 0..={n_max}, read_ptr and write_ptr in 100..=107, memory {FILL_LO}..{FILL_HI} pre-filled with distinct words"),
            "pipe": format!("word counts 0..={words_max} (double_words: even only), write_ptr in {ptrs:?}, preimage with the correct commitment, each commitment element off by one, and the hash of other data"),
            "mmr_helpers": "0..=256 (thorough 4096), 2^k, 2^k±1, all values with two set bits / one cleared bit below 2^k, for k < 32 (u32 helpers) or k < 64",
            "mmr_synthetic_peaks": format!("pack / unpack / unpack with corrupted data / pack→unpack / add on {} leaf counts (0..=40(300), 2^k-1, 2^k, 2^k+1 for k in 6..=20(31), 2^32-1, 2^32, 2^32+1) with synthetic peaks", synth_ns.len()),
            "smt_machine": format!("{nkeys} keys (keys 0,1 share leaf index 42; key 2 leaf 77; key 3 leaf 76), values {{EMPTY, v1, v2}}, actions get(k), peek(k) (= adv.push_smtpeek adv_push.4), set(k,v); BFS depth {smt_depth}, de-duplicated by root + stored pairs; every transition: one VM run with advice from the native pre-state + one VM run of the state's whole history followed by the action"),
            "smt_sequences": format!("{}; each in one VM execution from the empty tree", seq_desc.join("; ")),
            "mmr_machine": format!("initial MMRs with {:?} leaves, actions add(leaf a|b), get(pos) for every valid pos, 're-add every leaf on the VM starting from nothing, then get every pos' in one execution, pack, unpack, unpack with corrupted data, pack→unpack; BFS depth {mmr_depth}, de-duplicated by forest + peaks", mmr_model.prefills),
        },
        "smt_machine": {"states": smt_stats.states, "transitions": smt_stats.transitions, "duplicates": smt_stats.duplicates, "frontier_sizes": smt_stats.frontier_sizes, "depth_completed": smt_stats.depth_completed, "vm_runs": smt_vm_runs, "outcomes": smt_model.hist.json()},
        "smt_sequences": {"sequences": n_seqs, "outcomes": seq_hist.json()},
        "mmr_machine": {"states": mmr_stats.states, "transitions": mmr_stats.transitions, "duplicates": mmr_stats.duplicates, "frontier_sizes": mmr_stats.frontier_sizes, "depth_completed": mmr_stats.depth_completed, "outcomes": mmr_model.hist.json()},
        "unspecified_cases_not_compared": unspecified,
        "enumerated_cases_outside_the_machines": e_cases,
        "truncate_stack_cases": trunc_cases.len(),
        "truncate_stack_depths": "16..=48",
        "memcopy_triples": mc_cases.len(),
        "memcopy_overlapping_triples": mc_overlapping,
        "memcopy_outcomes": mc_hist.json(),
        "pipe_cases": pipe_cases.len(),
        "pipe_outcomes": pipe_hist.json(),
        "mmr_helper_cases": arith_cases.len(),
        "mmr_helper_outcomes": arith_hist.json(),
        "mmr_synthetic_cases": synth_cases.len(),
        "mmr_synthetic_outcomes": synth_hist.json(),
        "wall_s_per_part": timing,
    });
    let _ = mc_hist.get("ok");
    ctx.finish(LEVEL, cov, &[
        "miden-crypto's Smt, Mmr, MmrPeaks, MerkleStore and Rpo256 are the reference (the property names them as such)",
        "cases the masm documentation marks as unimplemented (smt leaf with several pairs) or leaves undefined (memcopy on overlapping ranges, pipe_double_words with zero words) are executed and counted, and only checked for: a returned result equals the native one / nothing outside the destination changes",
        "memory above 2^30 (procedure locals of the root context) is not compared",
        "value words, leaf digests and synthetic peaks are fixed opaque payloads (VERIF_SEED shifts the SMT values and MMR leaves)",
    ])
}
