//! C14 — execution is deterministic and step-through agrees with the trace.
//!
//! (D) determinism over the program families: two runs, tracing flag on/off, debug-mode assembly,
//!     every decorator kind inserted at every instruction boundary => identical outputs and an
//!     identical main trace (the expected-cycles hint is covered by C03);
//! (S) the step iterator as a state machine: ALL sequences over {next, back} up to a length bound
//!     on a fresh iterator each (its cursor is private, so states are histories); every VmState
//!     returned for clock t must equal row t of the trace of the same execution: top 16, depth,
//!     overflow part, fmp, ctx, op of row t-1, memory written before t; no panic; and after any
//!     history the iterator can still be drained forward to the last clock;
//! (K) `clk` pushes the clock value of its row.

use crate::common::*;
use crate::progs;
use mcx::{json, Ctx, Value};
use processor::{ExecutionOptions, VmState};
use rayon::prelude::*;
use std::collections::BTreeMap;
use std::sync::Mutex;
use vm_core::{Felt, StarkField};
use winter_prover::Trace;

const CLK: usize = 0;
const FMP: usize = 1;
const CTXC: usize = 2;
const OPB: usize = 9;
const S0: usize = 32;
const B0: usize = 48;
const CHIP: usize = 53;

fn digest(t: &processor::ExecutionTrace) -> Vec<u64> {
    let m = t.main_segment();
    let n = m.num_rows();
    let mut out = Vec::with_capacity(m.num_cols() * n);
    for c in 0..m.num_cols() {
        for r in 0..n - 1 {
            out.push(m.get(c, r).as_int());
        }
    }
    out
}

// ---- reference view of the trace -----------------------------------------------------------------

struct Rows {
    cycles: usize,
    /// per row t: full stack (top 16 + overflow of the current context, top first)
    stack: Vec<Vec<u64>>,
    /// per row t: the overflow elements of the suspended (calling) contexts, innermost caller first
    hidden: Vec<Vec<u64>>,
    fmp: Vec<u64>,
    ctx: Vec<u64>,
    opcode: Vec<u8>,
    /// per row t, memory of the row's context: address -> word, for accesses at clocks < t (zero words dropped)
    mem: Vec<BTreeMap<u64, [u64; 4]>>,
}

fn rows_of(t: &processor::ExecutionTrace, inputs_top_first: &[u64]) -> Rows {
    let m = t.main_segment();
    let n = m.num_rows();
    let cycles = t.trace_len_summary().main_trace_len();
    let g = |c: usize, r: usize| m.get(c, r).as_int();
    // overflow content per row, reconstructed from depth changes and s15 (docs/src/design/stack/main.md)
    let mut ov: Vec<u64> = inputs_top_first.iter().skip(16).cloned().collect(); // top of the overflow first
    let mut saved: Vec<Vec<u64>> = vec![];
    let mut stack = vec![];
    let mut hidden: Vec<Vec<u64>> = vec![];
    let (mut fmp, mut ctx, mut opcode) = (vec![], vec![], vec![]);
    for r in 0..=cycles.min(n - 2) {
        let mut s: Vec<u64> = (0..16).map(|i| g(S0 + i, r)).collect();
        s.extend(ov.iter());
        stack.push(s);
        hidden.push(saved.iter().rev().flatten().cloned().collect::<Vec<u64>>());
        fmp.push(g(FMP, r));
        ctx.push(g(CTXC, r));
        let mut o = 0u8;
        for b in 0..7 {
            o |= ((g(OPB + b, r) & 1) as u8) << b;
        }
        opcode.push(o);
        if r < cycles.min(n - 2) {
            let (d, d2) = (g(B0, r), g(B0, r + 1));
            if g(CTXC, r + 1) != g(CTXC, r) {
                // context switch: the overflow of the old context is hidden / the saved one restored
                if o == refvm::mast::opcode::CALL || o == refvm::mast::opcode::SYSCALL {
                    saved.push(std::mem::take(&mut ov));
                } else {
                    ov = saved.pop().unwrap_or_default();
                }
            } else if d2 == d + 1 {
                ov.insert(0, g(S0 + 15, r));
            } else if d2 + 1 == d && d > 16 {
                if !ov.is_empty() {
                    ov.remove(0);
                }
            }
        }
    }
    // memory from the memory chiplet rows: selectors s0 = 1, s1 = 1, s2 = 0
    let mut accesses: Vec<(u64, u64, u64, [u64; 4])> = vec![]; // (ctx, addr, clk, value)
    for r in 0..n - 1 {
        if g(CHIP, r) == 1 && g(CHIP + 1, r) == 1 && g(CHIP + 2, r) == 0 {
            accesses.push((g(CHIP + 5, r), g(CHIP + 6, r), g(CHIP + 7, r), [g(CHIP + 8, r), g(CHIP + 9, r), g(CHIP + 10, r), g(CHIP + 11, r)]));
        }
    }
    accesses.sort_by_key(|a| a.2);
    let mut mem = vec![];
    for r in 0..stack.len() {
        let mut mm: BTreeMap<u64, [u64; 4]> = BTreeMap::new();
        for a in accesses.iter().filter(|a| a.0 == ctx[r] && a.2 < r as u64) {
            mm.insert(a.1, a.3);
        }
        mm.retain(|_, w| *w != [0; 4]);
        mem.push(mm);
    }
    Rows { cycles, stack, hidden, fmp, ctx, opcode, mem }
}

/// every aspect in which the reported state differs from trace row `clk` (all of them: a deviation in
/// one aspect - e.g. the recorded overflow-lag finding - must not hide a deviation in another)
fn check_state(s: &VmState, rows: &Rows) -> Vec<(String, String)> {
    let mut out = vec![];
    let t = s.clk as usize;
    if t >= rows.stack.len() {
        return vec![("state_beyond_last_clock".into(), format!("clk {t}, program has {} cycles", rows.cycles))];
    }
    let st: Vec<u64> = s.stack.iter().map(|x| x.as_int()).collect();
    let want = &rows.stack[t];
    if st.len() < 16 || st[..16] != want[..16] {
        out.push(("top16_differs_from_trace".into(), format!("clk {t}: iterator {:?} trace {:?}", st, want)));
    } else if st != *want {
        // classify: is it the overflow content of the *next* row (taken after the operation), or
        // the initial overflow missing?
        let next = rows.stack.get(t + 1).map(|n| n[16..].to_vec());
        let lag = next.as_ref().map(|n| st[16..] == n[..]).unwrap_or(false);
        let initial_missing = st.len() == 16 && rows.stack[0].len() > 16 && want[16..] == rows.stack[0][16..];
        // inside a call / syscall: the iterator also lists the overflow of the suspended callers
        // (own part as of this row or - the lag above - of the next row, callers' part likewise)
        let own: Vec<&[u64]> = [Some(&want[16..]), rows.stack.get(t + 1).map(|n| &n[16..])].into_iter().flatten().collect();
        let callers: Vec<&[u64]> = [rows.hidden.get(t), rows.hidden.get(t + 1)].into_iter().flatten().map(|h| &h[..]).filter(|h| !h.is_empty()).collect();
        let shows_callers = own.iter().any(|o| callers.iter().any(|h| st[16..].len() == o.len() + h.len() && st[16..16 + o.len()] == **o && st[16 + o.len()..] == **h));
        let kind = if lag || initial_missing {
            "overflow_part_lags_by_one_operation"
        } else if shows_callers {
            "overflow_part_lists_suspended_callers_overflow"
        } else {
            "overflow_part_differs_from_trace"
        };
        out.push((kind.into(), format!("clk {t}: iterator stack {:?} trace {:?}", st, want)));
    }
    if s.fmp.as_int() != rows.fmp[t] {
        out.push(("fmp_differs_from_trace".into(), format!("clk {t}: {} vs {}", s.fmp.as_int(), rows.fmp[t])));
    }
    if u32::from(s.ctx) as u64 != rows.ctx[t] {
        out.push(("ctx_differs_from_trace".into(), format!("clk {t}: iterator ctx {} trace ctx {}", u32::from(s.ctx), rows.ctx[t])));
    }
    match (s.op, t) {
        (None, 0) => {}
        (Some(op), t) if t > 0 && op.op_code() == rows.opcode[t - 1] => {}
        (op, _) => out.push(("op_differs_from_trace".into(), format!("clk {t}: {op:?}"))),
    }
    let mem: BTreeMap<u64, [u64; 4]> =
        s.memory.iter().map(|(a, w)| (*a, [w[0].as_int(), w[1].as_int(), w[2].as_int(), w[3].as_int()])).filter(|(_, w)| *w != [0; 4]).collect();
    if mem != rows.mem[t] {
        out.push(("memory_differs_from_trace".into(), format!("clk {t}: iterator {:?} trace {:?}", mem, rows.mem[t])));
    }
    out
}

struct StepProg {
    name: &'static str,
    src: &'static str,
    stack: Vec<u64>,
    max_len: usize,
}

fn step_programs(tier: mcx::Tier) -> Vec<StepProg> {
    let deep: Vec<u64> = (1..=20).collect();
    let l = tier.pick(11usize, 16usize);
    vec![
        StepProg { name: "tiny", src: "begin push.1 drop end", stack: vec![], max_len: tier.pick(12, 17) },
        StepProg { name: "deep_inputs", src: "begin swap drop push.7 end", stack: deep.clone(), max_len: l },
        StepProg { name: "cross_16", src: "begin push.1 push.2 push.3 drop drop drop drop drop end", stack: (1..=17).collect(), max_len: l },
        StepProg { name: "call", src: "proc.f push.5 mem_store.3 mem_load.3 drop end begin push.9 mem_store.3 call.f mem_load.3 drop end", stack: deep.clone(), max_len: l },
        StepProg { name: "call_nested", src: "proc.g push.7 mem_store.3 mem_load.3 drop end proc.f push.5 mem_store.3 call.g mem_load.3 drop end begin push.9 mem_store.3 call.f mem_load.3 drop end", stack: vec![1, 2], max_len: tier.pick(8, 13) },
        StepProg { name: "dyncall", src: "proc.f push.5 mem_store.3 mem_load.3 drop end begin push.9 mem_store.3 procref.f dyncall dropw mem_load.3 drop end", stack: vec![1, 2], max_len: tier.pick(8, 13) },
        // the same word written three times with different values, read in between (the memory view at clock t
        // must show the LATEST write before t, not the first), also a second word and a word write over an element write
        StepProg { name: "rewrite", src: "begin push.11 mem_store.3 push.22 mem_store.3 mem_load.3 drop push.1.2.3.4 mem_storew.3 dropw push.33 mem_store.5 mem_load.3 drop end", stack: vec![1, 2], max_len: tier.pick(8, 13) },
        StepProg { name: "locals", src: "proc.f.2 push.4 loc_store.1 loc_load.1 drop end begin exec.f push.1 drop end", stack: vec![3], max_len: l },
        StepProg { name: "loop", src: "begin push.2 dup neq.0 while.true push.1 sub dup neq.0 end drop end", stack: vec![], max_len: l },
    ]
}

fn run_history(program: &processor::Program, stack: &[u64], history: &[bool]) -> Result<(Vec<Option<VmState>>, Vec<u32>), String> {
    // history: true = next, false = back; afterwards the iterator is drained with next()
    mcx::guard::catch(|| {
        let mut it = processor::execute_iter(program, stack_inputs(stack), host(&[]));
        let mut out = vec![];
        for &fwd in history {
            let s = if fwd { it.next().and_then(|r| r.ok()) } else { it.back() };
            out.push(s);
        }
        let mut drained = vec![];
        for _ in 0..100_000 {
            match it.next() {
                Some(Ok(s)) => drained.push(s.clk),
                _ => break,
            }
        }
        (out, drained)
    })
}

fn stepping(ctx: &Ctx, stats: &Mutex<BTreeMap<String, u64>>) {
    for sp in step_programs(ctx.tier) {
        let program = assembler().compile(sp.src).expect("SUBJECT: stepping program must assemble");
        let trace = exec_trace(&program, &sp.stack, processor::AdviceInputs::default(), ExecutionOptions::default())
            .expect("SUBJECT: stepping program must not panic")
            .expect("SUBJECT: stepping program must execute");
        let rows = rows_of(&trace, &sp.stack);
        let total: u64 = (0..=sp.max_len).map(|l| 1u64 << l).sum();
        let mut all: Vec<Vec<bool>> = (0..=sp.max_len).flat_map(|l| (0..(1u64 << l)).map(move |bits| (0..l).map(|i| (bits >> i) & 1 == 1).collect())).collect();
        assert_eq!(all.len() as u64, total);
        // start from non-initial states too: p forward steps (every p up to past the last clock), then
        // every next/back pattern up to a short length that starts with a change of direction - this puts
        // a direction change on every row of the trace, in particular on both sides of every context
        // switch, which the histories from clock 0 above cannot reach in long programs
        let tail = ctx.tier.pick(7usize, 12usize);
        for p in (sp.max_len.saturating_sub(1))..=(rows.cycles + 2) {
            for l in 1..=tail {
                for bits in 0..(1u64 << (l - 1)) {
                    let mut h = vec![true; p];
                    h.push(false);
                    h.extend((0..l - 1).map(|i| (bits >> i) & 1 == 1));
                    all.push(h);
                }
            }
        }
        let total = all.len() as u64;
        all.par_iter().for_each(|h| {
            let hs: String = h.iter().map(|b| if *b { 'n' } else { 'b' }).collect();
            let case = json!({"kind": "step", "program": sp.name, "src": sp.src, "stack": sp.stack, "history": hs});
            match run_history(&program, &sp.stack, h) {
                Err(p) => ctx.fail(json!({"kind": "step_iterator_panic", "panic": mcx::guard::short_panic(&p)}), format!("{} history {hs}", sp.name), case),
                Ok((states, drained)) => {
                    let mut seen_kinds: Vec<String> = vec![];
                    for (i, s) in states.iter().enumerate() {
                        if let Some(s) = s {
                            for (kind, detail) in check_state(s, &rows) {
                                if seen_kinds.contains(&kind) {
                                    continue;
                                }
                                seen_kinds.push(kind.clone());
                                ctx.fail(json!({"kind": kind, "direction": if h[i] { "next" } else { "back" }}), format!("{} history {hs} step {i}: {detail}", sp.name), case.clone());
                            }
                        }
                    }
                    // after any history the iterator can still be drained forward to the last clock
                    if drained.last().map(|c| *c as usize) != Some(rows.cycles) && !(drained.is_empty() && states.iter().flatten().any(|s| s.clk as usize == rows.cycles) && h.last() == Some(&true)) {
                        ctx.fail(json!({"kind": "iterator_cannot_be_drained_to_the_last_clock"}), format!("{} history {hs}: draining returned clocks {:?}, last clock is {}", sp.name, drained.iter().rev().take(3).collect::<Vec<_>>(), rows.cycles), case);
                    }
                }
            }
        });
        let mut s = stats.lock().unwrap();
        *s.entry("step_histories".into()).or_insert(0) += total;
        *s.entry("step_transitions".into()).or_insert(0) += all.iter().map(|h| h.len() as u64).sum::<u64>();
    }
    // a failing program: the iterator yields the error after the states, never panics
    let failing = assembler().compile("begin push.1 push.2 add push.0 assert end").unwrap();
    for l in 0..=8usize {
        for bits in 0..(1u64 << l) {
            let h: Vec<bool> = (0..l).map(|i| (bits >> i) & 1 == 1).collect();
            if let Err(p) = run_history(&failing, &[], &h) {
                ctx.fail(json!({"kind": "step_iterator_panic", "panic": mcx::guard::short_panic(&p)}), format!("failing program, history {h:?}"), json!({"kind": "step_failing", "history": format!("{h:?}")}));
            }
        }
    }
}

// ---- (D) determinism -----------------------------------------------------------------------------

fn determinism(ctx: &Ctx, case: &progs::ProgCase, stats: &Mutex<BTreeMap<String, u64>>) {
    let cj = json!({"kind": "det", "name": case.name, "src": case.src, "kernel": case.kernel, "stack": case.stack, "advice": case.advice, "merkle": !case.merkle_leaves.is_empty()});
    let run = |asm: &assembly::Assembler, src: &str, opts: ExecutionOptions| -> Option<(Vec<u64>, Vec<u64>, usize)> {
        let p = mcx::guard::catch(|| asm.compile(src)).ok()?.ok()?;
        let t = exec_trace(&p, &case.stack, case.advice_inputs(), opts).ok()?.ok()?;
        Some((t.stack_outputs().stack().to_vec(), digest(&t), t.trace_len_summary().main_trace_len()))
    };
    let asm = case.assembler();
    let Some(base) = run(&asm, &case.src, ExecutionOptions::default()) else {
        ctx.fail(json!({"kind": "family_program_does_not_run"}), case.name.clone(), cj);
        return;
    };
    let mut n = 0u64;
    let mut expect_same = |what: &str, r: Option<(Vec<u64>, Vec<u64>, usize)>| {
        n += 1;
        match r {
            Some(r) if r == base => {}
            Some(r) => {
                let which = if r.0 != base.0 { "outputs" } else if r.2 != base.2 { "cycle_count" } else { "trace" };
                ctx.fail(json!({"kind": "not_deterministic", "under": what.split(':').next().unwrap(), "differs": which}), format!("{}: {what}", case.name), cj.clone())
            }
            None => ctx.fail(json!({"kind": "variant_does_not_run", "under": what.split(':').next().unwrap()}), format!("{}: {what}", case.name), cj.clone()),
        }
    };
    expect_same("second_run", run(&asm, &case.src, ExecutionOptions::default()));
    expect_same("tracing_enabled", run(&asm, &case.src, ExecutionOptions::default().with_tracing()));
    let dbg = case.assembler().with_debug_mode(true);
    expect_same("debug_mode_assembly", run(&dbg, &case.src, ExecutionOptions::default()));
    expect_same("debug_mode_assembly+tracing", run(&dbg, &case.src, ExecutionOptions::default().with_tracing()));
    // decorators at every instruction boundary (not creating decorator-only span segments: F-C08-a)
    if case.name.contains("/Top/") || case.name.contains("/Call/") || case.name.contains("/While2/") {
        let toks: Vec<&str> = case.src.split_whitespace().collect();
        for deco in ["emit.7", "trace.3", "debug.stack"] {
            for i in 0..toks.len() {
                let t = toks[i];
                let structural = ["begin", "end", "else", "if.true", "while.true"].contains(&t) || t.starts_with("proc.") || t.starts_with("repeat.") || t.starts_with("exec.") || t.starts_with("call.") || t.starts_with("syscall.");
                let next_structural = toks.get(i + 1).map(|t| ["end", "else", "if.true", "while.true"].contains(t) || t.starts_with("repeat.") || t.starts_with("exec.") || t.starts_with("call.")).unwrap_or(true);
                if structural || next_structural {
                    continue;
                }
                let mut v: Vec<String> = toks.iter().map(|s| s.to_string()).collect();
                v.insert(i + 1, deco.to_string());
                let a = if deco.starts_with("debug") { &dbg } else { &asm };
                expect_same(&format!("decorator:{deco} after token {i}"), run(a, &v.join(" "), ExecutionOptions::default().with_tracing()));
            }
        }
    }
    *stats.lock().unwrap().entry("determinism_comparisons".into()).or_insert(0) += n;
}

/// (K) the clk instruction pushes the clock value of its own row
fn clk_family(ctx: &Ctx) -> u64 {
    let mut n = 0;
    for src in ["begin clk end", "begin push.1 drop clk swap drop end", "proc.f clk drop end begin repeat.5 push.1 drop end call.f end", "begin push.1 if.true clk else push.2 end end", "begin repeat.70 swap end clk end"] {
        let p = assembler().compile(src).expect("SUBJECT: clk program must assemble");
        let t = exec_trace(&p, &[], processor::AdviceInputs::default(), ExecutionOptions::default()).expect("SUBJECT: clk program must not panic").expect("SUBJECT: clk program must execute");
        let m = t.main_segment();
        let cycles = t.trace_len_summary().main_trace_len();
        for r in 0..cycles {
            let mut o = 0u8;
            for b in 0..7 {
                o |= ((m.get(OPB + b, r).as_int() & 1) as u8) << b;
            }
            if o == vm_core::Operation::Clk.op_code() {
                n += 1;
                if m.get(S0, r + 1).as_int() != m.get(CLK, r).as_int() || m.get(CLK, r).as_int() != r as u64 {
                    ctx.fail(json!({"kind": "clk_pushes_wrong_value"}), format!("{src}: row {r} pushes {}", m.get(S0, r + 1).as_int()), json!({"kind": "clk", "src": src}));
                }
            }
        }
    }
    n
}

pub fn run(ctx: &Ctx, replay: Option<&Value>) -> i32 {
    let stats: Mutex<BTreeMap<String, u64>> = Mutex::new(BTreeMap::new());
    if let Some(case) = replay {
        match case["kind"].as_str().unwrap_or("") {
            "step" => {
                let src = case["src"].as_str().unwrap();
                let stack: Vec<u64> = case["stack"].as_array().unwrap().iter().map(|x| x.as_u64().unwrap()).collect();
                let h: Vec<bool> = case["history"].as_str().unwrap().chars().map(|c| c == 'n').collect();
                let program = assembler().compile(src).unwrap();
                let trace = exec_trace(&program, &stack, processor::AdviceInputs::default(), ExecutionOptions::default()).unwrap().unwrap();
                let rows = rows_of(&trace, &stack);
                println!("program: {src}\ninputs (top first): {stack:?}\nhistory (n = next, b = back): {}", case["history"]);
                match run_history(&program, &stack, &h) {
                    Err(p) => {
                        println!("PANIC: {p}");
                        ctx.fail(json!({"kind": "step_iterator_panic", "panic": mcx::guard::short_panic(&p)}), "replay".to_string(), case.clone());
                    }
                    Ok((states, drained)) => {
                        for (i, s) in states.iter().enumerate() {
                            match s {
                                Some(s) => {
                                    println!("step {i} ({}): clk={} stack={:?}", if h[i] { "next" } else { "back" }, s.clk, s.stack.iter().map(|x| x.as_int()).collect::<Vec<_>>());
                                    println!("   trace row {}: stack={:?}", s.clk, rows.stack.get(s.clk as usize));
                                    for (kind, detail) in check_state(s, &rows) {
                                        ctx.fail(json!({"kind": kind, "direction": if h[i] { "next" } else { "back" }}), detail, case.clone());
                                    }
                                }
                                None => println!("step {i}: None"),
                            }
                        }
                        println!("draining with next() afterwards returns clocks {drained:?}; last clock is {}", rows.cycles);
                        if drained.last().map(|c| *c as usize) != Some(rows.cycles) && !(drained.is_empty() && h.last() == Some(&true)) {
                            ctx.fail(json!({"kind": "iterator_cannot_be_drained_to_the_last_clock"}), format!("{drained:?}"), case.clone());
                        }
                    }
                }
            }
            _ => println!("determinism / clk cases: re-run ./check C14 quick ({case})"),
        }
        return ctx.finish("model_checking", json!({}), &[]);
    }
    stepping(ctx, &stats);
    let fam = progs::p1(false);
    let take = ctx.tier.pick(fam.len() / 2, fam.len());
    fam.par_iter().step_by(if take == fam.len() { 1 } else { 2 }).for_each(|c| determinism(ctx, c, &stats));
    let clk_rows = clk_family(ctx);
    ctx.sample(json!({"kind": "step", "program": "cross_16", "history": "nnnbbnbn"}));
    ctx.sample(json!({"kind": "det", "name": fam[3].name, "variants": ["second_run", "tracing_enabled", "debug_mode_assembly", "decorator:emit.7 after each token"]}));
    let s = stats.into_inner().unwrap();
    let g = |k: &str| *s.get(k).unwrap_or(&0);
    let cov = json!({
        "states": g("step_histories"),
        "transitions": g("step_transitions"),
        "traces_validated_against_impl": g("step_histories"),
        "stepping_programs": step_programs(ctx.tier).iter().map(|p| json!({"name": p.name, "max_history_length": p.max_len})).collect::<Vec<_>>(),
        "determinism_programs": take,
        "determinism_comparisons": g("determinism_comparisons"),
        "clk_rows_checked": clk_rows,
        "evaluations": g("step_histories") + g("determinism_comparisons"),
        "exhaustive": true,
        "bounds": "all {next, back} histories up to the stated length on 6 programs (+ a failing program to length 8); determinism variants over family P1",
    });
    ctx.finish("model_checking", cov, &[
        "state of the stepping machine = action history (the iterator's cursor is private and cannot be canonicalised); every history runs on a fresh iterator over a fresh execution",
        "the trace-side view (overflow content per row, memory per context per clock) is reconstructed from the main trace columns by the harness",
        "independence of the expected-cycles hint is checked by C03; hash invariance under decorators by C08",
    ])
}
