//! C01 — every successful execution is provable and its proof verifies.
//!
//! Space (E): a fixed program family `pcore` (every instruction class, every control-flow shape,
//! stack-input depths 0/16/17/20, outputs of depth 16 and > 16, and trace-length regimes in which
//! the main trace, the range-checker table or the chiplets decide the padded length, with the
//! deciding component placed at and around 2^6 and 2^7) x the standard option sets.
//! Oracle per (program, option set): `execute` succeeds (family requirement) => `prove` succeeds
//! without panicking; the outputs returned by `prove` equal those of `execute`; `verify` with exactly
//! (ProgramInfo::new(hash, kernel), inputs, outputs) returns Ok(level), level >= the configured one;
//! `to_bytes` -> `from_bytes` gives back an equal proof with the same `security_level()`, which
//! verifies with the same result.

use crate::common::*;
use mcx::{guard, json, Ctx, Tier, Value};
use miden::{prove, verify, ExecutionProof, ProgramInfo, ProvingOptions};
use processor::{AdviceInputs, ExecutionOptions};
use rayon::prelude::*;
use std::collections::{BTreeMap, BTreeSet};
use vm_core::{
    crypto::merkle::{MerkleStore, MerkleTree},
    Felt, StarkField, Word,
};

/// One member of the program family. `stack` is given top first; `advice` is the advice stack
/// (first element is read first). Programs whose name starts with "mtree" additionally get the
/// fixed Merkle store of `merkle_tree()`.
#[derive(Clone, Debug)]
pub struct ProgCase {
    pub name: String,
    pub src: String,
    pub kernel: Option<String>,
    pub stack: Vec<u64>,
    pub advice: Vec<u64>,
}

fn pc(name: &str, src: &str, stack: &[u64], advice: &[u64]) -> ProgCase {
    ProgCase { name: name.into(), src: src.into(), kernel: None, stack: stack.to_vec(), advice: advice.to_vec() }
}

const KERNEL: &str = "export.kadd add end\nexport.kcaller caller add add add add end\nexport.kmem push.3 mem_store.1 mem_load.1 add end";

fn merkle_leaves() -> Vec<Word> {
    (1..=8u64).map(|i| [Felt::new(i), Felt::new(i * 10), Felt::new(i * 100), Felt::new(i * 1000)]).collect()
}

fn merkle_tree() -> MerkleTree {
    MerkleTree::new(merkle_leaves()).expect("harness: merkle tree")
}

pub fn advice_inputs(c: &ProgCase) -> AdviceInputs {
    let mut a = AdviceInputs::default().with_stack(felts(&c.advice));
    if c.name.starts_with("mtree") {
        a = a.with_merkle_store(MerkleStore::from(&merkle_tree()));
    }
    a
}

fn compile(c: &ProgCase) -> miden::Program {
    let asm = match &c.kernel {
        Some(k) => assembler_with_kernel(k),
        None => assembler(),
    };
    asm.compile(&c.src).unwrap_or_else(|e| panic!("SUBJECT: family program {} must assemble: {e}\n{}", c.name, c.src))
}

/// (main, range, chiplets) lengths of an execution, or the error
fn lens(c: &ProgCase) -> Result<(usize, usize, usize), String> {
    lens_with(&compile(c), c)
}

fn lens_with(p: &miden::Program, c: &ProgCase) -> Result<(usize, usize, usize), String> {
    match exec_trace(p, &c.stack, advice_inputs(c), ExecutionOptions::default()) {
        Err(pn) => Err(format!("panic: {pn}")),
        Ok(Err(e)) => Err(format!("{e:?}")),
        Ok(Ok(t)) => {
            let s = t.trace_len_summary();
            Ok((s.main_trace_len(), s.range_trace_len(), s.chiplets_trace_len().trace_len()))
        }
    }
}

/// spread 32-bit values: limbs far apart so that the range-checker table needs many bridging rows
fn spread(i: u64) -> u64 {
    (i.wrapping_mul(2654435761) ^ (i << 17) ^ 0x5bd1_e995) & 0xffff_ffff
}

/// the three parametrised families of the trace-shape regimes
fn regime_prog(comp: usize, n: usize, m: usize) -> ProgCase {
    match comp {
        // main-dominated: n single-cycle operations in one span (+ m more)
        0 => pc(&format!("regime_main_n{n}_m{m}"), &format!("begin repeat.{n} swap end {} end", "neg ".repeat(m)), &[3, 4], &[]),
        // range-checker dominated: u32 range checks on n distinct spread values
        1 => {
            let mut s = String::from("begin ");
            for i in 0..n {
                s += &format!("push.{} u32assert drop ", spread(i as u64 + 1));
            }
            for i in 0..m {
                s += &format!("push.{} u32assert drop ", i + 1);
            }
            s += "end";
            pc(&format!("regime_range_n{n}_m{m}"), &s, &[], &[])
        }
        // chiplet-dominated: n permutations (8 hasher rows each) + m memory rows
        _ => pc(
            &format!("regime_chiplets_n{n}_m{m}"),
            &format!("begin repeat.{n} hperm end {} end", "dup mem_store.0 ".repeat(m)),
            &[1, 2, 3, 4, 5, 6, 7, 8, 9, 10, 11, 12],
            &[],
        ),
    }
}

/// finds the member of family `comp` whose deciding component has exactly `target` rows and
/// strictly dominates the two other components (deterministic search, smallest (m, n) first)
fn find_regime(comp: usize, target: usize) -> Option<ProgCase> {
    let asm = assembler();
    let (max_m, max_n) = [(8usize, 260usize), (40, 30), (8, 40)][comp];
    for m in 0..=max_m {
        for n in 1..=max_n {
            let c = regime_prog(comp, n, m);
            let p = asm.compile(&c.src).unwrap_or_else(|e| panic!("SUBJECT: regime program {} must assemble: {e}", c.name));
            let which = ["main", "range", "chiplets"][comp];
            let l = match lens_with(&p, &c) {
                Ok(l) => l,
                // the VM cannot even build the trace of this member: it becomes the case for this
                // target, and check_one reports it (trace_build_panic) instead of the search hiding it
                Err(e) if e.starts_with("panic:") => return Some(ProgCase { name: format!("regime_{which}_{target}"), ..c }),
                Err(e) => panic!("SUBJECT: regime program {} must execute: {e}", c.name),
            };
            let v = [l.0, l.1, l.2];
            if v[comp] == target && (0..3).all(|k| k == comp || v[k] < target) {
                return Some(ProgCase { name: format!("regime_{which}_{target}"), ..c });
            }
            if comp != 1 && v[comp] > target {
                break; // these two families grow monotonically with n
            }
        }
    }
    None
}

/// The core program family. The interface (name, src, kernel, stack top first, advice) is shared
/// with other checks.
pub fn pcore(_tier: Tier) -> Vec<ProgCase> {
    let mut v: Vec<ProgCase> = vec![];
    let s16: Vec<u64> = (1..=16).collect();
    let s17: Vec<u64> = (1..=17).collect();
    let s20: Vec<u64> = (1..=20).collect();

    // ---- instruction classes ---------------------------------------------------------------------
    v.push(pc("field_arith", "begin add mul push.7 sub neg inv push.3 div add.5 mul.2 sub.1 div.4 end", &[3, 4, 5], &[]));
    v.push(pc(
        "field_bool_cmp",
        "begin push.1 push.0 and push.1 or not push.1 xor push.5 push.9 lt add push.5 push.9 gt add push.3 push.3 lte add \
         push.4 push.2 gte add push.6 eq.6 add push.2 neq.3 add push.7 is_odd add push.3 push.3 eq add push.2 push.3 neq add end",
        &[],
        &[],
    ));
    v.push(pc(
        "field_pow_assert",
        "begin push.10 pow2 push.1024 ilog2 add push.3 push.5 exp add push.2 exp.7 add push.1 assert push.0 assertz push.4 push.4 assert_eq \
         padw padw assert_eqw padw padw eqw movdn.8 dropw dropw end",
        &[],
        &[],
    ));
    v.push(pc("ext2", "begin ext2add ext2mul ext2sub ext2neg ext2inv push.3 push.4 ext2div end", &[1, 2, 3, 4, 5, 6, 7, 8, 9, 10], &[]));
    v.push(pc(
        "u32_arith",
        "begin u32overflowing_add drop u32wrapping_add push.5 u32overflowing_sub drop push.100 u32wrapping_sub push.7 u32overflowing_mul drop \
         push.9 u32wrapping_mul push.3 push.4 u32overflowing_madd drop push.1 push.2 u32wrapping_madd push.5 push.6 u32overflowing_add3 drop \
         push.1 push.1 u32wrapping_add3 end",
        &[4000000000, 500000000, 30, 40],
        &[],
    ));
    v.push(pc(
        "u32_div",
        "begin push.1000003 push.7 u32div push.13 u32mod push.500 push.7 u32divmod add push.4000000000 u32div.17 u32mod.5 add push.77 u32divmod.10 \
         push.4294967295 push.65536 u32div push.4294967295 push.4294967295 u32divmod end",
        &[],
        &[],
    ));
    v.push(pc(
        "u32_bitwise",
        "begin push.4042322160 push.252645135 u32and push.305419896 u32or push.2863311530 u32xor u32not push.3 u32shl push.5 u32shr push.7 u32rotl \
         push.9 u32rotr u32popcnt push.1 u32clz push.8 u32ctz push.4026531840 u32clo push.15 u32cto u32shl.4 u32shr.2 u32rotl.31 u32rotr.1 end",
        &[],
        &[],
    ));
    v.push(pc(
        "u32_cmp_conv",
        "begin push.5 push.9 u32lt push.5 push.9 u32lte push.5 push.9 u32gt push.5 push.9 u32gte push.5 push.9 u32min push.5 push.9 u32max \
         push.18446744069414584320 u32split push.5 u32test drop push.1.2.3.4 u32testw drop u32assertw dropw push.5 u32assert push.6 u32assert2 \
         push.8589934597 u32cast end",
        &[],
        &[],
    ));
    v.push(pc(
        "stack_manip",
        "begin dup.3 dup.15 swap.5 movup.7 movdn.9 swapw.2 swapdw movupw.3 movdnw.2 dupw.1 dropw padw dropw drop drop push.1 cswap push.0 cswapw \
         push.1 cdrop push.0 cdropw dup.0 dup.7 swap swap.15 swapw swapw.3 movup.2 movup.15 movdn.2 movdn.15 movupw.2 movdnw.3 dupw.0 dupw.3 dropw dropw end",
        &s16,
        &[],
    ));
    v.push(pc(
        "mem_elem_word",
        "begin push.11 mem_store.3 mem_load.3 push.1.2.3.4 mem_storew.7 dropw padw mem_loadw.7 push.40 mem_load push.9 push.41 mem_store padw push.7 \
         mem_loadw push.5.6.7.8 push.100 mem_storew push.4294967295 mem_load end",
        &[],
        &[],
    ));
    v.push(pc(
        "mem_stream",
        "begin push.1.2.3.4 mem_storew.0 dropw push.5.6.7.8 mem_storew.1 dropw push.0 padw padw padw mem_stream hperm end",
        &[],
        &[],
    ));
    v.push(pc("adv_push_loadw", "begin adv_push.3 padw adv_loadw adv_push.1 end", &[], &[1, 2, 3, 4, 5, 6, 7, 8]));
    v.push(pc("adv_pipe", "begin push.12.11.10.9.8.7.6.5.4.3.2.1 adv_pipe hperm adv_pipe end", &[], &(1..=16).collect::<Vec<u64>>()));
    v.push(pc("hash_ops", "begin hperm hmerge hash end", &[1, 2, 3, 4, 5, 6, 7, 8, 9, 10, 11, 12], &[]));
    {
        let t = merkle_tree();
        let r = t.root();
        let root_tf = [r[3].as_int(), r[2].as_int(), r[1].as_int(), r[0].as_int()];
        let mut st = vec![t.depth() as u64, 3];
        st.extend(root_tf);
        v.push(pc("mtree_get", "begin mtree_get end", &st, &[]));
        // mtree_verify: [V, d, i, R]
        let leaf = merkle_leaves()[5];
        let mut st = vec![leaf[3].as_int(), leaf[2].as_int(), leaf[1].as_int(), leaf[0].as_int(), t.depth() as u64, 5];
        st.extend(root_tf);
        v.push(pc("mtree_verify", "begin mtree_verify end", &st, &[]));
        // mtree_set: [d, i, R, V_new]
        let mut st = vec![t.depth() as u64, 6];
        st.extend(root_tf);
        st.extend([9, 8, 7, 6]);
        v.push(pc("mtree_set_get", "begin mtree_set dropw push.6 push.3 mtree_get end", &st, &[]));
    }
    v.push(pc(
        "locals",
        "proc.foo.4 loc_store.0 loc_store.1 loc_load.0 loc_load.1 push.1.2.3.4 loc_storew.2 dropw padw loc_loadw.2 locaddr.3 end \
         begin push.5 push.6 exec.foo end",
        &[],
        &[],
    ));
    v.push(pc("sys_ops", "begin clk sdepth add push.3 clk add end", &[], &[]));

    // ---- control flow ------------------------------------------------------------------------------
    let ite = "begin if.true push.2 push.3 add else push.4 end end";
    v.push(pc("if_true", ite, &[1], &[]));
    v.push(pc("if_false", ite, &[0], &[]));
    let wh = "begin dup neq.0 while.true push.1 sub dup neq.0 end end";
    for n in 0..=2u64 {
        v.push(pc(&format!("while_{n}"), wh, &[n], &[]));
    }
    v.push(pc("repeat", "begin repeat.5 push.2 mul end end", &[1], &[]));
    v.push(pc("exec", "proc.foo push.3 add end begin exec.foo exec.foo end", &[1], &[]));
    v.push(pc("call", "proc.foo push.3 add end begin call.foo end", &[1], &[]));
    v.push(pc("nested_call", "proc.a push.1 add end proc.b call.a push.2 mul end begin call.b call.a end", &[1], &[]));
    v.push(ProgCase {
        kernel: Some(KERNEL.into()),
        ..pc("syscall", "proc.p syscall.kcaller end begin syscall.kadd call.p syscall.kmem end", &[1, 2, 3], &[])
    });
    v.push(pc("dynexec", "proc.foo push.1.2 u32wrapping_add end begin procref.foo dynexec end", &[], &[]));
    v.push(pc(
        "dyncall",
        "proc.foo dropw mem_load.0 assertz add end begin push.5 mem_store.0 procref.foo dyncall end",
        &[1, 2],
        &[],
    ));
    v.push(pc("long_span_imm", "begin repeat.80 push.1 add end end", &[0], &[]));
    v.push(pc("long_span_noimm", "begin repeat.100 swap dup.1 drop end end", &[1, 2], &[]));
    v.push(pc(
        "nested_flow",
        "proc.f dup neq.0 while.true push.1 sub dup neq.0 end end begin if.true push.2 exec.f else push.1 call.f end repeat.2 push.1 if.true push.7 else push.8 end drop end end",
        &[1],
        &[],
    ));

    // ---- stack regimes -----------------------------------------------------------------------------
    v.push(pc("in0", "begin push.1 push.2 add end", &[], &[]));
    v.push(pc("in16", "begin add end", &s16, &[]));
    v.push(pc("in17", "begin add end", &s17, &[]));
    v.push(pc("in20_out18", "begin add mul end", &s20, &[]));
    v.push(pc("in20_out16", "begin drop drop drop drop end", &s20, &[]));
    v.push(pc("in16_out20", "begin push.1 push.2 push.3 push.4 end", &s16, &[]));
    v.push(pc("call_deep", "proc.f add end begin call.f end", &s20, &[]));
    // memory accessed in more than one context, at different addresses (rising and falling across the
    // context switch), with callee locals, word operations, nested calls
    v.push(pc("memctx_addr_falls", "proc.f mem_load.1 drop push.9 mem_store.0 end begin push.7 mem_store.1000 mem_load.4294967295 drop call.f end", &[], &[]));
    v.push(pc("memctx_words_locals", "proc.g.2 loc_load.1 drop push.4 loc_store.0 end proc.f padw mem_loadw.5 dropw push.1.2.3.4 mem_storew.6 dropw call.g end begin push.5.6.7.8 mem_storew.3 dropw call.f padw mem_loadw.3 dropw end", &[], &[]));

    // ---- trace-shape regimes: the deciding component at and around 2^6 and 2^7 -------------------------
    for target in (60..=66).chain(124..=130) {
        if let Some(c) = find_regime(0, target) {
            if !v.iter().any(|x| x.src == c.src && x.stack == c.stack) {
                v.push(c);
            }
        }
    }
    // the range-checker table always has an odd number of rows (0 -> 65535 in odd strides, plus the
    // extra last row), so it can never be exactly 2^k: its tight case is 2^k - 1 (+ 1 random row)
    for (comp, targets) in [(1, [61usize, 63, 65, 125, 127, 129]), (2, [63, 64, 65, 127, 128, 129])] {
        for target in targets {
            if let Some(c) = find_regime(comp, target) {
                if !v.iter().any(|x| x.src == c.src && x.stack == c.stack) {
                    v.push(c);
                }
            }
        }
    }
    v
}

/// panic message with a checkout-independent location (scratch worktrees live outside /repo)
fn norm_panic(msg: &str) -> String {
    let s = guard::short_panic(msg);
    if let Some(i) = s.rfind(" @ ") {
        let loc = &s[i + 3..];
        for root in ["processor/src/", "air/src/", "prover/src/", "verifier/src/", "core/src/", "assembly/src/", "miden/src/"] {
            if let Some(j) = loc.find(root) {
                return format!("{} @ {}", &s[..i], &loc[j..]);
            }
        }
    }
    s
}

fn option_sets() -> Vec<(&'static str, ProvingOptions, u32)> {
    vec![
        ("blake3_96", ProvingOptions::with_96_bit_security(false), 96),
        ("blake3_128", ProvingOptions::with_128_bit_security(false), 128),
        ("rpo_96", ProvingOptions::with_96_bit_security(true), 96),
        ("rpo_128", ProvingOptions::with_128_bit_security(true), 128),
    ]
}

/// the cases that also get the expensive RPO-128 set in the quick tier
const QUICK_RPO128: [&str; 8] = ["syscall", "in16_out20", "dyncall", "adv_pipe", "u32_div", "regime_main_64", "regime_range_63", "regime_chiplets_64"];

#[derive(Default, Clone)]
struct Seen {
    lens: Option<(usize, usize, usize, usize)>,
    proof_bytes: usize,
    level: u32,
    out_depth: usize,
}

/// checks one (program, option set); failures are reported through ctx.fail. Returns what was seen.
fn check_one(ctx: &Ctx, c: &ProgCase, opt: &str, verbose: bool) -> Option<Seen> {
    let (_, options, configured) = option_sets().into_iter().find(|o| o.0 == opt).expect("harness: option set");
    let case = json!({"name": c.name, "src": c.src, "kernel": c.kernel, "stack": c.stack, "advice": c.advice, "opt": opt});
    // "shape" = which component decides the padded length and where it sits relative to 2^k; part of
    // the signature so that a defect tied to one boundary cannot hide a defect at another one
    let shape = std::cell::RefCell::new(String::from("?"));
    let fail = |kind: &str, extra: Value, detail: String| {
        let mut sig = json!({"kind": kind, "shape": *shape.borrow()});
        if let Some(o) = extra.as_object() {
            for (k, v) in o {
                sig[k] = v.clone();
            }
        }
        ctx.fail(sig, format!("{} / {opt}: {detail}", c.name), case.clone());
    };
    let program = compile(c);
    // family requirement: execution succeeds (otherwise the property does not speak about the case).
    // "Execution" is the VM running the program to completion (`Process::execute`); building the
    // trace from the finished process is already part of the proving pipeline.
    {
        let mut process = processor::Process::new(program.kernel().clone(), stack_inputs(&c.stack), host_from(advice_inputs(c)), ExecutionOptions::default());
        match guard::catch(|| process.execute(&program).map(|_| ())) {
            Err(p) => panic!("SUBJECT: family program {} panicked in Process::execute: {p}", c.name),
            Ok(Err(e)) => panic!("SUBJECT: family program {} must execute: {e:?}", c.name),
            Ok(Ok(())) => {}
        }
    }
    let trace = match exec_trace(&program, &c.stack, advice_inputs(c), ExecutionOptions::default()) {
        Err(p) => {
            if verbose {
                println!("Process::execute: ok; processor::execute (trace construction): PANIC {p} (expected: a trace)");
            }
            fail("trace_build_panic", json!({"panic": norm_panic(&p)}), guard::short_panic(&p));
            return None;
        }
        Ok(Err(e)) => panic!("SUBJECT: family program {} must execute: {e:?}", c.name),
        Ok(Ok(t)) => t,
    };
    let s = trace.trace_len_summary();
    let lens = (s.main_trace_len(), s.range_trace_len(), s.chiplets_trace_len().trace_len(), s.padded_trace_len());
    let exec_out = trace.stack_outputs().clone();
    drop(trace);
    {
        let (d, l) = if lens.0 >= lens.1 && lens.0 >= lens.2 { ("main", lens.0) } else if lens.1 >= lens.2 { ("range", lens.1) } else { ("chiplets", lens.2) };
        let pos = if (l + 1).is_power_of_two() { "2^k-1" } else if l.is_power_of_two() { "2^k" } else { "other" };
        *shape.borrow_mut() = format!("{d}:{pos}");
    }
    if verbose {
        println!("execute: ok; trace lengths main={} range={} chiplets={} padded={}; outputs {:?} overflow_addrs {:?}", lens.0, lens.1, lens.2, lens.3, exec_out.stack(), exec_out.overflow_addrs());
    }
    let si = stack_inputs(&c.stack);
    let h = host_from(advice_inputs(c));
    let proved = guard::catch(|| prove(&program, si.clone(), h, options));
    let (out, proof) = match proved {
        Err(p) => {
            if verbose {
                println!("prove: PANIC {p} (expected: Ok)");
            }
            fail("prove_panic", json!({"panic": norm_panic(&p)}), guard::short_panic(&p));
            return None;
        }
        Ok(Err(e)) => {
            if verbose {
                println!("prove: Err({e:?}) (expected: Ok)");
            }
            fail("prove_failed", json!({"error": err_variant(&format!("{e:?}"))}), format!("{e:?}"));
            return None;
        }
        Ok(Ok(x)) => x,
    };
    if verbose {
        println!("prove: ok, {} proof bytes", proof.to_bytes().len());
    }
    if out != exec_out {
        fail("outputs_differ", json!({}), format!("prove returned {:?}/{:?}, execute {:?}/{:?}", out.stack(), out.overflow_addrs(), exec_out.stack(), exec_out.overflow_addrs()));
        return None;
    }
    let info = || ProgramInfo::new(program.hash(), program.kernel().clone());
    let level0 = proof.security_level();
    let v1 = guard::catch(|| verify(info(), si.clone(), exec_out.clone(), proof.clone()));
    if verbose {
        println!("verify: {v1:?} (expected: Ok(level >= {configured}))");
    }
    let level = match v1 {
        Err(p) => {
            fail("verify_panic", json!({"panic": norm_panic(&p)}), guard::short_panic(&p));
            return None;
        }
        Ok(Err(e)) => {
            fail("verify_rejected", json!({"error": err_variant(&format!("{e:?}"))}), format!("{e:?}; trace lengths {lens:?}"));
            return None;
        }
        Ok(Ok(l)) => l,
    };
    if level < configured || level != level0 {
        fail("low_security_level", json!({}), format!("verify returned {level}, proof.security_level() = {level0}, configured {configured}"));
    }
    // round trip
    let bytes = proof.to_bytes();
    match guard::catch(|| ExecutionProof::from_bytes(&bytes)) {
        Err(p) => fail("roundtrip_panic", json!({}), guard::short_panic(&p)),
        Ok(Err(e)) => fail("roundtrip_from_bytes_failed", json!({}), format!("{e:?}")),
        Ok(Ok(p2)) => {
            if p2 != proof || p2.to_bytes() != bytes {
                fail("roundtrip_not_identical", json!({}), "from_bytes(to_bytes(p)) != p".into());
            }
            if p2.security_level() != level0 {
                fail("roundtrip_security_level", json!({}), format!("{} after round trip, {level0} before", p2.security_level()));
            }
            let v2 = guard::catch(|| verify(info(), si.clone(), exec_out.clone(), p2));
            if verbose {
                println!("verify after to_bytes/from_bytes: {v2:?} (expected: Ok({level}))");
            }
            match v2 {
                Ok(Ok(l)) if l == level => {}
                other => fail("roundtrip_verify", json!({}), format!("{other:?} after round trip, Ok({level}) before")),
            }
        }
    }
    Some(Seen { lens: Some(lens), proof_bytes: bytes.len(), level, out_depth: exec_out.stack().len() })
}

pub fn run(ctx: &Ctx, replay: Option<&Value>) -> i32 {
    if let Some(case) = replay {
        let ints_of = |k: &str| -> Vec<u64> { case[k].as_array().map(|a| a.iter().filter_map(|x| x.as_u64()).collect()).unwrap_or_default() };
        let c = ProgCase {
            name: case["name"].as_str().expect("harness: replay case without name").into(),
            src: case["src"].as_str().expect("src").into(),
            kernel: case["kernel"].as_str().map(String::from),
            stack: ints_of("stack"),
            advice: ints_of("advice"),
        };
        let opt = case["opt"].as_str().expect("opt");
        println!("program {}:\n{}\nstack (top first) {:?} advice {:?} kernel {:?}; option set {opt}", c.name, c.src, c.stack, c.advice, c.kernel);
        check_one(ctx, &c, opt, true);
        return ctx.finish("exploration", json!({}), &[]);
    }

    let tier = ctx.tier;
    if std::env::var("VERIF_C01_LENS").is_ok() {
        // development aid: component lengths of the regime families
        for comp in 0..3 {
            for m in [0usize, 1, 2] {
                for n in (1..=200).step_by(if comp == 0 { 7 } else { 1 }) {
                    println!("comp={comp} n={n} m={m} lens={:?}", lens(&regime_prog(comp, n, m)));
                }
            }
        }
        for comp in 0..3 {
            for target in [63usize, 64, 65, 127, 128, 129] {
                println!("find comp={comp} target={target}: {:?}", find_regime(comp, target).map(|c| (c.name.clone(), lens(&c))));
            }
        }
        return 2;
    }
    let t0 = std::time::Instant::now();
    let mut family = pcore(tier);
    // traces of 2^14 .. 2^15 rows, one per dominating component (crate::progs::large): two of them under Blake3-96 in the quick
    // tier, all six under three option sets in the thorough tier (RPO-128 on such a trace takes minutes)
    family.extend(crate::progs::large(false).into_iter().map(|c| ProgCase { name: c.name, src: c.src, kernel: c.kernel, stack: c.stack, advice: c.advice }));
    let family_s = t0.elapsed().as_secs_f64();
    let names: BTreeSet<&str> = family.iter().map(|c| c.name.as_str()).collect();
    assert!(names.len() == family.len(), "harness: duplicate program names in pcore");
    for must in QUICK_RPO128 {
        assert!(names.contains(must), "harness: pcore lacks the program {must}");
    }

    // expensive jobs first so that the pool is not left waiting for one 6 s proof at the end
    let mut jobs: Vec<(usize, &'static str)> = vec![];
    for opt in ["rpo_128", "rpo_96", "blake3_128", "blake3_96"] {
        for (i, c) in family.iter().enumerate() {
            if opt == "rpo_128" && tier == Tier::Quick && !QUICK_RPO128.contains(&c.name.as_str()) {
                continue;
            }
            if c.name.starts_with("large/") && (opt == "rpo_128" || (tier == Tier::Quick && (opt != "blake3_96" || !matches!(c.name.as_str(), "large/hasher" | "large/memory")))) {
                continue;
            }
            jobs.push((i, opt));
        }
    }
    let results: Vec<Option<Seen>> = jobs.par_iter().map(|&(i, opt)| check_one(ctx, &family[i], opt, false)).collect();

    let mut per_opt: BTreeMap<&str, u64> = BTreeMap::new();
    let mut ok_per_opt: BTreeMap<&str, u64> = BTreeMap::new();
    let mut lens_seen: BTreeSet<(usize, usize, usize, usize)> = BTreeSet::new();
    let mut padded: BTreeMap<usize, u64> = BTreeMap::new();
    let mut dominated: BTreeMap<&str, u64> = BTreeMap::new();
    let mut levels: BTreeMap<String, u64> = BTreeMap::new();
    let mut out_depths: BTreeSet<usize> = BTreeSet::new();
    let mut proof_sizes: (usize, usize) = (usize::MAX, 0);
    let mut roundtrips = 0u64;
    for (j, r) in jobs.iter().zip(&results) {
        *per_opt.entry(j.1).or_insert(0) += 1;
        if let Some(s) = r {
            *ok_per_opt.entry(j.1).or_insert(0) += 1;
            roundtrips += 1;
            *levels.entry(format!("{}:{}", j.1, s.level)).or_insert(0) += 1;
            out_depths.insert(s.out_depth);
            proof_sizes = (proof_sizes.0.min(s.proof_bytes), proof_sizes.1.max(s.proof_bytes));
            if j.1 == "blake3_96" {
                if let Some(l) = s.lens {
                    lens_seen.insert(l);
                    *padded.entry(l.3).or_insert(0) += 1;
                    let d = if l.0 >= l.1 && l.0 >= l.2 { "main" } else if l.1 >= l.2 { "range" } else { "chiplets" };
                    *dominated.entry(d).or_insert(0) += 1;
                }
            }
        }
    }
    for c in family.iter().step_by(family.len() / 6 + 1) {
        ctx.sample(json!({"name": c.name, "src": c.src.chars().take(300).collect::<String>(), "kernel": c.kernel, "stack_top_first": c.stack, "advice": c.advice,
                          "trace_lengths_main_range_chiplets": lens(c).ok()}));
    }
    let exact_pow2: Vec<String> = family
        .iter()
        .filter(|c| c.name.starts_with("regime_"))
        .filter_map(|c| lens(c).ok().map(|l| format!("{}: main={} range={} chiplets={}", c.name, l.0, l.1, l.2)))
        .collect();
    let distinct_srcs: BTreeSet<(&str, &Vec<u64>)> = family.iter().map(|c| (c.src.as_str(), &c.stack)).collect();
    let cov = json!({
        "evaluations": jobs.len(),
        "distinct_nontrivial": distinct_srcs.len(),
        "rule": "case = (program of pcore, option set); distinct_nontrivial counts the distinct (source, stack inputs) pairs of the family, each of which \
                 executes successfully and is proved and verified under every option set listed for it; all are non-trivial (none is an empty program)",
        "programs": family.len(),
        "program_names": family.iter().map(|c| c.name.clone()).collect::<Vec<_>>(),
        "option_sets": per_opt,
        "proved_verified_and_round_tripped": ok_per_opt,
        "round_trips": roundtrips,
        "security_levels_returned": levels,
        "trace_lengths_seen_main_range_chiplets_padded": lens_seen.iter().collect::<Vec<_>>(),
        "padded_lengths": padded,
        "deciding_component": dominated,
        "regime_programs": exact_pow2,
        "output_depths_seen": out_depths,
        "proof_bytes_min_max": [proof_sizes.0, proof_sizes.1],
        "quick_rpo128_subset": QUICK_RPO128,
        "exhaustive": true,
        "bounds": "fixed finite family x option sets (quick: all x blake3_96, blake3_128, rpo_96 and 8 programs x rpo_128; thorough: all x all four); traces up to 256 rows",
        "family_construction_wall_s": family_s,
        "profile_note": "run with VERIF_PROFILE=checked to have winterfell validate the whole trace against the AIR inside prove (debug assertions)",
    });
    ctx.finish("exploration", cov, &[
        "only programs whose execution succeeded are proved; a family program that does not assemble or execute is a machinery failure (exit 2)",
        "completeness for programs outside the family and for traces longer than 2^8 rows is not covered",
        "proving randomness (trace random row seeded by the program hash) does not influence acceptance",
    ])
}
