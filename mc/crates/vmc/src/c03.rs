//! C03 — honest execution traces satisfy the entire AIR.
//!
//! For every program of the families P1 (+ shapes, + P2 in the thorough tier) x expected-cycles hints
//! x K stated challenge vectors: the harness' own loop evaluates every main and auxiliary transition
//! constraint on every non-exempt row and every boundary assertion; the trace length is checked
//! against the rule of the property; the main trace must be identical for every hint.

use crate::airx;
use crate::common::*;
use crate::progs::{self, ProgCase};
use mcx::{json, Ctx, Value};
use processor::ExecutionOptions;
use rayon::prelude::*;
use std::collections::BTreeMap;
use std::sync::Mutex;
use winter_prover::Trace;

const HINTS: [u32; 4] = [64, 128, 1024, 8192];

fn trace_digest(t: &processor::ExecutionTrace) -> Vec<u64> {
    // every cell of the main segment except the last (random) row
    let m = t.main_segment();
    let n = m.num_rows();
    let mut out = Vec::with_capacity(m.num_cols() * n);
    for c in 0..m.num_cols() {
        for r in 0..n - 1 {
            out.push(vm_core::StarkField::as_int(&m.get(c, r)));
        }
    }
    out
}

pub fn check_case(ctx: &Ctx, case: &ProgCase, challenges: &[Vec<airx::Q>], hints: &[u32], stats: &Mutex<BTreeMap<String, u64>>) {
    let cj = || json!({"name": case.name, "src": case.src, "kernel": case.kernel, "stack": case.stack, "advice": case.advice, "merkle": !case.merkle_leaves.is_empty()});
    let program = match mcx::guard::catch(|| case.assembler().compile(&case.src)) {
        Ok(Ok(p)) => p,
        // the family assembles and executes on the unchanged tree: a failure here is the subject's
        Ok(Err(e)) => {
            ctx.fail(json!({"kind": "family_program_does_not_assemble", "error": e.to_string().chars().take(60).collect::<String>()}), format!("{}: {e}", case.name), cj());
            return;
        }
        Err(p) => {
            ctx.fail(json!({"kind": "assembler_panic", "panic": mcx::guard::short_panic(&p)}), case.name.clone(), cj());
            return;
        }
    };
    let mut local: BTreeMap<String, u64> = BTreeMap::new();
    let mut first: Option<Vec<u64>> = None;
    for &hint in hints {
        let opts = ExecutionOptions::new(None, hint, false).expect("options");
        let mut trace = match exec_trace(&program, &case.stack, case.advice_inputs(), opts) {
            Ok(Ok(t)) => t,
            Ok(Err(e)) => {
                ctx.fail(json!({"kind": "family_program_does_not_execute", "error": crate::common::err_variant(&format!("{e:?}"))}), format!("{}: {e:?} (hint {hint})", case.name), cj());
                return;
            }
            Err(p) => {
                ctx.fail(json!({"kind": "execute_panic", "panic": mcx::guard::short_panic(&p)}), format!("{} hint {hint}", case.name), cj());
                return;
            }
        };
        // --- trace length rule ---------------------------------------------------------------
        let n = trace.length();
        let s = *trace.trace_len_summary();
        let need = s.main_trace_len().max(s.range_trace_len()).max(s.chiplets_trace_len().trace_len());
        let ok_len = n.is_power_of_two() && n >= 64 && n >= need + 1 && n == s.padded_trace_len() && (n == 64 || n / 2 < need + 1);
        if !ok_len {
            ctx.fail(
                json!({"kind": "trace_length_rule"}),
                format!("{}: n={n} cycles={} range={} chiplets={} padded={} hint={hint}", case.name, s.main_trace_len(), s.range_trace_len(), s.chiplets_trace_len().trace_len(), s.padded_trace_len()),
                cj(),
            );
        }
        let dominated = if need == s.main_trace_len() { "main" } else if need == s.range_trace_len() { "range" } else { "chiplets" };
        *local.entry(format!("len={n}/{dominated}")).or_insert(0) += 1;
        if need + 1 == n {
            *local.entry("component_length_exactly_n_minus_1".into()).or_insert(0) += 1;
        }
        // --- independence of the capacity hint ------------------------------------------------
        let d = trace_digest(&trace);
        match &first {
            None => first = Some(d),
            Some(f) => {
                if *f != d {
                    ctx.fail(json!({"kind": "trace_depends_on_expected_cycles_hint"}), format!("{} hint {hint} vs {}", case.name, hints[0]), cj());
                }
            }
        }
        // --- the whole AIR --------------------------------------------------------------------
        let si = stack_inputs(&case.stack);
        // all challenge vectors for the first hint, the first vector for the other hints
        let chs: &[Vec<airx::Q>] = if hint == hints[0] { challenges } else { &challenges[..1] };
        for (ci, ch) in chs.iter().enumerate() {
            let r = mcx::guard::catch(|| airx::check_trace(&mut trace, &si, ch, 5));
            match r {
                Err(p) => ctx.fail(json!({"kind": "air_evaluation_panic", "panic": mcx::guard::short_panic(&p)}), case.name.clone(), cj()),
                Ok((failures, evals, _aux)) => {
                    *local.entry("constraint_evaluations".into()).or_insert(0) += evals;
                    *local.entry("rows".into()).or_insert(0) += n as u64;
                    for f in failures.iter().take(3) {
                        let opcode = crate::airx::opcode_at(&trace, f.row);
                        ctx.fail(
                            json!({"kind": f.kind, "index": f.index, "opcode": opcode}),
                            format!("{}: {} #{} does not hold at row {} (opcode {opcode}), hint {hint}, challenge vector {ci}", case.name, f.kind, f.index, f.row),
                            cj(),
                        );
                    }
                }
            }
        }
    }
    let mut st = stats.lock().unwrap();
    for (k, v) in local {
        *st.entry(k).or_insert(0) += v;
    }
    for t in &case.tags {
        *st.entry(format!("tag:{t}")).or_insert(0) += 1;
    }
}

pub fn family(ctx: &Ctx) -> Vec<ProgCase> {
    let mut v = progs::p1(ctx.tier == mcx::Tier::Thorough);
    v.extend(progs::shapes());
    v.extend(progs::large(false));
    if ctx.tier == mcx::Tier::Thorough {
        v.extend(progs::large(true).into_iter().map(|mut c| {
            c.name = c.name.replace("large/", "large4x/");
            c
        }));
        v.extend(progs::p2());
        v.extend(progs::p2_full());
    }
    v
}

pub fn run(ctx: &Ctx, replay: Option<&Value>) -> i32 {
    let k = ctx.tier.pick(2, 4);
    let challenges = airx::challenge_vectors(ctx.seed, k);
    let stats: Mutex<BTreeMap<String, u64>> = Mutex::new(BTreeMap::new());
    if let Some(case) = replay {
        let u = |v: &Value| -> Vec<u64> { v.as_array().map(|a| a.iter().map(|x| x.as_u64().unwrap()).collect()).unwrap_or_default() };
        let pc = ProgCase {
            name: case["name"].as_str().unwrap_or("replay").to_string(),
            src: case["src"].as_str().unwrap().to_string(),
            kernel: case["kernel"].as_str().map(String::from),
            stack: u(&case["stack"]),
            advice: u(&case["advice"]),
            merkle_leaves: if case["merkle"].as_bool().unwrap_or(false) { progs::MERKLE_LEAVES.to_vec() } else { vec![] },
            tags: vec![],
        };
        println!("program {}:\n{}\nkernel: {:?}\nstack {:?} advice {:?}", pc.name, pc.src, pc.kernel, pc.stack, pc.advice);
        check_case(ctx, &pc, &challenges, &HINTS, &stats);
        return ctx.finish("exploration", json!({}), &[]);
    }
    let fam = family(ctx);
    let hints: &[u32] = &HINTS;
    fam.par_iter().for_each(|c| check_case(ctx, c, &challenges, hints, &stats));
    for c in fam.iter().step_by(fam.len() / 6 + 1) {
        ctx.sample(json!({"name": c.name, "src": c.src, "kernel": c.kernel, "stack_depth": c.stack.len()}));
    }
    let st = stats.into_inner().unwrap();
    let lens: BTreeMap<&String, &u64> = st.iter().filter(|(k, _)| k.starts_with("len=")).collect();
    let cov = json!({
        "evaluations": fam.len() * hints.len(),
        "distinct_nontrivial": fam.len(),
        "rule": "case = (program, expected-cycles hint); programs are pairwise distinct sources/inputs; non-trivial = the program executes at least one operation beyond SPAN/END (all of them do)",
        "programs": fam.len(),
        "hints": hints,
        "challenge_vectors": k,
        "constraint_evaluations": st.get("constraint_evaluations"),
        "rows_evaluated": st.get("rows"),
        "trace_length/dominating_component": lens,
        "runs_with_a_component_of_length_exactly_n-1": st.get("component_length_exactly_n_minus_1"),
        "programs_per_component_tag": st.iter().filter(|(k, _)| k.starts_with("tag:")).collect::<BTreeMap<_, _>>(),
        "exhaustive": true,
        "bounds": "families P1 (atoms x frames x input regimes) + trace-shape family (+ P2 ordered atom pairs in the thorough tier); K stated challenge vectors derived from VERIF_SEED",
    });
    ctx.finish("exploration", cov, &[
        "\"for any verifier challenge\" is covered by K stated challenge vectors (the aux constraints are polynomial identities in the challenges), not by enumeration of the 2^128 space",
        "programs outside the families are not covered; trace lengths above 2^13 are covered only by the six `large/*` programs (one per dominating component; up to 2^15 rows in the quick and 2^17 in the thorough tier)",
    ])
}
