//! C16 — standard-library integer arithmetic is exact.
//!
//! Space (bounded-exhaustive, nothing sampled):
//!  * every exported procedure of `std::math::u64` (the list is read from the loaded StdLibrary and
//!    must coincide with the list this module has a reference for — otherwise exit 2):
//!      - 20 binary procedures x all (a, b) with the 4 limbs over the limb alphabet
//!        (7 values => 2401 pairs in quick, 16 values => 65536 pairs in thorough); for div / mod /
//!        divmod the pairs with b = 0 must fail;
//!      - shl / shr / rotl / rotr x every amount 0..=63 x a value set built from the limb alphabet
//!        (all limb pairs; thorough adds single-bit, run-of-ones and all-but-one-bit values);
//!      - eqz / clz / ctz / clo / cto x all limb pairs, every single-bit value, every run of ones,
//!        every all-ones-but-one-bit value;
//!  * every exported procedure of `std::math::u256` x the square of a 39-value (quick) operand set
//!    (thorough: plus every 2^k and every 2^(k+1) - 1, 536 values).
//! Each case runs `begin exec.<module>::<proc> end` (assembled once per procedure) on the real VM
//! with the operands on top of >= 12 pairwise distinct sentinel elements; the *whole* final stack is
//! compared with `reference result ++ sentinels ++ zeros`. References are plain Rust
//! u64 / u128 / num-bigint arithmetic written from the doc comments of the procedures
//! (docs/src/user_docs/stdlib/math/u64.md and the `#!` comments of u64.masm / u256.masm).
//! Only valid u32 limbs are fed (most procedures document "undefined" otherwise).

use crate::common::*;
use mcx::{guard, json, Ctx, Tier, Value};
use num_bigint::BigUint;
use processor::Program;
use rayon::prelude::*;
use std::collections::{BTreeMap, BTreeSet};
use std::sync::atomic::{AtomicU64, Ordering};

const M32: u64 = 0xFFFF_FFFF;

/// pairwise distinct, none of them a valid u32 (so a stray u32 operation on them fails or shows)
const SENT: [u64; 14] = [
    0xC0DE_0100_0101_0101,
    0xC0DE_0200_0202_0202,
    0xC0DE_0300_0303_0303,
    0xC0DE_0400_0404_0404,
    0xC0DE_0500_0505_0505,
    0xC0DE_0600_0606_0606,
    0xC0DE_0700_0707_0707,
    0xC0DE_0800_0808_0808,
    0xC0DE_0900_0909_0909,
    0xC0DE_0A00_0A0A_0A0A,
    0xC0DE_0B00_0B0B_0B0B,
    0xC0DE_0C00_0C0C_0C0C,
    0xC0DE_0D00_0D0D_0D0D,
    0xC0DE_0E00_0E0E_0E0E,
];

const LIMBS7: [u64; 7] = [0, 1, 2, 1 << 16, 1 << 31, M32 - 1, M32];
const LIMBS16: [u64; 16] = [
    0, 1, 2, 3, 0xFFFF, 0x1_0000, 0x1_0001, 0x7FFF_FFFF, 0x8000_0000, 0x8000_0001, 0x5555_5555, 0xAAAA_AAAA,
    0xFFFF_0000, 0xFFFF_FFFD, 0xFFFF_FFFE, 0xFFFF_FFFF,
];

#[derive(Clone, Copy, PartialEq, Eq, Debug)]
enum Kind {
    /// [b_hi, b_lo, a_hi, a_lo, ...]
    Bin,
    /// [a_hi, a_lo, ...] -> one element
    Un,
    /// [b, a_hi, a_lo, ...]
    Shift,
    /// [b7..b0, a7..a0, ...]
    Bin256,
    /// [a7..a0, ...]
    Un256,
}

const U64_PROCS: [(&str, Kind); 29] = [
    ("overflowing_add", Kind::Bin),
    ("wrapping_add", Kind::Bin),
    ("wrapping_sub", Kind::Bin),
    ("overflowing_sub", Kind::Bin),
    ("wrapping_mul", Kind::Bin),
    ("overflowing_mul", Kind::Bin),
    ("lt", Kind::Bin),
    ("gt", Kind::Bin),
    ("lte", Kind::Bin),
    ("gte", Kind::Bin),
    ("eq", Kind::Bin),
    ("neq", Kind::Bin),
    ("eqz", Kind::Un),
    ("min", Kind::Bin),
    ("max", Kind::Bin),
    ("div", Kind::Bin),
    ("mod", Kind::Bin),
    ("divmod", Kind::Bin),
    ("and", Kind::Bin),
    ("or", Kind::Bin),
    ("xor", Kind::Bin),
    ("shl", Kind::Shift),
    ("shr", Kind::Shift),
    ("rotl", Kind::Shift),
    ("rotr", Kind::Shift),
    ("clz", Kind::Un),
    ("ctz", Kind::Un),
    ("clo", Kind::Un),
    ("cto", Kind::Un),
];

const U256_PROCS: [(&str, Kind); 8] = [
    ("add_unsafe", Kind::Bin256),
    ("sub_unsafe", Kind::Bin256),
    ("and", Kind::Bin256),
    ("or", Kind::Bin256),
    ("xor", Kind::Bin256),
    ("iszero_unsafe", Kind::Un256),
    ("eq_unsafe", Kind::Bin256),
    ("mul_unsafe", Kind::Bin256),
];

// ------------------------------------------------------------------------------------------------
// reference (plain integer arithmetic)
// ------------------------------------------------------------------------------------------------

#[derive(Clone, Debug, PartialEq, Eq)]
enum Exp {
    /// the elements that replace the operands, top first
    Ok(Vec<u64>),
    /// the procedure must fail (zero divisor)
    Fail,
}

fn split(c: u64) -> Vec<u64> {
    vec![c >> 32, c & M32]
}

fn ref_u64(name: &str, ops: &[u64]) -> Exp {
    let flag = |b: bool| Exp::Ok(vec![b as u64]);
    match name {
        "eqz" | "clz" | "ctz" | "clo" | "cto" => {
            let a = (ops[0] << 32) | ops[1];
            Exp::Ok(vec![match name {
                "eqz" => (a == 0) as u64,
                "clz" => a.leading_zeros() as u64,
                "ctz" => a.trailing_zeros() as u64,
                "clo" => a.leading_ones() as u64,
                _ => a.trailing_ones() as u64,
            }])
        }
        "shl" | "shr" | "rotl" | "rotr" => {
            let n = ops[0] as u32;
            assert!(n < 64);
            let a = (ops[1] << 32) | ops[2];
            Exp::Ok(split(match name {
                "shl" => a << n,
                "shr" => a >> n,
                "rotl" => a.rotate_left(n),
                _ => a.rotate_right(n),
            }))
        }
        _ => {
            let b = (ops[0] << 32) | ops[1];
            let a = (ops[2] << 32) | ops[3];
            match name {
                "overflowing_add" => {
                    let (c, o) = a.overflowing_add(b);
                    Exp::Ok([vec![o as u64], split(c)].concat())
                }
                "wrapping_add" => Exp::Ok(split(a.wrapping_add(b))),
                "wrapping_sub" => Exp::Ok(split(a.wrapping_sub(b))),
                "overflowing_sub" => {
                    let (c, o) = a.overflowing_sub(b);
                    Exp::Ok([vec![o as u64], split(c)].concat())
                }
                "wrapping_mul" => Exp::Ok(split(a.wrapping_mul(b))),
                // "preserving the overflow": four limbs of the full 128-bit product
                "overflowing_mul" => {
                    let p = (a as u128) * (b as u128);
                    Exp::Ok([split((p >> 64) as u64), split(p as u64)].concat())
                }
                "lt" => flag(a < b),
                "gt" => flag(a > b),
                "lte" => flag(a <= b),
                "gte" => flag(a >= b),
                "eq" => flag(a == b),
                "neq" => flag(a != b),
                "min" => Exp::Ok(split(a.min(b))),
                "max" => Exp::Ok(split(a.max(b))),
                "div" | "mod" | "divmod" if b == 0 => Exp::Fail,
                "div" => Exp::Ok(split(a / b)),
                "mod" => Exp::Ok(split(a % b)),
                "divmod" => Exp::Ok([split(a % b), split(a / b)].concat()),
                "and" => Exp::Ok(split(a & b)),
                "or" => Exp::Ok(split(a | b)),
                "xor" => Exp::Ok(split(a ^ b)),
                _ => panic!("no reference for std::math::u64::{name}"),
            }
        }
    }
}

/// top-first limbs [x7, .., x0] -> integer
fn big_of(limbs_top_first: &[u64]) -> BigUint {
    let le: Vec<u32> = limbs_top_first.iter().rev().map(|&x| x as u32).collect();
    BigUint::new(le)
}

/// integer (< 2^256) -> top-first limbs [x7, .., x0]
fn limbs_of(v: &BigUint) -> Vec<u64> {
    let mut le: Vec<u64> = v.to_u32_digits().into_iter().map(|x| x as u64).collect();
    assert!(le.len() <= 8);
    le.resize(8, 0);
    le.reverse();
    le
}

fn ref_u256(name: &str, ops: &[u64]) -> Exp {
    let two256 = BigUint::from(1u8) << 256;
    if name == "iszero_unsafe" {
        return Exp::Ok(vec![(big_of(&ops[0..8]) == BigUint::from(0u8)) as u64]);
    }
    let b = big_of(&ops[0..8]);
    let a = big_of(&ops[8..16]);
    match name {
        "add_unsafe" => Exp::Ok(limbs_of(&((a + b) % two256))),
        "sub_unsafe" => Exp::Ok(limbs_of(&((a + &two256 - b) % &two256))),
        "mul_unsafe" => Exp::Ok(limbs_of(&((a * b) % two256))),
        "and" => Exp::Ok(limbs_of(&(a & b))),
        "or" => Exp::Ok(limbs_of(&(a | b))),
        "xor" => Exp::Ok(limbs_of(&(a ^ b))),
        "eq_unsafe" => Exp::Ok(vec![(a == b) as u64]),
        _ => panic!("no reference for std::math::u256::{name}"),
    }
}

fn reference(module: &str, name: &str, ops: &[u64]) -> Exp {
    match module {
        "u64" => ref_u64(name, ops),
        "u256" => ref_u256(name, ops),
        _ => panic!("unknown module {module}"),
    }
}

// ------------------------------------------------------------------------------------------------
// subject
// ------------------------------------------------------------------------------------------------

fn compile(module: &str, name: &str) -> Program {
    let src = format!("use.std::math::{module}\nbegin\n    exec.{module}::{name}\nend");
    assembler()
        .compile(&src)
        .unwrap_or_else(|e| panic!("SUBJECT: family program must assemble: {src}: {e}"))
}

fn n_sentinels(n_ops: usize) -> usize {
    12usize.max(16usize.saturating_sub(n_ops))
}

fn inputs(ops: &[u64]) -> Vec<u64> {
    let mut st = ops.to_vec();
    st.extend_from_slice(&SENT[..n_sentinels(ops.len())]);
    st
}

/// `result ++ sentinels`; everything below is zero. The operand stack is conceptually infinite with
/// zeros below the inputs (a procedure that temporarily goes below depth 16 makes the VM shift
/// zeros in, which later end up in the overflow table: `u256::mul_unsafe` ends 4 deeper than
/// `inputs - 8`), so both sides are compared with trailing zeros stripped; the sentinels are
/// non-zero, so nothing that matters is lost.
fn expected_stack(ops: &[u64], res: &[u64]) -> Vec<u64> {
    let mut st = res.to_vec();
    st.extend_from_slice(&SENT[..n_sentinels(ops.len())]);
    st
}

fn strip_zeros(s: &[u64]) -> &[u64] {
    let n = s.iter().rposition(|&x| x != 0).map(|i| i + 1).unwrap_or(0);
    &s[..n]
}

// ------------------------------------------------------------------------------------------------
// operand classes (for signatures)
// ------------------------------------------------------------------------------------------------

fn limb_class(x: u64) -> &'static str {
    match x {
        0 => "0",
        M32 => "ffffffff",
        _ => "other",
    }
}

fn big_class(limbs: &[u64]) -> &'static str {
    if limbs.iter().all(|&x| x == 0) {
        "zero"
    } else if limbs.iter().all(|&x| x == M32) {
        "max"
    } else {
        "other"
    }
}

fn signature(kind: &str, module: &str, name: &str, k: Kind, ops: &[u64]) -> Value {
    let mut s = json!({"kind": kind, "proc": format!("std::math::{module}::{name}")});
    let m = s.as_object_mut().unwrap();
    match k {
        Kind::Bin => {
            m.insert("b_hi".into(), json!(limb_class(ops[0])));
            m.insert("b_lo".into(), json!(limb_class(ops[1])));
            m.insert("a_hi".into(), json!(limb_class(ops[2])));
            m.insert("a_lo".into(), json!(limb_class(ops[3])));
        }
        Kind::Un => {
            m.insert("a_hi".into(), json!(limb_class(ops[0])));
            m.insert("a_lo".into(), json!(limb_class(ops[1])));
        }
        Kind::Shift => {
            m.insert("shift_range".into(), json!(if ops[0] >= 32 { ">=32" } else { "<32" }));
            m.insert("shift_mod32".into(), json!(if ops[0] % 32 == 0 { "0" } else { "!=0" }));
            m.insert("a_hi".into(), json!(limb_class(ops[1])));
            m.insert("a_lo".into(), json!(limb_class(ops[2])));
        }
        Kind::Bin256 => {
            m.insert("b".into(), json!(big_class(&ops[0..8])));
            m.insert("a".into(), json!(big_class(&ops[8..16])));
        }
        Kind::Un256 => {
            m.insert("a".into(), json!(big_class(&ops[0..8])));
        }
    }
    s
}

fn hex(v: &[u64]) -> String {
    let parts: Vec<String> = v.iter().map(|x| format!("{x:x}")).collect();
    format!("[{}]", parts.join(","))
}

// ------------------------------------------------------------------------------------------------
// oracle
// ------------------------------------------------------------------------------------------------

/// returns the outcome class of the case (for the histograms); reports failures through ctx.fail
fn judge(ctx: &Ctx, module: &str, name: &str, k: Kind, ops: &[u64], out: &Outcome, verbose: bool) -> &'static str {
    let exp = reference(module, name, ops);
    let case = json!({"module": module, "proc": name, "ops": ops});
    let fail = |kind: &str, extra: Option<(&str, Value)>, detail: String| {
        let mut sig = signature(kind, module, name, k, ops);
        if let Some((key, v)) = extra {
            sig.as_object_mut().unwrap().insert(key.into(), v);
        }
        ctx.fail(sig, format!("{module}::{name} operands(top first)={} {detail}", hex(ops)), case.clone());
    };
    if verbose {
        match &exp {
            Exp::Ok(r) => println!("expected: success, final stack (zeros below) = {}", hex(&expected_stack(ops, r))),
            Exp::Fail => println!("expected: execution error (zero divisor)"),
        }
        match out {
            Outcome::Ok(s) => println!("observed: success, final stack = {}", hex(s)),
            o => println!("observed: {}", o.brief()),
        }
    }
    match (out, &exp) {
        (Outcome::Panic(p), _) => {
            fail("panic", Some(("panic", json!(guard::short_panic(p)))), guard::short_panic(p));
            "panic"
        }
        (Outcome::AsmErr(e), _) => panic!("SUBJECT: family program must assemble: {e}"),
        (Outcome::Ok(s), Exp::Ok(r)) => {
            let want = expected_stack(ops, r);
            let s = strip_zeros(s);
            // the result part of the observation (zeros below a short stack)
            let got: Vec<u64> = (0..r.len()).map(|i| s.get(i).copied().unwrap_or(0)).collect();
            if s == &want[..] {
                "ok_match"
            } else if got != *r {
                let below = if s.get(r.len()..) != Some(&want[r.len()..]) { " (and the stack below is disturbed)" } else { "" };
                fail("wrong_result", None, format!("result={} expected={}{below}", hex(&got), hex(r)));
                "wrong_result"
            } else {
                // (want ends with a non-zero sentinel, so any difference here is real)
                fail(
                    "stack_disturbed",
                    None,
                    format!("below the result: {} expected {}", hex(s.get(r.len()..).unwrap_or(&[])), hex(&want[r.len()..])),
                );
                "stack_disturbed"
            }
        }
        (Outcome::Ok(s), Exp::Fail) => {
            fail("zero_divisor_not_rejected", None, format!("succeeded with stack {}", hex(s)));
            "zero_divisor_not_rejected"
        }
        (Outcome::Err(e), Exp::Ok(r)) => {
            fail("unexpected_failure", Some(("error", json!(err_variant(e)))), format!("failed with {} expected result {}", e, hex(r)));
            "unexpected_failure"
        }
        (Outcome::Err(_), Exp::Fail) => "failed_as_required",
    }
}

/// "start from a non-initial state": the procedure runs on `first`, its result is dropped, then it
/// runs on `ops` in the same execution (same frame: locals of the second call occupy the memory the
/// first call left behind - `u256::mul_unsafe` has six local words). Only the second result is judged.
fn compile_chain(module: &str, name: &str, result_words: usize) -> Program {
    let drops = "dropw ".repeat(result_words);
    let src = format!("use.std::math::{module}\nbegin\n    exec.{module}::{name}\n    {drops}\n    exec.{module}::{name}\nend");
    assembler()
        .compile(&src)
        .unwrap_or_else(|e| panic!("SUBJECT: family program must assemble: {src}: {e}"))
}

fn judge_chain(ctx: &Ctx, module: &str, name: &str, prog: &Program, first: &[u64], ops: &[u64], verbose: bool) -> &'static str {
    let mut st = first.to_vec();
    st.extend_from_slice(&inputs(ops));
    let out = run_program(prog, &st, &[]);
    let case = json!({"module": module, "proc": name, "ops": ops, "first_ops": first});
    let want = match reference(module, name, ops) {
        Exp::Ok(r) => expected_stack(ops, &r),
        Exp::Fail => unreachable!("the chained procedures have no failing operands"),
    };
    if verbose {
        println!("expected: success, final stack (zeros below) = {}", hex(&want));
        match &out {
            Outcome::Ok(s) => println!("observed: success, final stack = {}", hex(s)),
            o => println!("observed: {}", o.brief()),
        }
    }
    match &out {
        Outcome::Ok(s) if strip_zeros(s) == &want[..] => "ok_match",
        o => {
            ctx.fail(
                json!({"kind": "wrong_result_on_second_call", "proc": format!("std::math::{module}::{name}")}),
                format!("{module}::{name} after a first call on {}: operands(top first)={} observed {} expected {}", hex(first), hex(ops), o.brief(), hex(&want)),
                case,
            );
            "wrong_result_on_second_call"
        }
    }
}

// ------------------------------------------------------------------------------------------------
// operand sets
// ------------------------------------------------------------------------------------------------

fn bin_cases(limbs: &[u64]) -> Vec<Vec<u64>> {
    // [b_hi, b_lo, a_hi, a_lo]
    mcx::space::tuples(limbs, 4)
}

fn single_bits() -> Vec<u64> {
    (0..64).map(|i| 1u64 << i).collect()
}

fn runs_of_ones() -> Vec<u64> {
    let mut v = vec![];
    for start in 0..64u32 {
        for len in 1..=(64 - start) {
            let ones = if len == 64 { u64::MAX } else { (1u64 << len) - 1 };
            v.push(ones << start);
        }
    }
    v
}

fn all_but_one_bit() -> Vec<u64> {
    (0..64).map(|i| !(1u64 << i)).collect()
}

/// the 64-bit values used for unary procedures: all limb pairs, single bits, runs of ones,
/// all-ones-but-one-bit (de-duplicated, ascending)
fn unary_values(limbs: &[u64]) -> Vec<u64> {
    let mut s: BTreeSet<u64> = BTreeSet::new();
    for &hi in limbs {
        for &lo in limbs {
            s.insert((hi << 32) | lo);
        }
    }
    s.extend(single_bits());
    s.extend(runs_of_ones());
    s.extend(all_but_one_bit());
    s.into_iter().collect()
}

/// the 64-bit values used for shifts / rotations
fn shift_values(limbs: &[u64], tier: Tier) -> Vec<u64> {
    let mut s: BTreeSet<u64> = BTreeSet::new();
    for &hi in limbs {
        for &lo in limbs {
            s.insert((hi << 32) | lo);
        }
    }
    if tier == Tier::Thorough {
        s.extend(single_bits());
        s.extend(runs_of_ones());
        s.extend(all_but_one_bit());
    }
    s.into_iter().collect()
}

fn u256_values(tier: Tier) -> Vec<[u64; 8]> {
    // limbs little-endian here (x0 first); converted to top-first when the case is built
    let mut s: BTreeSet<[u64; 8]> = BTreeSet::new();
    let mut put = |le: [u64; 8]| {
        s.insert(le);
    };
    put([0; 8]);
    put([1, 0, 0, 0, 0, 0, 0, 0]);
    put([2, 0, 0, 0, 0, 0, 0, 0]);
    put([M32; 8]); // 2^256 - 1
    put([M32 - 1, M32, M32, M32, M32, M32, M32, M32]); // 2^256 - 2
    for i in 0..8 {
        let mut x = [0u64; 8];
        x[i] = M32; // one limb all ones
        put(x);
        let mut y = [0u64; 8];
        y[i] = 1; // 2^(32 i)  (includes 1 and 2^128)
        put(y);
        let mut z = [M32; 8];
        z[i] = 0; // all ones but one limb
        put(z);
    }
    put([0, 0, 0, 0, 0, 0, 0, 1 << 31]); // 2^255
    put([M32, M32, M32, M32, 0, 0, 0, 0]); // 2^128 - 1
    put([0, 0, 0, 0, M32, M32, M32, M32]); // 2^256 - 2^128
    put([M32, 0, M32, 0, M32, 0, M32, 0]); // alternating limbs
    put([0, M32, 0, M32, 0, M32, 0, M32]);
    put([0x5555_5555; 8]);
    put([0xAAAA_AAAA; 8]);
    put([1 << 31; 8]);
    put([1 << 16; 8]);
    put([1, 2, 3, 4, 5, 6, 7, 8]); // counting pattern
    put([M32, M32 - 1, M32 - 2, M32 - 3, M32 - 4, M32 - 5, M32 - 6, M32 - 7]);
    if tier == Tier::Thorough {
        for k in 0..256usize {
            let mut x = [0u64; 8];
            x[k / 32] = 1 << (k % 32); // 2^k
            put(x);
            let mut y = [0u64; 8]; // 2^(k+1) - 1
            for (i, l) in y.iter_mut().enumerate() {
                *l = if i < k / 32 {
                    M32
                } else if i == k / 32 {
                    (1u64 << (k % 32 + 1)) - 1
                } else {
                    0
                };
            }
            put(y);
        }
    }
    s.into_iter().collect()
}

fn top_first(le: &[u64; 8]) -> Vec<u64> {
    le.iter().rev().cloned().collect()
}

// ------------------------------------------------------------------------------------------------
// driver
// ------------------------------------------------------------------------------------------------

fn exported(module_path: &str) -> BTreeSet<String> {
    use assembly::Library;
    let lib = stdlib::StdLibrary::default();
    let m = lib
        .modules()
        .find(|m| m.path.to_string() == module_path)
        .unwrap_or_else(|| panic!("module {module_path} not in StdLibrary"));
    let mut s: BTreeSet<String> =
        m.ast.procs().iter().filter(|p| p.is_export).map(|p| p.name.to_string()).collect();
    s.extend(m.ast.reexported_procs().iter().map(|p| p.name().to_string()));
    s
}

struct FamilyStats {
    cases: u64,
    classes: BTreeMap<&'static str, u64>,
    distinct_results: usize,
    nontrivial: u64,
}

/// runs all `cases` (operand vectors, top first) of one procedure
fn run_family(ctx: &Ctx, module: &str, name: &str, k: Kind, cases: &[Vec<u64>]) -> FamilyStats {
    let prog = compile(module, name);
    // determinism of the machinery: the first 50 cases are run twice
    for ops in cases.iter().take(50) {
        let a = run_program(&prog, &inputs(ops), &[]);
        let b = run_program(&prog, &inputs(ops), &[]);
        assert!(a == b, "non-deterministic observation for {module}::{name} {ops:?}");
    }
    let nontrivial = AtomicU64::new(0);
    let results: Vec<(&'static str, Option<Vec<u64>>)> = cases
        .par_iter()
        .map(|ops| {
            let out = run_program(&prog, &inputs(ops), &[]);
            let class = judge(ctx, module, name, k, ops, &out, false);
            let res = match &out {
                Outcome::Ok(s) => {
                    let n = match reference(module, name, ops) {
                        Exp::Ok(r) => r.len(),
                        Exp::Fail => 0,
                    };
                    Some(s[..n.min(s.len())].to_vec())
                }
                _ => None,
            };
            // non-trivial: some operand limb is non-zero and the outcome is a failure or a result
            // with a non-zero element
            let ops_nonzero = ops.iter().any(|&x| x != 0);
            let res_nonzero = res.as_ref().map(|r| r.iter().any(|&x| x != 0)).unwrap_or(true);
            if ops_nonzero && res_nonzero {
                nontrivial.fetch_add(1, Ordering::Relaxed);
            }
            (class, res)
        })
        .collect();
    let mut classes: BTreeMap<&'static str, u64> = BTreeMap::new();
    let mut distinct: BTreeSet<&Vec<u64>> = BTreeSet::new();
    for (c, r) in &results {
        *classes.entry(c).or_insert(0) += 1;
        if let Some(r) = r {
            distinct.insert(r);
        }
    }
    FamilyStats { cases: cases.len() as u64, classes, distinct_results: distinct.len(), nontrivial: nontrivial.into_inner() }
}

fn kind_of(module: &str, name: &str) -> Kind {
    let table: &[(&str, Kind)] = if module == "u64" { &U64_PROCS } else { &U256_PROCS };
    table
        .iter()
        .find(|(n, _)| *n == name)
        .map(|(_, k)| *k)
        .unwrap_or_else(|| panic!("no reference for std::math::{module}::{name}"))
}

/// Keeps glibc from mmap-ing / unmapping every trace column of every run: with 16 threads the
/// page faults and munmap calls serialise on the process' mm lock and dominate the run time
/// (measured: u256::mul_unsafe 36 ms per case instead of 0.5 ms). Purely a performance setting.
pub(crate) fn tune_allocator() {
    unsafe {
        libc::mallopt(libc::M_MMAP_THRESHOLD, 32 << 20);
        libc::mallopt(libc::M_TRIM_THRESHOLD, 1 << 30);
        libc::mallopt(libc::M_TOP_PAD, 16 << 20);
    }
}

pub fn run(ctx: &Ctx, replay: Option<&Value>) -> i32 {
    tune_allocator();
    if let Some(case) = replay {
        let module = case["module"].as_str().expect("case.module");
        let name = case["proc"].as_str().expect("case.proc");
        let ops: Vec<u64> = case["ops"].as_array().expect("case.ops").iter().map(|x| x.as_u64().unwrap()).collect();
        let k = kind_of(module, name);
        if let Some(first) = case["first_ops"].as_array() {
            let first: Vec<u64> = first.iter().map(|x| x.as_u64().unwrap()).collect();
            let words = match reference(module, name, &ops) {
                Exp::Ok(r) => r.len().div_ceil(4),
                Exp::Fail => 0,
            };
            println!("program: exec.{module}::{name}, drop the result, exec.{module}::{name}");
            let class = judge_chain(ctx, module, name, &compile_chain(module, name, words), &first, &ops, true);
            println!("verdict for this case: {class}");
            return ctx.finish("exploration", json!({}), &[]);
        }
        let prog = compile(module, name);
        println!("program: use.std::math::{module} begin exec.{module}::{name} end");
        println!("stack inputs (top first) = {}", hex(&inputs(&ops)));
        let out = run_program(&prog, &inputs(&ops), &[]);
        let class = judge(ctx, module, name, k, &ops, &out, true);
        println!("verdict for this case: {class}");
        return ctx.finish("exploration", json!({}), &[]);
    }

    // the procedure lists are a computed fact: exports of the loaded library == procedures with a reference
    let exp64 = exported("std::math::u64");
    let have64: BTreeSet<String> = U64_PROCS.iter().map(|(n, _)| n.to_string()).collect();
    assert!(exp64 == have64, "exports of std::math::u64 {exp64:?} differ from the procedures this check has a reference for {have64:?}");
    let exp256 = exported("std::math::u256");
    let have256: BTreeSet<String> = U256_PROCS.iter().map(|(n, _)| n.to_string()).collect();
    assert!(exp256 == have256, "exports of std::math::u256 {exp256:?} differ from the procedures this check has a reference for {have256:?}");

    let limbs: &[u64] = match ctx.tier {
        Tier::Quick => &LIMBS7,
        Tier::Thorough => &LIMBS16,
    };
    let bin = bin_cases(limbs);
    let un: Vec<Vec<u64>> = unary_values(limbs).into_iter().map(split).collect();
    let shv = shift_values(limbs, ctx.tier);
    assert!(shv.len() >= 24 && shv.contains(&M32) && shv.contains(&((M32 << 32) | 1)));
    let mut sh: Vec<Vec<u64>> = Vec::with_capacity(shv.len() * 64);
    for &v in &shv {
        for n in 0..64u64 {
            sh.push(vec![n, v >> 32, v & M32]);
        }
    }
    let v256 = u256_values(ctx.tier);
    assert!(v256.len() >= 28);
    let un256: Vec<Vec<u64>> = v256.iter().map(top_first).collect();
    let mut bin256: Vec<Vec<u64>> = Vec::with_capacity(v256.len() * v256.len());
    for a in &v256 {
        for b in &v256 {
            bin256.push([top_first(b), top_first(a)].concat());
        }
    }

    let mut per_proc = serde_json::Map::new();
    let mut evaluations = 0u64;
    let mut nontrivial = 0u64;
    let mut class_hist: BTreeMap<&'static str, u64> = BTreeMap::new();
    let families: Vec<(&str, &str, Kind)> = U64_PROCS
        .iter()
        .map(|(n, k)| ("u64", *n, *k))
        .chain(U256_PROCS.iter().map(|(n, k)| ("u256", *n, *k)))
        .collect();
    for (module, name, k) in &families {
        let cases: &Vec<Vec<u64>> = match k {
            Kind::Bin => &bin,
            Kind::Un => &un,
            Kind::Shift => &sh,
            Kind::Bin256 => &bin256,
            Kind::Un256 => &un256,
        };
        let t0 = std::time::Instant::now();
        let st = run_family(ctx, module, name, *k, cases);
        evaluations += st.cases;
        nontrivial += st.nontrivial;
        for (c, n) in &st.classes {
            *class_hist.entry(c).or_insert(0) += n;
        }
        per_proc.insert(
            format!("{module}::{name}"),
            json!({
                "cases": st.cases,
                "outcome_classes": st.classes,
                "distinct_observed_results": st.distinct_results,
                "wall_s": (t0.elapsed().as_secs_f64() * 1000.0).round() / 1000.0,
            }),
        );
        // one written-out sample per few families
        if ctx.want_sample() && matches!(*name, "overflowing_mul" | "divmod" | "shr" | "rotr" | "clo" | "sub_unsafe" | "mul_unsafe") {
            let ops = &cases[cases.len() / 3];
            ctx.sample(json!({
                "proc": format!("std::math::{module}::{name}"),
                "operands_top_first": hex(ops),
                "reference": match reference(module, name, ops) { Exp::Ok(r) => hex(&r), Exp::Fail => "must fail".into() },
            }));
        }
    }

    // second call in one execution: the 256-bit procedures whose result is 8 limbs (two words)
    {
        let t0 = std::time::Instant::now();
        let firsts: Vec<Vec<u64>> = vec![[vec![M32; 8], vec![M32; 8]].concat(), (1..=16u64).map(|i| i * 0x0101_0101).collect()];
        let step = ctx.tier.pick(bin256.len() / 60 + 1, bin256.len() / 600 + 1);
        let mut classes: BTreeMap<&'static str, u64> = BTreeMap::new();
        let mut n = 0u64;
        for name in ["add_unsafe", "sub_unsafe", "and", "or", "xor", "mul_unsafe"] {
            let prog = compile_chain("u256", name, 2);
            let cases: Vec<(&Vec<u64>, &Vec<u64>)> = firsts.iter().flat_map(|f| bin256.iter().step_by(step).map(move |o| (f, o))).collect();
            let res: Vec<&'static str> = cases.par_iter().map(|(f, o)| judge_chain(ctx, "u256", name, &prog, f, o, false)).collect();
            for c in res {
                *classes.entry(c).or_insert(0) += 1;
                *class_hist.entry(c).or_insert(0) += 1;
                n += 1;
            }
        }
        evaluations += n;
        nontrivial += n;
        per_proc.insert(
            "u256: second call in one execution (add_unsafe, sub_unsafe, and, or, xor, mul_unsafe)".into(),
            json!({"cases": n, "outcome_classes": classes, "wall_s": (t0.elapsed().as_secs_f64() * 1000.0).round() / 1000.0}),
        );
    }

    // outside the quantifier of the property (amounts 0..=63), recorded only: the doc comments
    // promise an error for a shift amount outside [0, 64)
    let mut out_of_range = serde_json::Map::new();
    for name in ["shl", "shr", "rotl", "rotr"] {
        let prog = compile("u64", name);
        let mut h: BTreeMap<String, u64> = BTreeMap::new();
        for amount in [64u64, 65, 96, M32] {
            for v in [1u64, (M32 << 32) | 1] {
                let out = run_program(&prog, &inputs(&[amount, v >> 32, v & M32]), &[]);
                *h.entry(out.kind().to_string()).or_insert(0) += 1;
            }
        }
        out_of_range.insert(name.into(), json!(h));
    }

    let cov = json!({
        "evaluations": evaluations,
        "distinct_nontrivial": nontrivial,
        "rule": "case = (procedure, operand tuple); all cases of a procedure are distinct by construction (operand sets are de-duplicated); non-trivial = at least one operand limb is non-zero and the observed outcome is a failure or a result with a non-zero element",
        "limb_alphabet": limbs.iter().map(|x| format!("{x:#x}")).collect::<Vec<_>>(),
        "u64_binary_pairs": bin.len(),
        "u64_binary_procedures": U64_PROCS.iter().filter(|(_, k)| *k == Kind::Bin).count(),
        "u64_unary_values": un.len(),
        "u64_shift_values": shv.len(),
        "u64_shift_amounts": "0..=63 (all)",
        "u64_shift_cases_per_procedure": sh.len(),
        "u256_operand_values": v256.len(),
        "u256_pairs": bin256.len(),
        "sentinels_below_operands": "max(12, 16 - #operands) pairwise distinct non-u32 field elements; whole final stack compared",
        "procedures_u64": exp64.iter().collect::<Vec<_>>(),
        "procedures_u256": exp256.iter().collect::<Vec<_>>(),
        "per_procedure": per_proc,
        "outcome_classes": class_hist,
        "out_of_range_shift_amounts_observed_only": out_of_range,
        "exhaustive": true,
        "bounds": "every exported procedure x the full product of the stated operand sets; nothing sampled, no cap",
    });
    ctx.finish(
        "exploration",
        cov,
        &[
            "operands are valid u32 limbs only (the procedures document undefined behaviour otherwise)",
            "u256 add/sub/and/or/xor/eq/iszero have no doc comment; the u64 convention is assumed: b on top of a, most significant limb on top, c = a op b, result limbs most significant on top",
            "overflowing_mul is taken to return the four limbs of the full 128-bit product (the doc comment's '% 2^64' contradicts its own four-limb result)",
            "reference = Rust u64/u128/num-bigint arithmetic; the limb alphabet bounds the operands explored",
        ],
    )
}
