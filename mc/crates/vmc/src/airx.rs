//! The harness' own evaluation loop over the processor AIR (not winterfell's debug validator):
//! every transition constraint on every non-exempt row, every boundary assertion, main and
//! auxiliary segment, for a stated challenge vector.

use air::{ProcessorAir, PublicInputs};
use processor::{ExecutionTrace, StackInputs};
use vm_core::{Felt, FieldElement, QuadExtension};
use winter_air::{Air, AuxTraceRandElements, EvaluationFrame, ProofOptions};
use winter_prover::{matrix::ColMatrix, Trace};

pub type Q = QuadExtension<Felt>;

pub const AUX_WIDTH: usize = 7;
pub const NUM_RAND: usize = 16;

/// K stated challenge vectors derived from the seed; every element has a non-zero extension part
pub fn challenge_vectors(seed: u64, k: usize) -> Vec<Vec<Q>> {
    let mut g = mcx::space::SplitMix(seed ^ 0xC0FF_EE00_1234_5678);
    (0..k)
        .map(|_| {
            (0..NUM_RAND)
                .map(|_| {
                    let a = Felt::new(g.next() % crate::common::P);
                    let b = Felt::new(g.next() % (crate::common::P - 1) + 1);
                    Q::new(a, b)
                })
                .collect()
        })
        .collect()
}

pub fn make_air(trace: &ExecutionTrace, stack_inputs: &StackInputs) -> ProcessorAir {
    let pub_inputs = PublicInputs::new(
        trace.program_info().clone(),
        stack_inputs.clone(),
        trace.stack_outputs().clone(),
    );
    let opts = ProofOptions::new(27, 8, 16, winter_air::FieldExtension::Quadratic, 8, 255);
    ProcessorAir::new(trace.get_info(), pub_inputs, opts)
}

#[derive(Debug, Clone)]
pub struct AirFailure {
    /// "main_transition" | "aux_transition" | "main_assertion" | "aux_assertion"
    pub kind: &'static str,
    /// constraint index / assertion column
    pub index: usize,
    pub row: usize,
}

pub fn periodic_at(cols: &[Vec<Felt>], row: usize) -> Vec<Felt> {
    cols.iter().map(|c| c[row % c.len()]).collect()
}

pub fn read_row(m: &ColMatrix<Felt>, row: usize, out: &mut [Felt]) {
    m.read_row_into(row, out);
}

/// Evaluates the whole AIR on an honest trace. Returns (failures, number of constraint
/// evaluations, aux segment).
pub fn check_trace(
    trace: &mut ExecutionTrace,
    stack_inputs: &StackInputs,
    challenges: &[Q],
    max_failures: usize,
) -> (Vec<AirFailure>, u64, ColMatrix<Q>) {
    let air = make_air(trace, stack_inputs);
    let aux = trace.build_aux_segment::<Q>(&[], challenges).expect("SUBJECT: aux segment must be built");
    let mut rand = AuxTraceRandElements::<Q>::new();
    rand.add_segment_elements(challenges.to_vec());
    let n = trace.length();
    let main = trace.main_segment();
    let mut failures = vec![];
    let mut evals = 0u64;

    for a in air.get_assertions() {
        a.apply(n, |step, value| {
            evals += 1;
            if main.get(a.column(), step) != value && failures.len() < max_failures {
                failures.push(AirFailure { kind: "main_assertion", index: a.column(), row: step });
            }
        });
    }
    for a in air.get_aux_assertions(&rand) {
        a.apply(n, |step, value| {
            evals += 1;
            if aux.get(a.column(), step) != value && failures.len() < max_failures {
                failures.push(AirFailure { kind: "aux_assertion", index: a.column(), row: step });
            }
        });
    }

    let periodic = air.get_periodic_column_values();
    let width = main.num_cols();
    let mut mf = EvaluationFrame::<Felt>::new(width);
    let mut af = EvaluationFrame::<Q>::new(AUX_WIDTH);
    let mut me = vec![Felt::ZERO; air.context().num_main_transition_constraints()];
    let mut ae = vec![Q::ZERO; air.context().num_aux_transition_constraints()];
    let exempt = air.context().num_transition_exemptions();
    for step in 0..n - exempt {
        main.read_row_into(step, mf.current_mut());
        main.read_row_into(step + 1, mf.next_mut());
        aux.read_row_into(step, af.current_mut());
        aux.read_row_into(step + 1, af.next_mut());
        let pv = periodic_at(&periodic, step);
        me.iter_mut().for_each(|x| *x = Felt::ZERO);
        air.evaluate_transition(&mf, &pv, &mut me);
        for (i, v) in me.iter().enumerate() {
            evals += 1;
            if *v != Felt::ZERO && failures.len() < max_failures {
                failures.push(AirFailure { kind: "main_transition", index: i, row: step });
            }
        }
        ae.iter_mut().for_each(|x| *x = Q::ZERO);
        air.evaluate_aux_transition(&mf, &af, &pv, &rand, &mut ae);
        for (i, v) in ae.iter().enumerate() {
            evals += 1;
            if *v != Q::ZERO && failures.len() < max_failures {
                failures.push(AirFailure { kind: "aux_transition", index: i, row: step });
            }
        }
    }
    (failures, evals, aux)
}

/// mnemonic-free opcode (7 op bits, decoder columns 9..16) of the operation executed at `row`
pub fn opcode_at(trace: &ExecutionTrace, row: usize) -> u64 {
    let m = trace.main_segment();
    let mut v = 0u64;
    for b in 0..7 {
        v |= (vm_core::StarkField::as_int(&m.get(9 + b, row)) & 1) << b;
    }
    v
}
