//! Glue between the real VM's observable outcome and the reference interpreter's result:
//! the comparison rule shared by C05 / C06 / C07.

use crate::common::Outcome;
use refvm::interp::{Fail, Stop};

#[derive(Debug, Clone, PartialEq, Eq)]
pub enum Verdict {
    Agree,
    /// reference says undefined / unspecified: not compared
    DontCare,
    /// reference does not terminate within its budget: only "real run does not succeed" could be
    /// demanded; not compared here
    Budget,
    Mismatch(String),
}

/// numbers appearing in the Debug form of an error, in order
fn numbers(s: &str) -> Vec<u64> {
    let mut out = vec![];
    let mut cur = String::new();
    for c in s.chars() {
        if c.is_ascii_digit() {
            cur.push(c);
        } else if !cur.is_empty() {
            if let Ok(v) = cur.parse() {
                out.push(v);
            }
            cur.clear();
        }
    }
    if !cur.is_empty() {
        if let Ok(v) = cur.parse() {
            out.push(v);
        }
    }
    out
}

pub fn strip_trailing_zeros(s: &[u64]) -> Vec<u64> {
    let mut v = s.to_vec();
    while v.len() > 16 && *v.last().unwrap() == 0 {
        v.pop();
    }
    v
}

fn fail_matches(f: &Fail, err: &str) -> bool {
    let variant = crate::common::err_variant(err);
    match f {
        Fail::DivideByZero => variant == "DivideByZero",
        Fail::NotBinary => variant == "NotBinaryValue",
        Fail::NotU32 => variant == "NotU32Value",
        // NotU32Value(value, err_code): the code is the last number (the variant name itself contains digits)
        Fail::NotU32Code(code) => variant == "NotU32Value" && numbers(err).last() == Some(&(*code as u64)),
        Fail::Assert(code) => {
            variant == "FailedAssertion" && {
                // FailedAssertion { clk: c, err_code: e, err_msg: .. }
                let n = numbers(err);
                n.len() >= 2 && n[1] == *code as u64
            }
        }
        Fail::AdviceEmpty => variant == "AdviceStackReadFailed",
        Fail::MemAddr => variant == "MemoryAddressOutOfBounds",
        Fail::StackDepthOnReturn(d) => variant == "InvalidStackDepthOnReturn" && numbers(err).first() == Some(&(*d as u64)),
        Fail::CallerNotInSyscall => variant == "CallerNotInSyscall",
        Fail::SyscallTargetNotInKernel => variant == "SyscallTargetNotInKernel",
        Fail::DynTargetNotFound => variant == "DynamicCodeBlockNotFound",
        Fail::Unclassified(_) => true,
        Fail::Asm(_) => false,
    }
}

/// `exact_depth`: compare the stack length exactly (otherwise modulo trailing zeros beyond 16)
pub fn compare(real: &Outcome, reference: &Result<(), Stop>, ref_stack: &[u64], exact_depth: bool) -> Verdict {
    match reference {
        Err(Stop::Unsupported(m)) => panic!("reference model asked to interpret something it does not model: {m}"),
        Err(Stop::DontCare(_)) => Verdict::DontCare,
        Err(Stop::Budget) => Verdict::Budget,
        Ok(()) => match real {
            Outcome::Ok(s) => {
                let (a, b) = if exact_depth {
                    (s.clone(), ref_stack.to_vec())
                } else {
                    (strip_trailing_zeros(s), strip_trailing_zeros(ref_stack))
                };
                if a == b {
                    Verdict::Agree
                } else {
                    Verdict::Mismatch(format!("stack differs: real {:?} reference {:?}", s, ref_stack))
                }
            }
            o => Verdict::Mismatch(format!("reference succeeds with {:?}, real: {}", ref_stack, o.brief())),
        },
        Err(Stop::Fail(Fail::Asm(why))) => match real {
            Outcome::AsmErr(_) => Verdict::Agree,
            o => Verdict::Mismatch(format!("reference: rejected at assembly time ({why}), real: {}", o.brief())),
        },
        Err(Stop::Fail(f)) => match real {
            Outcome::Err(e) if fail_matches(f, e) => Verdict::Agree,
            o => Verdict::Mismatch(format!("reference fails with {f:?}, real: {}", o.brief())),
        },
    }
}

/// coarse class of a reference result, for outcome histograms
pub fn ref_class(r: &Result<(), Stop>) -> String {
    match r {
        Ok(()) => "ok".into(),
        Err(Stop::Fail(f)) => format!("fail:{}", format!("{f:?}").split('(').next().unwrap()),
        Err(Stop::DontCare(_)) => "dont_care".into(),
        Err(Stop::Budget) => "budget".into(),
        Err(Stop::Unsupported(_)) => "unsupported".into(),
    }
}
