//! C04 — the AIR rejects any deviation from an operation's defined effect.
//!
//! Fault enumeration on honest traces: for every row pair (i, i+1), i < n-2, of every trace of a
//! covering program family, every candidate cell (next-row stack / depth / overflow-address /
//! clk / fmp cells, current-row helper registers and h0, next-row chiplet cells, range-checker cells
//! and the b_range column) x a fixed delta alphabet is altered, one cell at a time, and the frame is
//! evaluated with the real `ProcessorAir`. A mutation that leaves every transition constraint zero is
//! judged against the specification (`spec_free`, written from docs/src/design/**): if the documentation
//! leaves that cell free for that operation (set by a lookup / bus, by the prover non-deterministically,
//! or outside the operation classes the property names) it is counted `spec_free`; otherwise it is a
//! violation: the AIR accepts a deviation from the operation's documented effect.

use crate::airx::{self, Q};
use crate::common::*;
use crate::progs::{self, ProgCase};
use mcx::{json, Ctx, Value};
use rayon::prelude::*;
use std::collections::BTreeMap;
use std::sync::Mutex;
use vm_core::{Felt, FieldElement, StarkField};
use winter_air::{Air, AuxTraceRandElements, EvaluationFrame};
use winter_prover::Trace;

const CLK: usize = 0;
const FMP: usize = 1;
const OPB: usize = 9;
const HELPER0: usize = 18; // decoder hasher-state columns 2..8 hold the user-op helper registers
const S0: usize = 32;
const B0: usize = 48;
const B1: usize = 49;
const H0: usize = 50;
const RANGE_M: usize = 51;
const RANGE_V: usize = 52;
const CHIP: usize = 53;
const CHIP_END: usize = 70;
const AUX_B_RANGE: usize = 4;

#[derive(Clone, Copy, Debug, PartialEq, Eq, PartialOrd, Ord)]
enum Cell {
    /// next-row stack position
    S(usize),
    B0,
    B1,
    /// current-row overflow helper
    H0Cur,
    Clk,
    Fmp,
    /// current-row helper register k
    Helper(usize),
    /// next-row chiplet column (offset within the chiplets segment)
    Chip(usize),
    RangeM,
    RangeV,
    BRange,
}

impl Cell {
    fn name(&self) -> String {
        match self {
            Cell::S(i) => format!("s{i}'"),
            Cell::B0 => "b0'".into(),
            Cell::B1 => "b1'".into(),
            Cell::H0Cur => "h0".into(),
            Cell::Clk => "clk'".into(),
            Cell::Fmp => "fmp'".into(),
            Cell::Helper(k) => format!("helper{k}"),
            Cell::Chip(c) => format!("chiplets[{c}]'"),
            Cell::RangeM => "range_m'".into(),
            Cell::RangeV => "range_v'".into(),
            Cell::BRange => "b_range'".into(),
        }
    }
    fn col(&self) -> (usize, bool) {
        // (main column, lives in the next row?)
        match self {
            Cell::S(i) => (S0 + i, true),
            Cell::B0 => (B0, true),
            Cell::B1 => (B1, true),
            Cell::H0Cur => (H0, false),
            Cell::Clk => (CLK, true),
            Cell::Fmp => (FMP, true),
            Cell::Helper(k) => (HELPER0 + k, false),
            Cell::Chip(c) => (CHIP + c, true),
            Cell::RangeM => (RANGE_M, true),
            Cell::RangeV => (RANGE_V, true),
            Cell::BRange => (usize::MAX, true),
        }
    }
}

fn deltas(old: Felt, neighbour: Felt) -> Vec<Felt> {
    let two16 = Felt::new(1 << 16);
    let two32 = Felt::new(1 << 32);
    let mut v = vec![old + Felt::ONE, old - Felt::ONE, old + old, Felt::ZERO, Felt::ONE, old + two16, old + two32, neighbour];
    v.retain(|x| *x != old);
    v.dedup();
    v
}

fn op_name(o: u8) -> &'static str {
    match o {
        0 => "NOOP", 1 => "EQZ", 2 => "NEG", 3 => "INV", 4 => "INCR", 5 => "NOT", 6 => "FMPADD", 7 => "MLOAD", 8 => "SWAP", 9 => "CALLER",
        10 => "MOVUP2", 11 => "MOVDN2", 12 => "MOVUP3", 13 => "MOVDN3", 14 => "ADVPOPW", 15 => "EXPACC", 16 => "MOVUP4", 17 => "MOVDN4",
        18 => "MOVUP5", 19 => "MOVDN5", 20 => "MOVUP6", 21 => "MOVDN6", 22 => "MOVUP7", 23 => "MOVDN7", 24 => "SWAPW", 25 => "EXT2MUL",
        26 => "MOVUP8", 27 => "MOVDN8", 28 => "SWAPW2", 29 => "SWAPW3", 30 => "SWAPDW", 32 => "ASSERT", 33 => "EQ", 34 => "ADD", 35 => "MUL",
        36 => "AND", 37 => "OR", 38 => "U32AND", 39 => "U32XOR", 40 => "FRIE2F4", 41 => "DROP", 42 => "CSWAP", 43 => "CSWAPW", 44 => "MLOADW",
        45 => "MSTORE", 46 => "MSTOREW", 47 => "FMPUPDATE", 48 => "PAD", 49 => "DUP", 50 => "DUP1", 51 => "DUP2", 52 => "DUP3", 53 => "DUP4",
        54 => "DUP5", 55 => "DUP6", 56 => "DUP7", 57 => "DUP9", 58 => "DUP11", 59 => "DUP13", 60 => "DUP15", 61 => "ADVPOP", 62 => "SDEPTH",
        63 => "CLK", 64 => "U32ADD", 66 => "U32SUB", 68 => "U32MUL", 70 => "U32DIV", 72 => "U32SPLIT", 74 => "U32ASSERT2", 76 => "U32ADD3",
        78 => "U32MADD", 80 => "HPERM", 81 => "MPVERIFY", 82 => "PIPE", 83 => "MSTREAM", 84 => "SPLIT", 85 => "LOOP", 86 => "SPAN", 87 => "JOIN",
        88 => "DYN", 89 => "RCOMBBASE", 96 => "MRUPDATE", 100 => "PUSH", 104 => "SYSCALL", 108 => "CALL", 112 => "END", 116 => "REPEAT",
        120 => "RESPAN", 124 => "HALT",
        _ => "?",
    }
}

/// which chiplet a row of the chiplets segment belongs to (selector columns, docs/src/design/chiplets/main.md)
fn chiplet_kind(cur: &[Felt]) -> &'static str {
    let s = |i: usize| cur[CHIP + i].as_int();
    if s(0) == 0 {
        "hasher"
    } else if s(1) == 0 {
        "bitwise"
    } else if s(2) == 0 {
        "memory"
    } else if s(3) == 0 {
        "kernel_rom"
    } else {
        "padding"
    }
}

#[derive(Default)]
struct Tally {
    /// (region/op, cell) -> (mutations, rejected, spec_free, violations)
    per: BTreeMap<(String, String), [u64; 4]>,
    frames: u64,
    rows: u64,
    /// per main transition constraint: number of mutated frames on which it evaluated to non-zero
    fired: Vec<u64>,
    /// frames with an altered operand (current-row stack cell): liveness tally only
    operand_frames: u64,
    /// third fault model: forged u32 frames, and how many of them left the b_range constraint at zero
    u32_forged: u64,
    u32_forged_aux_zero: u64,
    /// third fault model: per (operation, class) the main transition constraints that rejected a forged frame
    u32_rejected_by: BTreeMap<String, std::collections::BTreeSet<usize>>,
}

impl Tally {
    fn note_fired(&mut self, evaluations: &[Felt]) {
        if self.fired.len() < evaluations.len() {
            self.fired.resize(evaluations.len(), 0);
        }
        for (k, v) in evaluations.iter().enumerate() {
            if *v != Felt::ZERO {
                self.fired[k] += 1;
            }
        }
    }
}

/// context of a row pair that the specification's case distinctions need
struct RowCtx {
    opcode: u8,
    depth: u64,
    /// f_ov of the current row (depth > 16)
    ov: bool,
    chiplet: &'static str,
    chiplet_next: &'static str,
    row: usize,
    n: usize,
    row_is_padding: bool,
    cur: Vec<Felt>,
    next: Vec<Felt>,
    /// row i + 2 (the row after the altered one), if it exists
    next2: Option<Vec<Felt>>,
}

/// The selector and node-index equations of docs/src/design/chiplets/hasher.md ("Selector columns constraints",
/// "Node index constraints"), evaluated literally on the row pair (cur, next) whose current row has index `row`
/// (k0 = 1 on rows 7 mod 8, k1 on rows 6 mod 8, k2 on rows 0 mod 8). `transition` = false evaluates only the
/// equations that mention the current row alone (the next row belongs to another chiplet).
/// Returns true if every equation holds.
fn hasher_doc_selector_index_equations(cur: &[Felt], next: &[Felt], row: usize, transition: bool) -> bool {
    let one = Felt::ONE;
    let k = |m: usize| if row % 8 == m { one } else { Felt::ZERO };
    let (k0, k1, k2) = (k(7), k(6), k(0));
    let (s0, s1, s2) = (cur[CHIP + 1], cur[CHIP + 2], cur[CHIP + 3]);
    let (s0n, s1n, s2n) = (next[CHIP + 1], next[CHIP + 2], next[CHIP + 3]);
    let (i, i_n) = (cur[CHIP + 16], next[CHIP + 16]);
    let z = Felt::ZERO;
    // binary selectors, no invalid combination, index zero at the end of a computation
    let f_out = k0 * (one - s0) * (one - s1);
    let mut ok = s0 * s0 - s0 == z && s1 * s1 - s1 == z && s2 * s2 - s2 == z && k0 * (one - s0) * s1 == z && f_out * i == z;
    if transition {
        let f_out_n = k1 * (one - s0n) * (one - s1n);
        let f_mp = k2 * s0 * (one - s1) * s2;
        let f_mv = k2 * s0 * s1 * (one - s2);
        let f_mu = k2 * s0 * s1 * s2;
        let f_abp = k0 * s0 * (one - s1) * (one - s2);
        let f_mpa = k0 * s0 * (one - s1) * s2;
        let f_mva = k0 * s0 * s1 * (one - s2);
        let f_mua = k0 * s0 * s1 * s2;
        let f_an = f_mp + f_mv + f_mu + f_mpa + f_mva + f_mua;
        let b = i - i_n - i_n;
        ok = ok
            && (s1n - s1) * (one - f_out_n) * (one - f_out) == z
            && (s2n - s2) * (one - f_out_n) * (one - f_out) == z
            && s0n * (f_abp + f_mpa + f_mva + f_mua) == z
            && f_an * (b * b - b) == z
            && (one - f_an - f_out) * (i_n - i) == z;
    }
    ok
}

/// documented stack effect of an operation (docs/src/design/stack/*.md, decoder/main.md):
/// (shift kind, first position the general rule applies to, top cells fixed by an operation-specific
/// transition constraint)
#[derive(Clone, Copy, PartialEq)]
enum Shift {
    None,
    Left,
    Right,
}

struct Effect {
    shift: Shift,
    from: usize,
    /// next-row positions < `from` (or `from - 1` for a left shift) that a documented
    /// operation-specific transition constraint determines
    top: &'static [usize],
    /// false: the operation is outside the classes the property names (I/O, crypto, FRI) or has no
    /// constraint description in docs/src/design; only its documented shift is in scope
    in_scope_top: bool,
}

fn effect(op: u8, x: &RowCtx) -> Option<Effect> {
    use Shift::*;
    let e = |shift, from, top: &'static [usize], in_scope_top| Some(Effect { shift, from, top, in_scope_top });
    match op_name(op) {
        "NOOP" | "SPAN" | "JOIN" | "RESPAN" | "HALT" | "CALL" | "SYSCALL" | "DYN" => e(None, 0, &[], true),
        "EQZ" | "NEG" | "INV" | "INCR" | "NOT" | "FMPADD" => e(None, 1, &[0], true),
        "MLOAD" => e(None, 1, &[], false),
        "SWAP" => e(None, 2, &[0, 1], true),
        "MOVUP2" | "MOVDN2" => e(None, 3, &[0, 1, 2], true),
        "MOVUP3" | "MOVDN3" => e(None, 4, &[0, 1, 2, 3], true),
        "MOVUP4" | "MOVDN4" => e(None, 5, &[0, 1, 2, 3, 4], true),
        "MOVUP5" | "MOVDN5" => e(None, 6, &[0, 1, 2, 3, 4, 5], true),
        "MOVUP6" | "MOVDN6" => e(None, 7, &[0, 1, 2, 3, 4, 5, 6], true),
        "MOVUP7" | "MOVDN7" => e(None, 8, &[0, 1, 2, 3, 4, 5, 6, 7], true),
        "MOVUP8" | "MOVDN8" => e(None, 9, &[0, 1, 2, 3, 4, 5, 6, 7, 8], true),
        "SWAPW" => e(None, 8, &[0, 1, 2, 3, 4, 5, 6, 7], true),
        "SWAPW2" => e(None, 12, &[0, 1, 2, 3, 4, 5, 6, 7, 8, 9, 10, 11], true),
        "SWAPW3" | "SWAPDW" => e(None, 16, &[0, 1, 2, 3, 4, 5, 6, 7, 8, 9, 10, 11, 12, 13, 14, 15], true),
        "ADVPOPW" => e(None, 4, &[], false),
        "EXPACC" | "EXT2MUL" => e(None, 4, &[0, 1, 2, 3], true),
        "ASSERT" | "DROP" | "FMPUPDATE" | "SPLIT" | "LOOP" | "REPEAT" => e(Left, 1, &[], true),
        "MSTORE" | "MSTOREW" => e(Left, 1, &[], true),
        "EQ" | "ADD" | "MUL" | "AND" | "OR" => e(Left, 2, &[0], true),
        "U32AND" | "U32XOR" => e(Left, 2, &[], false),
        "CSWAP" => e(Left, 3, &[0, 1], true),
        "CSWAPW" => e(Left, 9, &[0, 1, 2, 3, 4, 5, 6, 7], true),
        "MLOADW" => e(Left, 5, &[], false),
        "PAD" | "DUP" | "DUP1" | "DUP2" | "DUP3" | "DUP4" | "DUP5" | "DUP6" | "DUP7" | "DUP9" | "DUP11" | "DUP13" | "DUP15" | "SDEPTH" | "CLK" => e(Right, 0, &[0], true),
        "ADVPOP" | "PUSH" => e(Right, 0, &[], false),
        "U32ADD" | "U32SUB" | "U32MUL" | "U32DIV" => e(None, 2, &[0, 1], true),
        "U32SPLIT" => e(Right, 1, &[0, 1], true),
        "U32ASSERT2" => e(None, 0, &[], true),
        "U32ADD3" | "U32MADD" => e(Left, 3, &[0, 1], true),
        "HPERM" => e(None, 12, &[], false),
        "MPVERIFY" => e(None, 0, &[], false),
        "MRUPDATE" => e(None, 4, &[], false),
        // MSTREAM (io_ops.md): no change from position 8 except position 12, which is incremented by 2
        "MSTREAM" => e(None, 8, &[], false),
        "END" => {
            // END shifts left when it exits a loop (decoder helper h5 / is_loop flag, column 21)
            if x.cur[21].as_int() == 1 {
                e(Left, 1, &[], true)
            } else {
                e(None, 0, &[], true)
            }
        }
        // CALLER, PIPE, FRIE2F4, RCOMBBASE: no constraint description in docs/src/design/stack
        _ => Option::None,
    }
}

/// number of helper registers the documentation ties to the operands by a transition constraint
fn helpers_determined(op: u8, k: usize, x: &RowCtx) -> bool {
    let s = |i: usize| x.cur[S0 + i].as_int();
    match op_name(op) {
        // the inverse helper is only pinned down when the value it inverts is non-zero
        "EQZ" => k == 0 && s(0) != 0,
        "EQ" => k == 0 && s(0) != s(1),
        "EXPACC" => k == 0,
        "U32ADD" | "U32ADD3" => k < 3,
        "U32SUB" => k < 2,
        "U32ASSERT2" | "U32DIV" => k < 4,
        "U32SPLIT" | "U32MUL" | "U32MADD" => {
            if k < 4 {
                true
            } else if k == 4 {
                // m = (2^32 - 1 - v_hi)^-1 is pinned down only when v_lo != 0 (u32_ops.md, element validity)
                let lo = x.cur[HELPER0].as_int() + (x.cur[HELPER0 + 1].as_int() << 16);
                lo != 0
            } else {
                false
            }
        }
        _ => false,
    }
}

/// Some(reason) if the documentation leaves `cell` free for this row pair (a mutation of it need
/// not be rejected by a transition constraint); None if the cell is determined / in scope.
fn spec_free(c: Cell, x: &RowCtx, new: Felt) -> Option<&'static str> {
    let op = x.opcode;
    match c {
        Cell::Clk => None,
        Cell::Fmp => {
            if op_name(op) == "FMPUPDATE" {
                None
            } else {
                Some("system_ops.md constrains fmp' only for FMPUPDATE; elsewhere fmp is carried by the decoder / block stack table")
            }
        }
        Cell::B0 => {
            // depth: b0' - b0 + f_shl * f_ov - f_shr = 0 (stack/main.md); CALL / SYSCALL / END of a call
            // reset / restore the depth through the block stack table (decoder/main.md)
            match op_name(op) {
                // CALL / SYSCALL set the depth to 16 (programs.md, "Sets the depth of the stack to 16"): determined
                "END" if x.cur[22].as_int() == 1 || x.cur[23].as_int() == 1 => Some("depth is restored at the end of a call via the block stack table"),
                _ => None,
            }
        }
        Cell::B1 => match effect(op, x) {
            Some(e) if e.shift == Shift::Right => None,
            _ => Some("stack/main.md constrains b1' only on a right shift (b1' = clk); on a left shift it comes from the removed overflow row (p1), otherwise no constraint is documented"),
        },
        Cell::H0Cur => {
            if x.depth == 16 {
                Some("h0 is arbitrary when the depth is 16 (stack/main.md, overflow flag)")
            } else {
                None
            }
        }
        Cell::Helper(k) => {
            if helpers_determined(op, k, x) {
                None
            } else {
                Some("helper register not tied to the operands by a documented transition constraint for this operation (unused, bus-checked, or an inverse of zero)")
            }
        }
        Cell::S(i) => {
            let Some(e) = effect(op, x) else { return Some("no constraint description for this operation in docs/src/design/stack (CALLER, PIPE, FRIE2F4, RCOMBBASE)") };
            if x.row_is_padding {
                return None;
            }
            // cells covered by the documented shift rule
            let by_shift = match e.shift {
                Shift::None => i >= e.from,
                Shift::Right => i >= e.from + 1,
                Shift::Left => i + 1 >= e.from && i < 15,
            };
            if op_name(op) == "MSTREAM" && i == 12 {
                return None; // s12' = s12 + 2
            }
            if by_shift {
                return None;
            }
            if e.shift == Shift::Left && i == 15 {
                return if x.ov { Some("s15' comes from the overflow table (p1) on a left shift with a non-empty table") } else { None };
            }
            if e.top.contains(&i) && e.in_scope_top {
                return None;
            }
            Some("result cell set through a lookup / bus or by an operation outside the classes the property names (I/O, crypto); only the documented shift is in scope")
        }
        Cell::Chip(col) => {
            let r = x.row + 1; // the altered row
            match (x.chiplet, x.chiplet_next) {
                ("hasher", "hasher") => match col {
                    4..=15 => None, // state: the round function ties it to a neighbouring row
                    // selectors s0, s1, s2 and the node index: the equations of hasher.md ("Selector columns
                    // constraints", "Node index constraints") are evaluated literally on the two row pairs that
                    // contain the altered cell; the change is a documented violation iff one of them fails
                    1 | 2 | 3 | 16 => {
                        let mut altered = x.next.clone();
                        altered[CHIP + col] = new;
                        let first = hasher_doc_selector_index_equations(&x.cur, &altered, x.row, true);
                        let second = match &x.next2 {
                            Some(n2) if x.row + 1 < x.n - 2 => hasher_doc_selector_index_equations(&altered, n2, r, chiplet_kind(n2) == "hasher" && chiplet_kind(&altered) == "hasher"),
                            _ => true,
                        };
                        if first && second {
                            Some("every selector / node-index equation of hasher.md holds on both row pairs that contain the altered cell (hasher s0 is unconstrained except after an absorption; the index of a new computation is arbitrary)")
                        } else {
                            None
                        }
                    }
                    _ => Some("hasher chiplet selector column or unused column"),
                },
                ("bitwise", "bitwise") => match col {
                    2..=14 => None,
                    _ => Some("chiplet selector columns (segment boundaries are the prover's choice) or unused bitwise columns"),
                },
                ("memory", "memory") => match col {
                    // s1' is a function of the case split (memory.md): 0 when the context or the address
                    // changes or the access is a write, 1 for a read of the same word
                    4 => None,
                    // d0, d1: 16-bit limbs of the documented delta
                    12 | 13 => None,
                    // d_inv': the inverse of the context (else address) difference whenever one of them changes
                    14 if x.next[CHIP + 5] != x.cur[CHIP + 5] || x.next[CHIP + 6] != x.cur[CHIP + 6] => None,
                    // value of a read: copied from the previous access of the same word or zero
                    8..=11 if x.next[CHIP + 3].as_int() == 1 => None,
                    _ => Some("the read/write selector, ctx / addr / clk and written values are set through the bus (the transition constraints only keep the rows sorted: a change that stays consistent with the delta limbs is not a documented violation); d_inv is free when neither context nor address changes; chiplet selector columns"),
                },
                _ => Some("transition between chiplets, kernel ROM or padding rows: outside the chiplets the property names"),
            }
        }
        Cell::RangeM | Cell::RangeV => {
            if c == Cell::RangeV && x.next[RANGE_M].as_int() == 0 {
                Some("a range-table row with multiplicity 0 does not enter the LogUp sum; it only has to respect the allowed step sizes")
            } else if x.row + 1 == x.n - 2 {
                Some("last row before the random row: the value is fixed by a boundary assertion and the multiplicity is never used")
            } else {
                None
            }
        }
        Cell::BRange => None,
    }
}

fn sweep(ctx: &Ctx, case: &ProgCase, challenges: &[Q], tally: &Mutex<Tally>, dump: bool) {
    let cj = || json!({"name": case.name, "src": case.src, "kernel": case.kernel, "stack": case.stack, "advice": case.advice, "merkle": !case.merkle_leaves.is_empty()});
    let program = match mcx::guard::catch(|| case.assembler().compile(&case.src)) {
        Ok(Ok(p)) => p,
        _ => {
            ctx.fail(json!({"kind": "family_program_does_not_assemble"}), case.name.clone(), cj());
            return;
        }
    };
    let mut trace = match exec_trace(&program, &case.stack, case.advice_inputs(), processor::ExecutionOptions::default()) {
        Ok(Ok(t)) => t,
        _ => {
            ctx.fail(json!({"kind": "family_program_does_not_execute"}), case.name.clone(), cj());
            return;
        }
    };
    let si = stack_inputs(&case.stack);
    let air = airx::make_air(&trace, &si);
    let aux = trace.build_aux_segment::<Q>(&[], challenges).expect("SUBJECT: aux segment must be built");
    let mut rand = AuxTraceRandElements::<Q>::new();
    rand.add_segment_elements(challenges.to_vec());
    let main = trace.main_segment();
    let n = main.num_rows();
    let width = main.num_cols();
    let periodic = air.get_periodic_column_values();
    let nmain = air.context().num_main_transition_constraints();
    let naux = air.context().num_aux_transition_constraints();
    let mut local = Tally::default();
    let mut mf = EvaluationFrame::<Felt>::new(width);
    let mut af = EvaluationFrame::<Q>::new(airx::AUX_WIDTH);
    let mut mf2 = EvaluationFrame::<Felt>::new(width);
    let mut af2 = EvaluationFrame::<Q>::new(airx::AUX_WIDTH);
    let mut me = vec![Felt::ZERO; nmain];
    let mut ae = vec![Q::ZERO; naux];
    let cycles = trace.trace_len_summary().main_trace_len();
    for i in 0..n - 2 {
        main.read_row_into(i, mf.current_mut());
        main.read_row_into(i + 1, mf.next_mut());
        aux.read_row_into(i, af.current_mut());
        aux.read_row_into(i + 1, af.next_mut());
        let pv = airx::periodic_at(&periodic, i);
        // 0 deviations: the honest frame must satisfy everything (else the trace is not a valid base)
        me.iter_mut().for_each(|x| *x = Felt::ZERO);
        air.evaluate_transition(&mf, &pv, &mut me);
        if me.iter().any(|v| *v != Felt::ZERO) {
            ctx.fail(json!({"kind": "honest_frame_violates_air"}), format!("{} row {i}", case.name), cj());
            return;
        }
        local.rows += 1;
        let cur: Vec<Felt> = mf.current().to_vec();
        let next: Vec<Felt> = mf.next().to_vec();
        let mut opcode = 0u8;
        for b in 0..7 {
            opcode |= ((cur[OPB + b].as_int() & 1) as u8) << b;
        }
        let x = RowCtx {
            opcode,
            depth: cur[B0].as_int(),
            ov: cur[B0].as_int() > 16,
            chiplet: chiplet_kind(&cur),
            chiplet_next: chiplet_kind(&next),
            row: i,
            n,
            row_is_padding: i >= cycles,
            cur: cur.clone(),
            next: next.clone(),
            next2: if i + 2 < n {
                let mut v = vec![Felt::ZERO; width];
                main.read_row_into(i + 2, &mut v);
                Some(v)
            } else {
                None
            },
        };
        // candidate cells
        let mut cells: Vec<Cell> = vec![];
        if i < cycles {
            cells.extend((0..16).map(Cell::S));
            cells.extend([Cell::B0, Cell::B1, Cell::H0Cur, Cell::Clk, Cell::Fmp]);
            cells.extend((0..6).map(Cell::Helper));
        } else {
            // padding rows (HALT): the stack and system columns must still be carried over
            cells.extend([Cell::S(0), Cell::S(15), Cell::B0, Cell::Clk]);
        }
        if x.chiplet != "padding" || x.chiplet_next != "padding" {
            cells.extend((0..CHIP_END - CHIP).map(Cell::Chip));
        }
        cells.extend([Cell::RangeM, Cell::RangeV, Cell::BRange]);
        for c in cells {
            let (col, in_next) = c.col();
            let region = match c {
                Cell::Chip(_) if x.chiplet_next == "hasher" || x.chiplet_next == "bitwise" => format!("chiplet:{}->{}@{}", x.chiplet, x.chiplet_next, (i + 1) % 8),
                Cell::Chip(_) => format!("chiplet:{}->{}", x.chiplet, x.chiplet_next),
                Cell::RangeM | Cell::RangeV | Cell::BRange => "range".to_string(),
                _ => op_name(opcode).to_string(),
            };
            let key = (region.clone(), c.name());
            if c == Cell::BRange {
                let old = af.next()[AUX_B_RANGE];
                for d in [old + Q::ONE, old - Q::ONE, old + old, Q::ZERO, Q::ONE, af.current()[AUX_B_RANGE]] {
                    if d == old {
                        continue;
                    }
                    af.next_mut()[AUX_B_RANGE] = d;
                    ae.iter_mut().for_each(|v| *v = Q::ZERO);
                    air.evaluate_aux_transition(&mf, &af, &pv, &rand, &mut ae);
                    let rejected = ae.iter().any(|v| *v != Q::ZERO);
                    let e = local.per.entry(key.clone()).or_insert([0; 4]);
                    e[0] += 1;
                    local.frames += 1;
                    if rejected {
                        e[1] += 1;
                    } else {
                        e[3] += 1;
                        if !dump {
                            ctx.fail(json!({"kind": "deviation_not_rejected", "op": region, "cell": c.name()}), format!("{} row {i}: b_range' altered, no aux constraint fires", case.name), json!({"prog": cj(), "row": i, "cell": c.name()}));
                        }
                    }
                }
                af.next_mut()[AUX_B_RANGE] = old;
                continue;
            }
            let old = if in_next { next[col] } else { cur[col] };
            let neighbour = if in_next { next[(col + 1).min(width - 1)] } else { cur[(col + 1).min(width - 1)] };
            // cells of the chiplets and of the range checker are judged on the trace: both row pairs
            // that contain the cell are evaluated (their logic mixes single-row and transition
            // constraints); stack / system cells on the producing transition alone
            let two_frames = matches!(c, Cell::Chip(_) | Cell::RangeM | Cell::RangeV) && i + 1 < n - 2;
            for d in deltas(old, neighbour) {
                if in_next {
                    mf.next_mut()[col] = d;
                } else {
                    mf.current_mut()[col] = d;
                }
                me.iter_mut().for_each(|v| *v = Felt::ZERO);
                air.evaluate_transition(&mf, &pv, &mut me);
                local.note_fired(&me);
                let mut rejected = me.iter().any(|v| *v != Felt::ZERO);
                if !rejected && matches!(c, Cell::RangeM | Cell::RangeV) {
                    ae.iter_mut().for_each(|v| *v = Q::ZERO);
                    air.evaluate_aux_transition(&mf, &af, &pv, &rand, &mut ae);
                    rejected = ae.iter().any(|v| *v != Q::ZERO);
                }
                if !rejected && two_frames {
                    // the following row pair: the altered row is now the current one
                    main.read_row_into(i + 1, mf2.current_mut());
                    main.read_row_into(i + 2, mf2.next_mut());
                    mf2.current_mut()[col] = d;
                    let pv2 = airx::periodic_at(&periodic, i + 1);
                    me.iter_mut().for_each(|v| *v = Felt::ZERO);
                    air.evaluate_transition(&mf2, &pv2, &mut me);
                    local.note_fired(&me);
                    rejected = me.iter().any(|v| *v != Felt::ZERO);
                    if !rejected && matches!(c, Cell::RangeM | Cell::RangeV) {
                        aux.read_row_into(i + 1, af2.current_mut());
                        aux.read_row_into(i + 2, af2.next_mut());
                        ae.iter_mut().for_each(|v| *v = Q::ZERO);
                        air.evaluate_aux_transition(&mf2, &af2, &pv2, &rand, &mut ae);
                        rejected = ae.iter().any(|v| *v != Q::ZERO);
                    }
                }
                let e = local.per.entry(key.clone()).or_insert([0; 4]);
                e[0] += 1;
                local.frames += 1;
                if rejected {
                    e[1] += 1;
                } else if let Some(_why) = spec_free(c, &x, d) {
                    e[2] += 1;
                } else {
                    e[3] += 1;
                    if std::env::var("VMC_C04_ONLY").is_ok() {
                        println!("DEBUG row {i} op {} cell {} old {} new {} depth {} h0 {}", op_name(opcode), c.name(), old.as_int(), d.as_int(), x.depth, cur[H0].as_int());
                    }
                    if !dump {
                        let ctxs = format!("depth={} ov={} row%8={}", x.depth, x.ov, i % 8);
                        ctx.fail(
                            json!({"kind": "deviation_not_rejected", "op": region, "cell": c.name()}),
                            format!("{} row {i} ({}): {} altered from {} to {} and no transition constraint fires [{ctxs}]", case.name, region, c.name(), old.as_int(), d.as_int()),
                            json!({"prog": cj(), "row": i, "cell": c.name(), "new": d.as_int()}),
                        );
                    }
                }
            }
            if in_next {
                mf.next_mut()[col] = old;
            } else {
                mf.current_mut()[col] = old;
            }
        }
        // liveness only (not judged): the operands of the operation, i.e. the CURRENT row's stack cells.
        // Conditions on operands (ASSERT: s0 = 1; NOT / AND / OR / CSWAP / SPLIT / LOOP: binary; ...) can
        // only fire when an operand is altered; whether an accepted operand change is legitimate depends on
        // the operation (DROP accepts anything), so these frames feed the per-constraint tally alone
        if i < cycles {
            for j in 0..16 {
                let old = cur[S0 + j];
                let neighbour = cur[S0 + (j + 1) % 16];
                for d in deltas(old, neighbour) {
                    mf.current_mut()[S0 + j] = d;
                    me.iter_mut().for_each(|v| *v = Felt::ZERO);
                    air.evaluate_transition(&mf, &pv, &mut me);
                    local.note_fired(&me);
                    local.operand_frames += 1;
                }
                mf.current_mut()[S0 + j] = old;
            }
            u32_consistent_deviations(ctx, case, &air, &mut mf, &mut af, &pv, &rand, challenges[0], &x, &mut local, &cj, dump);
        }
    }
    hasher_cycle_deviations(ctx, case, &air, main, &periodic, n, &mut local, &cj, dump);
    let mut t = tally.lock().unwrap();
    t.frames += local.frames;
    t.rows += local.rows;
    t.operand_frames += local.operand_frames;
    t.u32_forged += local.u32_forged;
    t.u32_forged_aux_zero += local.u32_forged_aux_zero;
    for (k, v) in &local.u32_rejected_by {
        t.u32_rejected_by.entry(k.clone()).or_default().extend(v.iter().cloned());
    }
    if t.fired.len() < local.fired.len() {
        t.fired.resize(local.fired.len(), 0);
    }
    for (k, v) in local.fired.iter().enumerate() {
        t.fired[k] += v;
    }
    for (k, v) in local.per {
        let e = t.per.entry(k).or_insert([0; 4]);
        for j in 0..4 {
            e[j] += v[j];
        }
    }
}

/// Third fault model, for the u32 arithmetic operations: a WRONG RESULT WITH CONSISTENT LIMBS. The single-cell
/// sweep can never produce a frame in which the result cells, the helper limbs and the range-checker bus agree
/// with each other, so it is blind to a missing rule that only such a frame can reach (the binary check of the
/// U32SUB borrow, the element-validity check of U32SPLIT / U32MUL / U32MADD, the bounds on quotient and
/// remainder of U32DIV). For every row of a u32 arithmetic operation with u32 operands this enumerates
/// alternative assignments of (s0', s1', h0..h3) in which EVERY limb is a 16-bit value (so the range checker
/// can serve the lookups) and which satisfy the documented limb-aggregation equations of u32_ops.md modulo p,
/// but whose results differ from the honest ones; b_range' is recomputed for the new limbs with the LogUp
/// equation of u32_ops.md ("Range checks"), so the forged frame is consistent in everything except the
/// arithmetic. At least one main or auxiliary transition constraint must be non-zero on it.
///   U32SUB: differences c'' from a boundary set around the honest one, borrow'' = (s0 + c'' - s1) / 2^32 (never binary)
///   U32SPLIT / U32MUL / U32MADD: the second 64-bit spelling v + p of the value v (exists iff v < 2^32 - 1):
///           hi'' = 2^32 - 1, lo'' = v + 1, with m in {honest, 0, 1}
///   U32DIV: all (q'', r'') with q'' = s1 - x, r'' = s0 - 1 - y, 0 <= x, y < 2^32 and s0 q'' + r'' = s1 (mod p):
///           for each wrap count k in {-1, 0, 1} the solutions form an interval of x; its two first and two
///           last members and the honest neighbours are taken
#[allow(clippy::too_many_arguments)]
fn u32_consistent_deviations(
    ctx: &Ctx,
    case: &ProgCase,
    air: &air::ProcessorAir,
    mf: &mut EvaluationFrame<Felt>,
    af: &mut EvaluationFrame<Q>,
    pv: &[Felt],
    rand: &AuxTraceRandElements<Q>,
    alpha: Q,
    x: &RowCtx,
    local: &mut Tally,
    cj: &dyn Fn() -> Value,
    dump: bool,
) {
    let name = op_name(x.opcode);
    if !matches!(name, "U32SUB" | "U32SPLIT" | "U32MUL" | "U32MADD" | "U32DIV" | "U32ADD" | "U32ADD3" | "EXPACC") {
        return;
    }
    if name == "EXPACC" {
        expacc_consistent_deviations(ctx, case, air, mf, pv, x, local, cj, dump);
        return;
    }
    const M32: u64 = 0xffff_ffff;
    let s = |k: usize| x.cur[S0 + k];
    let is_u32 = |v: Felt| v.as_int() <= M32;
    let hon: [u64; 5] = core::array::from_fn(|k| x.cur[HELPER0 + k].as_int());
    let limbs = |lo: u64, hi: u64| [lo & 0xffff, lo >> 16, hi & 0xffff, hi >> 16];
    // (class, s0'', s1'', limbs, candidates for m)
    let mut alts: Vec<(&'static str, Felt, Felt, [u64; 4], Vec<u64>)> = vec![];
    match name {
        "U32SUB" if is_u32(s(0)) && is_u32(s(1)) => {
            let honest = x.next[S0 + 1].as_int();
            let mut cands = std::collections::BTreeSet::new();
            for c in [honest.wrapping_add(1), honest.wrapping_sub(1), honest.wrapping_add(2), honest.wrapping_sub(2), 0, 1, M32, 1 << 31, honest ^ 0x1_0000, honest ^ 0x8000_0000] {
                if (c & M32) != honest {
                    cands.insert(c & M32);
                }
            }
            let inv32 = Felt::new(1 << 32).inv();
            for c in cands {
                // u32 subtraction: s1' = s1 - s0 + 2^32 * borrow (u32_ops.md prints the borrow term with the opposite
                // sign, which not even an honest row with a borrow satisfies)
                let borrow = (s(0) + Felt::new(c) - s(1)) * inv32;
                alts.push(("wrong_difference_with_a_non_binary_borrow", borrow, Felt::new(c), [c & 0xffff, c >> 16, hon[2], hon[3]], vec![hon[4]]));
            }
        }
        // u32_ops.md: s0' = h2 and "value in h3 is set to 0": the unused limb set to a 16-bit value t and the
        // carry reported as h2 + 2^16 t (the sum s1' and the limbs h0..h2 stay honest)
        "U32ADD" | "U32ADD3" if is_u32(s(0)) && is_u32(s(1)) && (name == "U32ADD" || is_u32(s(2))) => {
            for t in [1u64, 2, 0xffff] {
                if t != hon[3] {
                    alts.push(("wrong_carry_with_the_unused_limb_h3_set", Felt::new(hon[2] + (t << 16)), x.next[S0 + 1], [hon[0], hon[1], hon[2], t], vec![hon[4]]));
                }
            }
        }
        "U32SPLIT" | "U32MUL" | "U32MADD" => {
            let ok = match name {
                "U32SPLIT" => true,
                "U32MUL" => is_u32(s(0)) && is_u32(s(1)),
                _ => is_u32(s(0)) && is_u32(s(1)) && is_u32(s(2)),
            };
            let v = match name {
                "U32SPLIT" => s(0),
                "U32MUL" => s(0) * s(1),
                _ => s(0) * s(1) + s(2),
            };
            if ok && v.as_int() < M32 {
                let lo = v.as_int() + 1;
                alts.push(("second_spelling_v_plus_p_of_the_value", Felt::new(M32), Felt::new(lo), limbs(lo, M32), vec![hon[4], 0, 1]));
            }
        }
        "U32DIV" if is_u32(s(0)) && is_u32(s(1)) && s(0).as_int() != 0 => {
            let (a, b) = (s(1).as_int() as i128, s(0).as_int() as i128);
            let (hq, hr) = (x.next[S0 + 1], x.next[S0]);
            let xh = a - hq.as_int() as i128;
            for k in [-1i128, 0, 1] {
                let c = b * a + b - 1 - a - k * (P as i128);
                let x_lo = (-((-(c - M32 as i128)).div_euclid(b))).max(0);
                let x_hi = c.div_euclid(b).min(M32 as i128);
                if x_lo > x_hi {
                    continue;
                }
                let mut xs = std::collections::BTreeSet::new();
                for cand in [x_lo, x_lo + 1, x_hi - 1, x_hi, xh - 2, xh - 1, xh + 1, xh + 2] {
                    if cand >= x_lo && cand <= x_hi {
                        xs.insert(cand);
                    }
                }
                for xv in xs {
                    let y = c - b * xv;
                    assert!((0..=M32 as i128).contains(&y), "harness: U32DIV solution interval");
                    let q = s(1) - Felt::new(xv as u64);
                    let r = s(0) - Felt::ONE - Felt::new(y as u64);
                    assert!(s(0) * q + r == s(1), "harness: U32DIV alternative does not satisfy the division equation");
                    if q == hq && r == hr {
                        continue;
                    }
                    let class = if k != 0 {
                        "quotient_and_remainder_wrap_the_modulus"
                    } else if r.as_int() > M32 {
                        "quotient_too_large_with_a_negative_remainder"
                    } else {
                        "other_u32_quotient_and_remainder"
                    };
                    alts.push((class, r, q, limbs(xv as u64, y as u64), vec![hon[4]]));
                }
            }
        }
        _ => {}
    }
    if alts.is_empty() {
        return;
    }
    let nmain = air.context().num_main_transition_constraints();
    let naux = air.context().num_aux_transition_constraints();
    let mut me = vec![Felt::ZERO; nmain];
    let mut ae = vec![Q::ZERO; naux];
    let save_next: Vec<Felt> = mf.next().to_vec();
    let save_cur: Vec<Felt> = mf.current().to_vec();
    let save_b = af.next()[AUX_B_RANGE];
    let term = |h: u64| (alpha - Q::from(Felt::new(h))).inv();
    for (class, s0n, s1n, l, ms) in alts {
        for m in ms {
            mf.next_mut()[S0] = s0n;
            mf.next_mut()[S0 + 1] = s1n;
            let mut b_new = save_b;
            for k in 0..4 {
                mf.current_mut()[HELPER0 + k] = Felt::new(l[k]);
                b_new = b_new + term(hon[k]) - term(l[k]);
            }
            mf.current_mut()[HELPER0 + 4] = Felt::new(m);
            af.next_mut()[AUX_B_RANGE] = b_new;
            me.iter_mut().for_each(|v| *v = Felt::ZERO);
            air.evaluate_transition(mf, pv, &mut me);
            local.note_fired(&me);
            ae.iter_mut().for_each(|v| *v = Q::ZERO);
            air.evaluate_aux_transition(mf, af, pv, rand, &mut ae);
            let aux_zero = ae.iter().all(|v| *v == Q::ZERO);
            let rejected = me.iter().any(|v| *v != Felt::ZERO) || !aux_zero;
            local.u32_forged += 1;
            local.u32_forged_aux_zero += aux_zero as u64;
            local.frames += 1;
            let e = local.per.entry((format!("{name} (result, limbs and b_range' forged consistently)"), class.to_string())).or_insert([0; 4]);
            e[0] += 1;
            if rejected {
                e[1] += 1;
                let by = local.u32_rejected_by.entry(format!("{name} {class}")).or_default();
                by.extend(me.iter().enumerate().filter(|(_, v)| **v != Felt::ZERO).map(|(k, _)| k));
            } else {
                e[3] += 1;
                if !dump {
                    ctx.fail(
                        json!({"kind": "consistent_deviation_not_rejected", "op": name, "cell": class}),
                        format!(
                            "{} row {}: {name} on (s0, s1, s2) = ({}, {}, {}) with the results forged to (s0', s1') = ({}, {}), limbs h0..h3 = {:?} (all 16-bit), m = {m} and b_range' recomputed for these limbs: no main or auxiliary transition constraint fires",
                            case.name, x.row, s(0).as_int(), s(1).as_int(), s(2).as_int(), s0n.as_int(), s1n.as_int(), l
                        ),
                        json!({"prog": cj(), "row": x.row, "cell": class, "model": "u32_consistent"}),
                    );
                }
            }
            mf.next_mut().copy_from_slice(&save_next);
            mf.current_mut().copy_from_slice(&save_cur);
            af.next_mut()[AUX_B_RANGE] = save_b;
        }
    }
}

/// EXPACC (field_ops.md): the bit s0' must be binary, exp' = exp^2, h0 = (exp - 1) * s0' + 1, acc' = acc * h0,
/// b = 2 b' + s0'. A non-binary bit with everything that depends on it recomputed (val, acc', b') is a wrong
/// round of the exponentiation that only the binary check can reject.
#[allow(clippy::too_many_arguments)]
fn expacc_consistent_deviations(ctx: &Ctx, case: &ProgCase, air: &air::ProcessorAir, mf: &mut EvaluationFrame<Felt>, pv: &[Felt], x: &RowCtx, local: &mut Tally, cj: &dyn Fn() -> Value, dump: bool) {
    let nmain = air.context().num_main_transition_constraints();
    let mut me = vec![Felt::ZERO; nmain];
    let save_next: Vec<Felt> = mf.next().to_vec();
    let save_cur: Vec<Felt> = mf.current().to_vec();
    let (exp, acc, b) = (x.cur[S0 + 1], x.cur[S0 + 2], x.cur[S0 + 3]);
    let half = Felt::new(2).inv();
    for bit in [2u64, 3, P - 1, 1 << 32] {
        let bit = Felt::new(bit);
        let val = (exp - Felt::ONE) * bit + Felt::ONE;
        mf.next_mut()[S0] = bit;
        mf.next_mut()[S0 + 2] = acc * val;
        mf.next_mut()[S0 + 3] = (b - bit) * half;
        mf.current_mut()[HELPER0] = val;
        me.iter_mut().for_each(|v| *v = Felt::ZERO);
        air.evaluate_transition(mf, pv, &mut me);
        local.note_fired(&me);
        let rejected = me.iter().any(|v| *v != Felt::ZERO);
        local.frames += 1;
        let class = "non_binary_bit_with_val_acc_and_b_recomputed";
        let e = local.per.entry(("EXPACC (bit, val, acc', b' forged consistently)".to_string(), class.to_string())).or_insert([0; 4]);
        e[0] += 1;
        if rejected {
            e[1] += 1;
            let by = local.u32_rejected_by.entry(format!("EXPACC {class}")).or_default();
            by.extend(me.iter().enumerate().filter(|(_, v)| **v != Felt::ZERO).map(|(k, _)| k));
        } else {
            e[3] += 1;
            if !dump {
                ctx.fail(
                    json!({"kind": "consistent_deviation_not_rejected", "op": "EXPACC", "cell": class}),
                    format!(
                        "{} row {}: EXPACC on (bit, exp, acc, b) = ({}, {}, {}, {}) with the next bit forged to {} and val, acc', b' recomputed from it: no transition constraint fires",
                        case.name, x.row, x.cur[S0].as_int(), exp.as_int(), acc.as_int(), b.as_int(), bit.as_int()
                    ),
                    json!({"prog": cj(), "row": x.row, "cell": class, "model": "expacc_consistent"}),
                );
            }
        }
        mf.next_mut().copy_from_slice(&save_next);
        mf.current_mut().copy_from_slice(&save_cur);
    }
}

/// Second fault model, for the hasher chiplet only: a deviation with honest continuation. A single-cell
/// change of the hasher state is always caught by one of the two row pairs that contain the cell (the
/// round function), so the single-cell sweep above cannot see a missing rule at a cycle boundary. Here
/// the first row of a hash cycle (row r, r mod 8 = 0) is altered in ONE cell that the documentation ties
/// to the previous cycle (hasher.md: the capacity is carried over when the next elements are absorbed in
/// a linear hash; the previous digest is copied to h4..h7 or h8..h11 - chosen by the bit shifted out of
/// the node index - when the next Merkle-path node is absorbed), the seven following rows are recomputed
/// with the real RPO round function, and all nine row pairs (r-1, r) ... (r+7, r+8) are evaluated.
/// The AIR must reject the deviation on at least one of them.
#[allow(clippy::too_many_arguments)]
fn hasher_cycle_deviations(
    ctx: &Ctx,
    case: &ProgCase,
    air: &air::ProcessorAir,
    main: &winter_prover::matrix::ColMatrix<Felt>,
    periodic: &[Vec<Felt>],
    n: usize,
    local: &mut Tally,
    cj: &dyn Fn() -> Value,
    dump: bool,
) {
    use vm_core::crypto::hash::Rpo256;
    let width = main.num_cols();
    let nmain = air.context().num_main_transition_constraints();
    let mut me = vec![Felt::ZERO; nmain];
    let row = |i: usize| -> Vec<Felt> {
        let mut v = vec![Felt::ZERO; width];
        main.read_row_into(i, &mut v);
        v
    };
    let st = CHIP + 4; // first hasher state column
    let mut r = 8;
    while r + 9 < n - 1 {
        let rows: Vec<Vec<Felt>> = (r - 1..=r + 8).map(row).collect(); // rows[0] = r-1, rows[1] = r, ..., rows[9] = r+8
        let all_hasher = rows[..9].iter().all(|x| chiplet_kind(x) == "hasher");
        if !all_hasher {
            r += 8;
            continue;
        }
        // machinery self-check: the honest rows r+1..r+7 are the RPO rounds of row r
        let mut state: [Felt; 12] = core::array::from_fn(|j| rows[1][st + j]);
        for k in 0..7 {
            Rpo256::apply_round(&mut state, k);
            assert!((0..12).all(|j| state[j] == rows[2 + k][st + j]), "harness: the hasher rows after row {r} of {} are not RPO rounds of it", case.name);
        }
        let prev = &rows[0];
        let sel = (prev[CHIP + 1].as_int(), prev[CHIP + 2].as_int(), prev[CHIP + 3].as_int());
        let bit = prev[CHIP + 16].as_int().wrapping_sub(2u64.wrapping_mul(rows[1][CHIP + 16].as_int()));
        // the cells of row r that the documentation ties to row r-1
        let (flag, tied): (&str, Vec<usize>) = match sel {
            (1, 0, 0) => ("ABP", (0..4).collect()),
            (1, 0, 1) | (1, 1, 0) | (1, 1, 1) => {
                let name = match sel {
                    (1, 0, 1) => "MPA",
                    (1, 1, 0) => "MVA",
                    _ => "MUA",
                };
                (name, if bit == 0 { (4..8).collect() } else { (8..12).collect() })
            }
            _ => ("", vec![]),
        };
        for j in tied {
            for d in [Felt::ONE, Felt::new(P - 1)] {
                let mut mutated: Vec<Vec<Felt>> = rows.clone();
                mutated[1][st + j] += d;
                let mut state: [Felt; 12] = core::array::from_fn(|q| mutated[1][st + q]);
                for k in 0..7 {
                    Rpo256::apply_round(&mut state, k);
                    for q in 0..12 {
                        mutated[2 + k][st + q] = state[q];
                    }
                }
                let mut rejected = false;
                for k in 0..9 {
                    let mut f = EvaluationFrame::<Felt>::new(width);
                    f.current_mut().copy_from_slice(&mutated[k]);
                    f.next_mut().copy_from_slice(&mutated[k + 1]);
                    let pv = airx::periodic_at(periodic, r - 1 + k);
                    me.iter_mut().for_each(|v| *v = Felt::ZERO);
                    air.evaluate_transition(&f, &pv, &mut me);
                    local.note_fired(&me);
                    if me.iter().any(|v| *v != Felt::ZERO) {
                        rejected = true;
                        break;
                    }
                }
                let key = (format!("hasher cycle start after {flag} (state recomputed)"), format!("h{j}"));
                let e = local.per.entry(key).or_insert([0; 4]);
                e[0] += 1;
                local.frames += 9;
                if rejected {
                    e[1] += 1;
                } else {
                    e[3] += 1;
                    if !dump {
                        ctx.fail(
                            json!({"kind": "consistent_deviation_not_rejected", "op": format!("hasher:{flag}"), "cell": format!("h{j}")}),
                            format!("{} row {r}: first row of the hash cycle after {flag} (bit shifted out of the index = {bit}): h{j} altered by {} and rows {}..{} recomputed with the RPO round function: no transition constraint fires on any of the row pairs {}..{}", case.name, d.as_int(), r + 1, r + 7, r - 1, r + 8),
                            json!({"prog": cj(), "row": r, "cell": format!("h{j}"), "model": "hasher_cycle"}),
                        );
                    }
                }
            }
        }
        r += 8;
    }
}

/// single operations applied directly to the initial stack, so that the operation executes at depth
/// exactly 16 (empty overflow table) and 17 (one overflow row)
fn bare_ops() -> Vec<ProgCase> {
    let ops = [
        "add", "mul", "neg", "inv", "not", "and", "or", "eq", "eq.0", "add.1", "swap", "drop", "dup", "dup.1", "dup.2", "dup.3", "dup.4", "dup.5", "dup.6", "dup.7", "dup.9", "dup.11", "dup.13", "dup.15", "push.0", "push.7",
        "movup.2", "movup.3", "movup.4", "movup.5", "movup.6", "movup.7", "movup.8", "movdn.2", "movdn.3", "movdn.4", "movdn.5", "movdn.6",
        "movdn.7", "movdn.8", "swapw", "swapw.2", "swapw.3", "swapdw", "cswap", "cswapw", "assert", "u32split", "u32overflowing_add",
        "u32overflowing_sub", "u32overflowing_mul", "u32divmod", "u32overflowing_add3", "u32overflowing_madd", "u32assert2", "sdepth", "clk",
        "ext2mul", "u32and", "u32xor", "mem_load", "mem_store", "mem_storew", "mem_loadw", "hperm", "dropw", "padw",
    ];
    let mut v = vec![];
    for o in ops {
        for (tag, top) in [("eq", [1u64, 1, 0, 1]), ("ne", [1, 0, 1, 1])] {
            for depth in [16usize, 17] {
                let mut stack: Vec<u64> = top.to_vec();
                stack.extend((4..depth).map(|i| 5 + i as u64));
                v.push(ProgCase { name: format!("bare/{o}/{tag}/in{depth}"), src: format!("begin {o} end"), kernel: None, stack, advice: vec![], merkle_leaves: vec![], tags: vec![] });
            }
        }
    }
    v
}

/// u32 arithmetic on operands that give the third fault model something to forge: values below 2^32 - 1 (a second
/// 64-bit spelling exists), quotients that can be raised, differences on both sides of zero, limb boundaries
fn u32_operand_cases() -> Vec<ProgCase> {
    const M: u64 = 0xffff_ffff;
    let mut v = vec![];
    let mut add = |op: &str, top: Vec<u64>| {
        for depth in [16usize, 18] {
            let mut stack = top.clone();
            stack.extend((top.len()..depth).map(|i| 5 + i as u64));
            v.push(ProgCase { name: format!("u32ops/{op}/{:?}/in{depth}", top), src: format!("begin {op} end"), kernel: None, stack, advice: vec![], merkle_leaves: vec![], tags: vec![] });
        }
    };
    for (a, b) in [(7, 2), (M, 2), (M, M), (100, 7), (5, M), (1 << 31, 3), (6, 3), (0, 5), (M, M - 1), (M, 1), (0x1_0000, 0xffff)] {
        add("u32divmod", vec![b, a]);
    }
    for (a, b) in [(5, 3), (3, 5), (0, 0), (0, 1), (M, 0), (0, M), (0x1_0000, 1), (M, M)] {
        add("u32overflowing_sub", vec![b, a]);
    }
    for (a, b) in [(3, 5), (0xffff, 0x1_0001), (0xfffe, 0x1_0001), (M, M), (0, 7), (1, M - 1), (1, M)] {
        add("u32overflowing_mul", vec![b, a]);
    }
    for (a, b, c) in [(3, 5, 7), (0, 0, M - 1), (0, 0, M), (M, M, M), (1, M - 2, 1)] {
        add("u32overflowing_madd", vec![b, a, c]);
    }
    for a in [0, 1, 0xffff, 0x1_0000, M - 1, M, 1 << 32, P - 1, (M << 32) - 1] {
        add("u32split", vec![a]);
    }
    v
}

pub fn family(ctx: &Ctx) -> Vec<ProgCase> {
    let all = progs::p1(false);
    let mut v: Vec<ProgCase> = all
        .into_iter()
        .filter(|c| {
            let frame = c.name.split('/').nth(1).unwrap_or("");
            match ctx.tier {
                mcx::Tier::Quick => matches!(frame, "Top" | "Call" | "While2" | "Exec2" | "Syscall" | "DynExec" | "DynCall"),
                mcx::Tier::Thorough => true,
            }
        })
        .collect();
    v.extend(progs::shapes().into_iter().filter(|c| ctx.tier == mcx::Tier::Thorough || c.name.starts_with("deep_out") || c.name.starts_with("memctx") || c.name.ends_with("/8") || c.name.ends_with("/30") || c.name.ends_with("/20")));
    v.extend(bare_ops());
    v.extend(u32_operand_cases());
    v
}

pub fn run(ctx: &Ctx, replay: Option<&Value>) -> i32 {
    let challenges = airx::challenge_vectors(ctx.seed, 1).remove(0);
    let tally = Mutex::new(Tally::default());
    let dump = std::env::var("VMC_C04_DUMP").is_ok();
    if let Some(case) = replay {
        let p = &case["prog"];
        let u = |v: &Value| -> Vec<u64> { v.as_array().map(|a| a.iter().map(|x| x.as_u64().unwrap()).collect()).unwrap_or_default() };
        let pc = ProgCase {
            name: p["name"].as_str().unwrap_or("replay").into(),
            src: p["src"].as_str().unwrap().into(),
            kernel: p["kernel"].as_str().map(String::from),
            stack: u(&p["stack"]),
            advice: u(&p["advice"]),
            merkle_leaves: if p["merkle"].as_bool().unwrap_or(false) { progs::MERKLE_LEAVES.to_vec() } else { vec![] },
            tags: vec![],
        };
        println!("program {}: {}\nrow {} cell {} (the whole trace is re-swept)", pc.name, pc.src, case["row"], case["cell"]);
        sweep(ctx, &pc, &challenges, &tally, false);
        return ctx.finish("fault_enumeration", json!({}), &[]);
    }
    let mut fam = family(ctx);
    if let Ok(only) = std::env::var("VMC_C04_ONLY") {
        fam.retain(|c| c.name.starts_with(&only));
    }
    fam.par_iter().for_each(|c| sweep(ctx, c, &challenges, &tally, dump));
    let t = tally.into_inner().unwrap();
    if dump {
        for ((op, cell), v) in &t.per {
            if v[3] > 0 {
                println!("UNREJECTED {op:28} {cell:14} mutations={} rejected={} unrejected={}", v[0], v[1], v[3]);
            }
        }
    }
    // vacuity: a transition constraint that no enumerated deviation ever makes non-zero is either never
    // exercised by the family or can never fire at all (e.g. gated by a product of flags that is zero on
    // every row, the shape of F-C04-h); on the unchanged tree every constraint fires
    let never_fired: Vec<usize> = t.fired.iter().enumerate().filter(|(_, n)| **n == 0).map(|(k, _)| k).collect();
    if replay.is_none() && !dump {
        for k in &never_fired {
            ctx.fail(
                json!({"kind": "transition_constraint_never_fires", "constraint": k}),
                format!("main transition constraint #{k} evaluated to zero on every one of the {} mutated frames of the whole family", t.frames + t.operand_frames),
                json!({"kind": "never_fires", "constraint": k}),
            );
        }
    }
    let mut least_fired: Vec<(usize, u64)> = t.fired.iter().cloned().enumerate().collect();
    least_fired.sort_by_key(|x| x.1);
    least_fired.truncate(12);
    let pairs_rejected = t.per.values().filter(|v| v[1] > 0).count();
    let pairs_free_only = t.per.values().filter(|v| v[1] == 0 && v[2] > 0).count();
    let table: BTreeMap<String, Value> = t.per.iter().map(|((op, cell), v)| (format!("{op} {cell}"), json!({"mutations": v[0], "rejected": v[1], "spec_free": v[2], "violations": v[3]}))).collect();
    ctx.sample(json!({"program": fam[0].src, "row": 3, "cell": "s0'", "deltas": ["+1", "-1", "*2", ":=0", ":=1", "+2^16", "+2^32", ":=neighbour"]}));
    let cov = json!({
        "evaluations": t.frames,
        "distinct_nontrivial": pairs_rejected,
        "rule": "evaluation = one mutated frame; distinct non-trivial = (operation or chiplet region, cell) pairs for which at least one mutation was rejected by a transition constraint",
        "programs": fam.len(),
        "row_pairs": t.rows,
        "mutated_frames": t.frames,
        "(op, cell) pairs": t.per.len(),
        "(op, cell) pairs with a rejected mutation": pairs_rejected,
        "(op, cell) pairs only ever spec_free": pairs_free_only,
        "per (op, cell)": table,
        "operand-altering frames (liveness tally only)": t.operand_frames,
        "third fault model (u32 results, limbs and b_range' forged consistently): frames": t.u32_forged,
        "third fault model: main transition constraints that rejected the forged frames, per class (a class aimed at one rule should be rejected by that rule alone)": t.u32_rejected_by.iter().map(|(k, v)| (k.clone(), v.iter().cloned().collect::<Vec<_>>())).collect::<BTreeMap<_, _>>(),
        "third fault model: frames on which the b_range constraint stayed zero (expected: all, the LogUp update is an identity in the limbs)": t.u32_forged_aux_zero,
        "main transition constraints": t.fired.len(),
        "main transition constraints that fired on at least one mutated frame": t.fired.iter().filter(|n| **n > 0).count(),
        "main transition constraints that never fired": never_fired,
        "least often fired constraints (index, frames)": least_fired,
        "exhaustive": true,
        "bounds": "every row pair i < n-2 of every trace of the family x candidate cells x 8 deltas, one cell at a time (deviation bound 1); plus two models of consistent multi-cell deviations: hash-cycle starts with recomputed rounds, and u32 results with 16-bit limbs and b_range' forged consistently (boundary members of every solution interval)",
    });
    ctx.finish("fault_enumeration", cov, &[
        "a mutation the AIR accepts is only a violation if docs/src/design does not leave that cell free for that operation (function spec_free cites the reason per case)",
        "single-cell deviations, plus the two stated families of consistent multi-cell deviations; I/O, crypto and FRI operations and the decoder columns are in scope only for their documented stack-shift effect",
    ])
}
