//! C07 — contexts isolate memory and stack; memory is zero-initialised word RAM.
//!
//! Explicit-state search. An *action* is one memory / locals / stack-depth instruction group, or
//! entering / leaving a procedure frame (exec, call, syscall, dyncall, dynexec; with 0/1/4 locals).
//! A history of actions is turned into one program (open frames are closed at the end), assembled and
//! executed on the real VM, and interpreted by `refvm` in lock-step; the reference records a snapshot
//! of its complete state right after the last action (inside whatever frames are open), which is
//! the canonical state used for de-duplication. Every load folds the value read into an
//! accumulator kept on top of the stack, so a wrong read anywhere changes the final stack.
//!
//! Observed on the real VM: final stack (all elements), error variant, the memory of every context
//! that existed, fmp and ctx after the run.

use crate::common::*;
use crate::refglue::{self, Verdict};
use mcx::bfs::{self, Model};
use mcx::{json, Ctx, Value};
use processor::{ContextId, ExecutionOptions, Process};
use refvm::ast::{op, ops, Node, Proc, Prog};
use refvm::interp::{Stop, Vm, Word};
use std::collections::BTreeMap;
use std::sync::Mutex;

const K: u64 = 1_000_003;
const ADDRS: [u64; 5] = [0, 1, 1 << 29, (1 << 32) - 2, (1 << 32) - 1];
const BAD_ADDRS: [u64; 2] = [1 << 32, P - 1];

#[derive(Clone, Copy, Debug, PartialEq, Eq, Hash)]
enum FrameKind {
    Exec,
    Call,
    Syscall,
    DynCall,
    DynExec,
}

#[derive(Clone, Debug, PartialEq, Eq, Hash)]
enum Act {
    Store { addr: u64, imm: bool },
    StoreW { addr: u64, imm: bool },
    Load { addr: u64, imm: bool },
    LoadW { addr: u64, imm: bool },
    Stream(u64),
    Pipe(u64),
    LocStore(u16),
    LocLoad(u16),
    LocStoreW(u16),
    LocLoadW(u16),
    Enter(FrameKind, u16),
    Leave,
    PushExtra,
    DropExtra,
    SDepth,
    Caller,
}

fn fold1() -> String {
    format!("swap push.{K} mul add")
}
fn fold4() -> String {
    format!("movup.4 push.{K} mul add push.{K} mul add push.{K} mul add push.{K} mul add")
}

/// instruction text of a non-frame action at history position `pos` (acc on top before and after)
fn act_text(a: &Act, pos: usize) -> String {
    let v = 100 * (pos as u64 + 1);
    let word = format!("{}.{}.{}.{}", v + 1, v + 2, v + 3, v + 4);
    match a {
        Act::Store { addr, imm: false } => format!("push.{} push.{addr} mem_store", v + 9),
        Act::Store { addr, imm: true } => format!("push.{} mem_store.{addr}", v + 9),
        Act::StoreW { addr, imm: false } => format!("push.{word} push.{addr} mem_storew dropw"),
        Act::StoreW { addr, imm: true } => format!("push.{word} mem_storew.{addr} dropw"),
        Act::Load { addr, imm: false } => format!("push.{addr} mem_load {}", fold1()),
        Act::Load { addr, imm: true } => format!("mem_load.{addr} {}", fold1()),
        Act::LoadW { addr, imm: false } => format!("padw push.{addr} mem_loadw {}", fold4()),
        Act::LoadW { addr, imm: true } => format!("padw mem_loadw.{addr} {}", fold4()),
        Act::Stream(addr) => {
            let f8 = (0..8).map(|_| format!("push.{K} mul add")).collect::<Vec<_>>().join(" ");
            format!("push.{addr} padw padw padw mem_stream movup.13 {f8} movdn.5 dropw {}", fold1())
        }
        Act::Pipe(addr) => {
            let f8 = (0..8).map(|_| format!("push.{K} mul add")).collect::<Vec<_>>().join(" ");
            format!("push.{addr} padw padw padw adv_pipe movup.13 {f8} movdn.5 dropw {}", fold1())
        }
        Act::LocStore(i) => format!("push.{} loc_store.{i}", v + 9),
        Act::LocLoad(i) => format!("loc_load.{i} {}", fold1()),
        Act::LocStoreW(i) => format!("push.{word} loc_storew.{i} dropw"),
        Act::LocLoadW(i) => format!("padw loc_loadw.{i} {}", fold4()),
        Act::PushExtra => format!("push.{} swap", v + 7),
        Act::DropExtra => "swap drop".to_string(),
        Act::SDepth => format!("sdepth {}", fold1()),
        Act::Caller => format!("padw caller {}", fold4()),
        Act::Enter(..) | Act::Leave => unreachable!(),
    }
}

struct Open {
    kind: Option<FrameKind>,
    locals: u16,
    body: Vec<Node>,
}

struct Built {
    prog: Prog,
    advice: Vec<u64>,
}

fn build(history: &[Act]) -> Built {
    let mut procs: Vec<Proc> = vec![];
    let mut kernel: Vec<Proc> = vec![];
    let mut advice = vec![];
    let mut open: Vec<Open> = vec![Open { kind: None, locals: 0, body: vec![] }];
    let close = |open: &mut Vec<Open>, procs: &mut Vec<Proc>, kernel: &mut Vec<Proc>| {
        let o = open.pop().unwrap();
        let kind = o.kind.unwrap();
        let mut body = o.body;
        if matches!(kind, FrameKind::DynCall | FrameKind::DynExec) {
            // the MAST root stays on the stack: bring the accumulator back below it before returning
            body.push(op("movdn.4"));
        }
        let parent = open.last_mut().unwrap();
        match kind {
            FrameKind::Syscall => {
                let name = format!("k{}", kernel.len());
                // a kernel cannot hold two procedures with the same MAST root: a body that repeats an earlier
                // kernel procedure gets a distinct no-op in front
                if kernel.iter().any(|k: &Proc| k.locals == o.locals && format!("{:?}", k.body) == format!("{body:?}")) {
                    let mut b = ops(&format!("push.{} drop", 1000 + kernel.len()));
                    b.extend(body);
                    body = b;
                }
                kernel.push(Proc { name: name.clone(), locals: o.locals, body });
                parent.body.push(Node::Syscall(name));
            }
            _ => {
                let name = format!("p{}", procs.len());
                procs.push(Proc { name: name.clone(), locals: o.locals, body });
                match kind {
                    FrameKind::Exec => parent.body.push(Node::Exec(name)),
                    FrameKind::Call => parent.body.push(Node::Call(name)),
                    FrameKind::DynCall => {
                        parent.body.push(Node::ProcRef(name));
                        parent.body.push(Node::DynCall);
                        parent.body.push(op("dropw"));
                    }
                    FrameKind::DynExec => {
                        parent.body.push(Node::ProcRef(name));
                        parent.body.push(Node::DynExec);
                        parent.body.push(op("dropw"));
                    }
                    FrameKind::Syscall => unreachable!(),
                }
            }
        }
    };
    for (pos, a) in history.iter().enumerate() {
        match a {
            Act::Enter(kind, locals) => {
                let mut body = vec![];
                if matches!(kind, FrameKind::DynCall | FrameKind::DynExec) {
                    body.push(op("movup.4"));
                }
                open.push(Open { kind: Some(*kind), locals: *locals, body });
            }
            Act::Leave => close(&mut open, &mut procs, &mut kernel),
            other => {
                if let Act::Pipe(_) = other {
                    advice.extend((1..=8).map(|i| 100 * (pos as u64 + 1) + 50 + i));
                }
                open.last_mut().unwrap().body.extend(ops(&act_text(other, pos)));
            }
        }
    }
    open.last_mut().unwrap().body.push(op("@snap"));
    while open.len() > 1 {
        close(&mut open, &mut procs, &mut kernel);
    }
    let body = open.pop().unwrap().body;
    Built { prog: Prog { procs, kernel, body, uses: vec![], lib_procs: vec![] }, advice }
}

fn frames_of(history: &[Act]) -> Vec<(FrameKind, u16)> {
    let mut f = vec![];
    for a in history {
        match a {
            Act::Enter(k, l) => f.push((*k, *l)),
            Act::Leave => {
                f.pop();
            }
            _ => {}
        }
    }
    f
}

// ------------------------------------------------------------------------------------------------
// real VM
// ------------------------------------------------------------------------------------------------

struct RealObs {
    outcome: Outcome,
    /// memory per context in creation order (zero words dropped)
    mems: Vec<Vec<(u64, Word)>>,
    fmp: u64,
    ctx: u32,
}

fn assemble(prog: &Prog) -> Result<(processor::Program, assembly::Assembler), String> {
    let asm = match prog.kernel_source() {
        Some(k) => match mcx::guard::catch(|| assembly::Assembler::default().with_kernel(&k)) {
            Ok(Ok(a)) => a,
            Ok(Err(e)) => return Err(format!("kernel: {e}")),
            Err(p) => return Err(format!("PANIC {p}")),
        },
        None => assembly::Assembler::default(),
    };
    match mcx::guard::catch(|| asm.compile(prog.to_source())) {
        Ok(Ok(p)) => Ok((p, asm)),
        Ok(Err(e)) => Err(format!("{e}")),
        Err(p) => Err(format!("PANIC {p}")),
    }
}

fn run_real(program: &processor::Program, init: &[u64], advice: &[u64]) -> RealObs {
    let r = mcx::guard::catch(|| {
        let mut p = Process::new(program.kernel().clone(), stack_inputs(init), host(advice), ExecutionOptions::default());
        let res = p.execute(program);
        let clk = p.system.clk();
        let mut ctxs: Vec<ContextId> = vec![];
        for c in 0..=clk {
            let id = p.system.get_ctx_at(c);
            if !ctxs.contains(&id) {
                ctxs.push(id);
            }
        }
        let mems = ctxs
            .iter()
            .map(|c| {
                p.chiplets
                    .get_mem_state_at(*c, clk + 1)
                    .into_iter()
                    .map(|(a, w)| (a, [w[0].as_int(), w[1].as_int(), w[2].as_int(), w[3].as_int()]))
                    // procedure locals are abstract in the reference: the two regions reserved for
                    // them (execution_contexts.md, memory layout) are not compared as raw memory
                    .filter(|(a, _)| !((1 << 30..(1 << 30) + 65536).contains(a) || (1 << 31..(1 << 31) + 65536).contains(a)))
                    .filter(|(_, w)| *w != [0; 4])
                    .collect()
            })
            .collect();
        let outcome = match res {
            Ok(o) => Outcome::Ok(o.stack().to_vec()),
            Err(e) => Outcome::Err(format!("{e:?}")),
        };
        RealObs { outcome, mems, fmp: p.system.fmp().as_int(), ctx: p.system.ctx().into() }
    });
    match r {
        Ok(o) => o,
        Err(p) => RealObs { outcome: Outcome::Panic(p), mems: vec![], fmp: 0, ctx: 0 },
    }
}
use vm_core::StarkField;

/// MAST roots of the program's procedures, obtained from the real assembler (hashing is C08's
/// subject): `procref.<name>` leaves the root on the stack
fn proc_hashes(prog: &Prog) -> BTreeMap<String, Word> {
    let mut out = BTreeMap::new();
    for p in &prog.procs {
        let mut probe = prog.clone();
        probe.body = vec![Node::ProcRef(p.name.clone())];
        let (program, _) = assemble(&probe).expect("SUBJECT: probe program must assemble");
        match run_program(&program, &[], &[]) {
            Outcome::Ok(s) => {
                out.insert(p.name.clone(), [s[3], s[2], s[1], s[0]]);
            }
            o => panic!("SUBJECT: probe program failed: {}", o.brief()),
        }
    }
    out
}

// ------------------------------------------------------------------------------------------------
// the model
// ------------------------------------------------------------------------------------------------

#[derive(Clone)]
struct St {
    init: usize,
    history: Vec<Act>,
    canon: String,
}

struct M<'a> {
    ctx: &'a Ctx,
    inits: Vec<Vec<u64>>,
    alphabet: Vec<Act>,
    max_nesting: usize,
    classes: Mutex<BTreeMap<String, u64>>,
    contexts: Mutex<u64>,
}

thread_local! {
    static FAILED_HERE: std::cell::Cell<bool> = const { std::cell::Cell::new(false) };
}

fn sig_act(a: &Act) -> String {
    format!("{a:?}").split(|c| c == ' ' || c == '(' || c == '{').next().unwrap().to_string()
}

/// address operand of an action (part of failure signatures), "-" if it has none
fn sig_addr(a: Option<&Act>) -> String {
    match a {
        Some(Act::Store { addr, .. } | Act::StoreW { addr, .. } | Act::Load { addr, .. } | Act::LoadW { addr, .. }) => addr.to_string(),
        Some(Act::Stream(addr) | Act::Pipe(addr)) => addr.to_string(),
        _ => "-".into(),
    }
}

impl<'a> M<'a> {
    /// runs history on both sides, reports disagreements, returns the reference snapshot if the run
    /// can be continued
    fn fail(&self, sig: Value, summary: String, case: Value) {
        FAILED_HERE.with(|f| f.set(true));
        self.ctx.fail(sig, summary, case);
    }

    fn eval(&self, init: &[u64], history: &[Act], report: bool) -> Option<String> {
        FAILED_HERE.with(|f| f.set(false));
        let snap = self.eval_inner(init, history, report);
        // the futures of a state reached through a violating transition are noise: do not expand it
        if FAILED_HERE.with(|f| f.get()) {
            return None;
        }
        snap
    }

    fn eval_inner(&self, init: &[u64], history: &[Act], report: bool) -> Option<String> {
        let built = build(history);
        let last = history.last().map(sig_act).unwrap_or_else(|| "init".into());
        let frames: Vec<String> = frames_of(history).iter().map(|(k, _)| format!("{k:?}")).collect();
        // the memory instruction (with its address) nearest to the end of the history: what a wrong
        // outcome is attributed to in the signature
        let last_mem = history.iter().rev().find(|a| sig_addr(Some(a)) != "-");
        let (mem_act, mem_addr) = (last_mem.map(sig_act).unwrap_or_else(|| "-".into()), sig_addr(last_mem));
        // which kind of frame created the context the run is in after the last action
        let ctx_origin = frames_of(history)
            .iter()
            .rev()
            .find(|(k, _)| matches!(k, FrameKind::Call | FrameKind::DynCall))
            .map(|(k, _)| format!("{k:?}"))
            .unwrap_or_else(|| "root".into());
        let case = || json!({"init": init, "history": format!("{history:?}"), "src": built.prog.to_source(), "kernel": built.prog.kernel_source(), "advice": built.advice});
        let (program, _) = match assemble(&built.prog) {
            Ok(x) => x,
            Err(e) => panic!("SUBJECT: history program must assemble: {e}\n{}\n{:?}", built.prog.to_source(), built.prog.kernel_source()),
        };
        let needs_hashes = history.iter().any(|a| matches!(a, Act::Caller | Act::Enter(FrameKind::DynCall | FrameKind::DynExec, _)));
        let mut hashes = if needs_hashes { proc_hashes(&built.prog) } else { BTreeMap::new() };
        if !needs_hashes {
            // unique stand-ins: roots are only moved around and dropped in these programs
            for (i, p) in built.prog.procs.iter().enumerate() {
                hashes.insert(p.name.clone(), [900_001 + i as u64, 900_101, 900_201, 900_301]);
            }
        }
        let mut vm = Vm::new(&built.prog, init, &built.advice, hashes);
        let r = vm.run();
        let real = run_real(&program, init, &built.advice);
        {
            let mut c = self.classes.lock().unwrap();
            *c.entry(format!("{}:{}", refglue::ref_class(&r), real.outcome.kind())).or_insert(0) += 1;
        }
        if report {
            if let Outcome::Panic(p) = &real.outcome {
                self.fail(
                    json!({"kind": "panic", "last_action": last, "panic": mcx::guard::short_panic(p)}),
                    format!("history {history:?} from depth {}", init.len()),
                    case(),
                );
                return None;
            }
            match refglue::compare(&real.outcome, &r, &vm.stack, !vm.depth_uncertain) {
                Verdict::Mismatch(m) => {
                    self.fail(
                        json!({"kind": "outcome_mismatch", "last_action": last, "last_mem_action": mem_act, "last_mem_addr": mem_addr, "ctx_origin": ctx_origin, "ref": refglue::ref_class(&r), "real": real.outcome.kind()}),
                        format!("{m} :: frames {frames:?} history {history:?} init depth {}", init.len()),
                        case(),
                    );
                }
                Verdict::Agree if r.is_ok() => {
                    // memories of every context, in creation order
                    let ref_mems: Vec<Vec<(u64, Word)>> =
                        vm.mem.iter().map(|m| m.iter().filter(|(_, w)| **w != [0; 4]).map(|(a, w)| (*a, *w)).collect()).collect();
                    // a context that never touched memory does not show up on either side in a
                    // comparable way: compare root exactly, the others as a sequence of non-empty memories
                    let ne = |v: &Vec<Vec<(u64, Word)>>| -> Vec<Vec<(u64, Word)>> { v.iter().skip(1).filter(|m| !m.is_empty()).cloned().collect() };
                    if real.mems.first() != ref_mems.first() || ne(&real.mems) != ne(&ref_mems) {
                        self.fail(
                            json!({"kind": "memory_mismatch", "last_action": last, "last_mem_action": mem_act, "last_mem_addr": mem_addr}),
                            format!("memories differ: real {:?} reference {:?} :: history {history:?}", real.mems, ref_mems),
                            case(),
                        );
                    }
                    if real.fmp != 1 << 30 || real.ctx != 0 {
                        self.fail(
                            json!({"kind": "fmp_or_ctx_not_restored", "innermost_frame": frames.last()}),
                            format!("after the run fmp={} ctx={} :: history {history:?}", real.fmp, real.ctx),
                            case(),
                        );
                    }
                    *self.contexts.lock().unwrap() += vm.contexts_created as u64;
                }
                _ => {}
            }
        }
        if r.is_ok() {
            vm.snapshot.clone()
        } else {
            // the run may have failed only while closing the open frames (e.g. depth on return):
            // the state right after the last action is still a state to continue from
            match (&r, &vm.snapshot) {
                (Err(Stop::Fail(_)), Some(s)) => Some(s.clone()),
                _ => None,
            }
        }
    }
}

impl<'a> Model for M<'a> {
    type State = St;
    type Action = Act;
    fn init(&self) -> Vec<St> {
        (0..self.inits.len())
            .map(|i| St { init: i, history: vec![], canon: self.eval(&self.inits[i], &[], false).expect("initial state") })
            .collect()
    }
    fn actions(&self, s: &St) -> Vec<Act> {
        let frames = frames_of(&s.history);
        let cur = frames.last().cloned();
        let in_sys = frames.iter().any(|f| f.0 == FrameKind::Syscall);
        self.alphabet
            .iter()
            .filter(|a| match a {
                Act::Leave => cur.is_some(),
                Act::Enter(k, _) => {
                    frames.len() < self.max_nesting
                        && !in_sys
                        // dynexec/exec of a procedure from inside a dyn frame keeps the root below acc: fine
                        && !(matches!(k, FrameKind::Syscall) && frames.is_empty() && false)
                }
                Act::Caller => in_sys,
                Act::LocStore(i) | Act::LocLoad(i) | Act::LocStoreW(i) | Act::LocLoadW(i) => cur.map(|c| *i < c.1).unwrap_or(false),
                _ => true,
            })
            .cloned()
            .collect()
    }
    fn step(&self, s: &St, a: &Act) -> Option<St> {
        let mut h = s.history.clone();
        h.push(a.clone());
        let canon = self.eval(&self.inits[s.init], &h, true)?;
        Some(St { init: s.init, history: h, canon })
    }
    fn canon(&self, s: &St) -> Vec<u8> {
        s.canon.as_bytes().to_vec()
    }
}

fn alphabet(full: bool) -> Vec<Act> {
    let mut v = vec![];
    let addrs: Vec<u64> = if full { ADDRS.to_vec() } else { vec![0, 1, (1 << 32) - 1] };
    for &addr in &addrs {
        for imm in [false, true] {
            if !full && imm && addr != 0 {
                continue;
            }
            v.push(Act::Store { addr, imm });
            v.push(Act::StoreW { addr, imm });
            v.push(Act::Load { addr, imm });
            v.push(Act::LoadW { addr, imm });
        }
        v.push(Act::Stream(addr));
        v.push(Act::Pipe(addr));
    }
    for &addr in &BAD_ADDRS[..if full { 2 } else { 1 }] {
        v.push(Act::Store { addr, imm: false });
        v.push(Act::Load { addr, imm: false });
        if full {
            v.push(Act::StoreW { addr, imm: false });
            v.push(Act::LoadW { addr, imm: false });
            v.push(Act::Stream(addr));
            v.push(Act::Pipe(addr));
        }
    }
    for i in if full { vec![0u16, 3] } else { vec![0u16] } {
        v.push(Act::LocStore(i));
        v.push(Act::LocLoad(i));
        v.push(Act::LocStoreW(i));
        v.push(Act::LocLoadW(i));
    }
    for (k, ls) in [
        (FrameKind::Exec, vec![0u16, 1, 4]),
        (FrameKind::Call, vec![0, 1]),
        (FrameKind::Syscall, vec![0, 1]),
        (FrameKind::DynCall, vec![0]),
        (FrameKind::DynExec, vec![1]),
    ] {
        for l in ls {
            if !full && l == 4 {
                continue;
            }
            v.push(Act::Enter(k, l));
        }
    }
    v.push(Act::Leave);
    v.push(Act::PushExtra);
    v.push(Act::DropExtra);
    v.push(Act::SDepth);
    v.push(Act::Caller);
    v
}

/// frames only: every way of entering and leaving contexts, `caller`, and one store / load - searched deeper than
/// the two alphabets above (what `caller` returns and which memory is seen depends on the whole chain of frames
/// that were entered AND LEFT before, e.g. call -> dynexec -> leave -> syscall -> caller)
fn alphabet_frames() -> Vec<Act> {
    vec![
        Act::Enter(FrameKind::Exec, 1),
        Act::Enter(FrameKind::Call, 0),
        Act::Enter(FrameKind::Syscall, 1),
        Act::Enter(FrameKind::DynCall, 0),
        Act::Enter(FrameKind::DynExec, 1),
        Act::Leave,
        Act::Caller,
        Act::Store { addr: 0, imm: false },
        Act::Load { addr: 0, imm: false },
    ]
}

fn inits() -> Vec<Vec<u64>> {
    [16usize, 17, 20, 33].iter().map(|d| (0..*d).map(|i| 5 + i as u64).collect()).collect()
}

/// local addresses of simultaneously live frames never alias; syscall locals live in their own region.
/// `locaddr.i swap.(k+1) drop` writes the address of local i into stack position k (net depth 0).
fn locaddr_family(ctx: &Ctx) -> u64 {
    let set = |i: usize, k: usize| format!("locaddr.{i} swap.{} drop", k + 1);
    let kernel = format!("export.k.2 {} {} end", set(0, 3), set(1, 4));
    let cases = [
        (format!("proc.a.2 {} {} end proc.b.3 {} {} {} exec.a end begin exec.b end", set(0, 3), set(1, 4), set(0, 0), set(1, 1), set(2, 2)), false),
        (format!("proc.a.1 {} syscall.k end proc.b.2 {} {} call.a end begin exec.b end", set(0, 2), set(0, 0), set(1, 1)), true),
        (format!("proc.a.1 {} end proc.b.1 {} exec.a exec.a end begin exec.a exec.b end", set(0, 1), set(0, 0)), false),
    ];
    let mut n = 0;
    for (src, with_kernel) in cases {
        let asm = if with_kernel { assembly::Assembler::default().with_kernel(&kernel).unwrap() } else { assembly::Assembler::default() };
        let out = run_source(&asm, &src, &[], &[]);
        n += 1;
        let case = json!({"locaddr_src": src});
        match out {
            Outcome::Ok(s) => {
                let a: Vec<u64> = s[..5].to_vec();
                let distinct = |v: &[u64]| v.iter().collect::<std::collections::BTreeSet<_>>().len() == v.len();
                let user = |x: u64| (1u64 << 30..1 << 31).contains(&x);
                let ok = match n {
                    // frames b (3 locals) and a (2 locals) are live together in one context
                    1 => distinct(&a) && a.iter().all(|x| user(*x)),
                    // b's two locals (root context) are live while k's two locals are allocated in the
                    // root context's syscall region; a's local lives in its own context
                    2 => distinct(&[a[0], a[1], a[3], a[4]]) && user(a[0]) && user(a[1]) && user(a[2]) && a[3] >= 1 << 31 && a[4] >= 1 << 31 && a[3] < 1 << 32 && a[4] < 1 << 32,
                    // b's local and a's local while both live
                    _ => a[0] != a[1] && user(a[0]) && user(a[1]),
                };
                if !ok {
                    ctx.fail(json!({"kind": "locals_alias_or_out_of_region", "program": n}), format!("{src}: local addresses {a:?}"), case);
                }
            }
            o => ctx.fail(json!({"kind": "locaddr_program_failed"}), format!("{src}: {}", o.brief()), case),
        }
    }
    // the frame of a procedure ends at its declared number of locals: an index equal to (or above) that
    // number would address the frame of the procedure it invokes next, so it must not assemble
    // (memory_operations.md: "i < number of locals"; the assembler checks the index)
    for locals in [1usize, 2, 4] {
        for instr in ["loc_load", "loc_store", "loc_loadw", "loc_storew", "locaddr"] {
            for idx in [locals, locals + 1] {
                let body = match instr {
                    "loc_load" | "locaddr" => format!("{instr}.{idx} drop"),
                    "loc_store" => format!("push.42 {instr}.{idx}"),
                    "loc_loadw" => format!("padw {instr}.{idx} dropw"),
                    _ => format!("push.1.2.3.4 {instr}.{idx} dropw"),
                };
                let src = format!("proc.inner.1 push.7 loc_store.0 loc_load.0 drop end proc.outer.{locals} {body} exec.inner end begin exec.outer end");
                let out = run_source(&assembly::Assembler::default(), &src, &[], &[]);
                n += 1;
                if !matches!(out, Outcome::AsmErr(_)) {
                    ctx.fail(
                        json!({"kind": "local_index_beyond_the_frame_accepted", "instr": instr}),
                        format!("{src}: {}", out.brief()),
                        json!({"locaddr_src": src}),
                    );
                }
            }
        }
    }
    n
}


/// Every other instruction that reads memory through a pointer on the stack (not part of the action alphabet of
/// the search): `rcomb_base` reads the word at s13 (z_ptr) and the word at s14 (a_ptr). "Addresses of 2^32 or
/// more fail": all pairs of pointers over an address alphabet, in the root context and inside a call; with both
/// pointers in range the instruction must read what was stored there (compared with the same program run on
/// the pointers shifted to another in-range word holding the same data).
fn pointer_instructions_family(ctx: &Ctx) -> u64 {
    const A: [u64; 8] = [0, 1, (1 << 32) - 1, 1 << 32, (1 << 32) + 1, (1 << 33) + 5, (1 << 63) + 1, P - 1];
    let mut n = 0;
    for (frame, src) in [("root", "begin rcomb_base end".to_string()), ("call", "proc.f rcomb_base end begin call.f end".to_string())] {
        let asm = assembly::Assembler::default();
        let program = asm.compile(&src).expect("SUBJECT: rcomb_base program must assemble");
        for z in A {
            for a in A {
                let mut init: Vec<u64> = (1..=16).collect();
                init[13] = z;
                init[14] = a;
                let o = run_real(&program, &init, &[]);
                n += 1;
                let bad = z > u32::MAX as u64 || a > u32::MAX as u64;
                let case = json!({"pointer_src": src, "init": init});
                match (&o.outcome, bad) {
                    (Outcome::Err(_), true) | (Outcome::Ok(_), false) => {}
                    (Outcome::Ok(_), true) => ctx.fail(
                        json!({"kind": "address_out_of_range_accepted", "instr": "rcomb_base", "frame": frame}),
                        format!("{src} with z_ptr = {z}, a_ptr = {a}: succeeds although a pointer is >= 2^32"),
                        case,
                    ),
                    (other, _) => ctx.fail(json!({"kind": "pointer_instruction_unexpected_outcome", "instr": "rcomb_base", "frame": frame}), format!("{src} with z_ptr = {z}, a_ptr = {a}: {}", other.brief()), case),
                }
            }
        }
    }
    n
}

pub fn run(ctx: &Ctx, replay: Option<&Value>) -> i32 {
    if let Some(case) = replay {
        return replay_case(ctx, case);
    }
    let mut total = bfs::Stats::default();
    let mut classes: BTreeMap<String, u64> = BTreeMap::new();
    let mut contexts = 0u64;
    let mut runs = vec![];
    // two searches: the full alphabet to a smaller depth, a reduced alphabet one level deeper
    // three searches: the full alphabet to a smaller depth, a reduced alphabet one level deeper, frames only deeper still
    let plans = match ctx.tier {
        mcx::Tier::Quick => vec![(Some(true), 2usize), (Some(false), 3), (None, 5)],
        mcx::Tier::Thorough => vec![(Some(true), 3), (Some(false), 4), (None, 6)],
    };
    for (which, depth) in plans {
        let full = which == Some(true);
        let m = M {
            ctx,
            inits: if which.is_none() { inits().into_iter().take(2).collect() } else { inits() },
            alphabet: match which {
                Some(f) => alphabet(f),
                None => alphabet_frames(),
            },
            max_nesting: 3,
            classes: Mutex::new(BTreeMap::new()),
            contexts: Mutex::new(0),
        };
        // wall-clock cap = safety net only (a hit is reported as cap_hit / exhaustive = false)
        let st = bfs::bfs(&m, depth, ctx.tier.pick(600.0, 3600.0), 4_000_000);
        total.states += st.states;
        total.transitions += st.transitions;
        total.duplicates += st.duplicates;
        total.terminal += st.terminal;
        for (k, v) in m.classes.into_inner().unwrap() {
            *classes.entry(k).or_insert(0) += v;
        }
        contexts += m.contexts.into_inner().unwrap();
        runs.push(json!({"alphabet_size": m.alphabet.len(), "full_alphabet": full, "frames_only_alphabet": which.is_none(), "depth_completed": st.depth_completed, "states": st.states,
            "transitions": st.transitions, "duplicates": st.duplicates, "frontier_sizes": st.frontier_sizes, "cap_hit": st.cap_hit}));
    }
    let la = locaddr_family(ctx);
    let pi = pointer_instructions_family(ctx);
    ctx.sample(json!({"history": "[Enter(Call,1), Store{addr:0,imm:false}, Leave, Load{addr:0,imm:true}]", "program": build(&[Act::Enter(FrameKind::Call, 1), Act::Store { addr: 0, imm: false }, Act::Leave, Act::Load { addr: 0, imm: true }]).prog.to_source()}));
    ctx.sample(json!({"history": "[Enter(Exec,1), LocStore(0), Enter(Syscall,1), LocLoad(0)]", "program": build(&[Act::Enter(FrameKind::Exec, 1), Act::LocStore(0), Act::Enter(FrameKind::Syscall, 1), Act::LocStore(0), Act::Leave, Act::LocLoad(0)]).prog.to_source()}));
    let cap = runs.iter().any(|r| !r["cap_hit"].is_null());
    let cov = json!({
        "states": total.states,
        "transitions": total.transitions,
        "traces_validated_against_impl": total.transitions,
        "searches": runs,
        "duplicates": total.duplicates,
        "terminal_transitions(error states)": total.terminal,
        "outcome_classes(ref:real)": classes,
        "contexts_created_in_compared_runs": contexts,
        "initial_depths": [16, 17, 20, 33],
        "addresses": ADDRS, "failing_addresses": BAD_ADDRS,
        "locaddr_programs": la,
        "pointer_instruction_runs (rcomb_base, 8 x 8 pointer pairs, root context and inside a call)": pi,
        "exhaustive": !cap,
        "bounds": "all action histories to the stated depth over the stated alphabets, frame nesting <= 3, 4 initial stacks; state = reference snapshot after the last action",
    });
    ctx.finish("model_checking", cov, &[
        "reference = refvm with per-context memory and abstract (never aliasing) per-frame locals; written from execution_contexts.md / io_operations.md",
        "absolute addresses inside the regions reserved for locals are not used (documented as not advisable)",
        "MAST roots used by caller/dyn* come from the real assembler (hashing is C08's subject)",
    ])
}

fn replay_case(ctx: &Ctx, case: &Value) -> i32 {
    if let Some(src) = case["locaddr_src"].as_str() {
        println!("locaddr program: {src}");
        locaddr_family(ctx);
        return ctx.finish("model_checking", json!({}), &[]);
    }
    if let Some(src) = case["pointer_src"].as_str() {
        println!("program: {src}\ninit stack (top first): {}", case["init"]);
        pointer_instructions_family(ctx);
        return ctx.finish("model_checking", json!({}), &[]);
    }
    let src = case["src"].as_str().unwrap();
    let init: Vec<u64> = case["init"].as_array().unwrap().iter().map(|x| x.as_u64().unwrap()).collect();
    let advice: Vec<u64> = case["advice"].as_array().unwrap().iter().map(|x| x.as_u64().unwrap()).collect();
    let asm = match case["kernel"].as_str() {
        Some(k) => assembly::Assembler::default().with_kernel(k).unwrap(),
        None => assembly::Assembler::default(),
    };
    println!("history: {}\nprogram:\n{src}\nkernel: {:?}\ninit stack (top first): {init:?}\nadvice: {advice:?}", case["history"], case["kernel"].as_str());
    match asm.compile(src) {
        Err(e) => println!("assembly error: {e}"),
        Ok(p) => {
            let o = run_real(&p, &init, &advice);
            println!("real outcome: {}\nreal memories (per context, creation order): {:?}\nfmp={} ctx={}", o.outcome.brief(), o.mems, o.fmp, o.ctx);
        }
    }
    println!("(the reference verdict is recomputed by the search: `./check C07 quick` reports the same history)");
    // re-evaluate through the model to re-report
    let hist_dbg = case["history"].as_str().unwrap_or("");
    let m = M { ctx, inits: vec![init.clone()], alphabet: alphabet(true), max_nesting: 3, classes: Mutex::new(BTreeMap::new()), contexts: Mutex::new(0) };
    // find the history by enumerating the alphabet (Debug text is the key)
    fn search(m: &M, cur: &mut Vec<Act>, target: &str, depth: usize) -> bool {
        if format!("{cur:?}") == target {
            return true;
        }
        if depth == 0 || !target.starts_with(format!("{cur:?}").trim_end_matches(']')) {
            return false;
        }
        for a in alphabet(true) {
            cur.push(a);
            if search(m, cur, target, depth - 1) {
                return true;
            }
            cur.pop();
        }
        false
    }
    let mut h = vec![];
    if search(&m, &mut h, hist_dbg, 5) {
        m.eval(&init, &h, true);
    }
    ctx.finish("model_checking", json!({}), &[])
}
