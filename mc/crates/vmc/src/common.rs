//! Helpers shared by all checks: assembling, executing, observation of results.

use assembly::Assembler;
use mcx::guard;
use processor::{
    AdviceInputs, DefaultHost, ExecutionError, ExecutionOptions, ExecutionTrace, MemAdviceProvider,
    Program, StackInputs,
};
use vm_core::{Felt, StarkField};

pub const P: u64 = 0xFFFF_FFFF_0000_0001;

pub fn assembler() -> Assembler {
    Assembler::default()
        .with_library(&stdlib::StdLibrary::default())
        .expect("SUBJECT: stdlib must load")
}

pub fn assembler_with_kernel(kernel: &str) -> Assembler {
    Assembler::default()
        .with_library(&stdlib::StdLibrary::default())
        .expect("SUBJECT: stdlib must load")
        .with_kernel(kernel)
        .expect("SUBJECT: kernel must assemble")
}

/// stack inputs given top-first (element 0 is the top of the stack)
pub fn stack_inputs(top_first: &[u64]) -> StackInputs {
    let mut v: Vec<Felt> = top_first.iter().map(|&x| Felt::new(x)).collect();
    v.reverse();
    StackInputs::new(v)
}

pub fn host(advice_stack: &[u64]) -> DefaultHost<MemAdviceProvider> {
    let adv = AdviceInputs::default().with_stack(advice_stack.iter().map(|&x| Felt::new(x)));
    DefaultHost::new(MemAdviceProvider::from(adv))
}

pub fn host_from(adv: AdviceInputs) -> DefaultHost<MemAdviceProvider> {
    DefaultHost::new(MemAdviceProvider::from(adv))
}

/// outcome of one run reduced to what oracles compare
#[derive(Clone, Debug, PartialEq, Eq)]
pub enum Outcome {
    /// full final stack, top first (at least 16 elements)
    Ok(Vec<u64>),
    /// execution error, Debug-formatted
    Err(String),
    /// assembly error, Display-formatted
    AsmErr(String),
    Panic(String),
}

impl Outcome {
    pub fn kind(&self) -> &'static str {
        match self {
            Outcome::Ok(_) => "ok",
            Outcome::Err(_) => "err",
            Outcome::AsmErr(_) => "asm_err",
            Outcome::Panic(_) => "panic",
        }
    }
    pub fn brief(&self) -> String {
        match self {
            Outcome::Ok(s) => format!("Ok{:?}", s),
            Outcome::Err(e) => format!("Err({})", e.chars().take(200).collect::<String>()),
            Outcome::AsmErr(e) => format!("AsmErr({})", e.chars().take(200).collect::<String>()),
            Outcome::Panic(e) => format!("Panic({})", guard::short_panic(e)),
        }
    }
}

pub fn exec_trace(
    program: &Program,
    stack_top_first: &[u64],
    advice: AdviceInputs,
    options: ExecutionOptions,
) -> Result<Result<ExecutionTrace, ExecutionError>, String> {
    let si = stack_inputs(stack_top_first);
    guard::catch(|| processor::execute(program, si, host_from(advice), options))
}

/// name of an ExecutionError variant (the part before `(` or `{` of its Debug form)
pub fn err_variant(e: &str) -> String {
    e.split(|c| c == '(' || c == '{' || c == ' ').next().unwrap_or("").to_string()
}

pub fn run_program(program: &Program, stack_top_first: &[u64], advice_stack: &[u64]) -> Outcome {
    let adv = AdviceInputs::default().with_stack(advice_stack.iter().map(|&x| Felt::new(x)));
    match exec_trace(program, stack_top_first, adv, ExecutionOptions::default()) {
        Err(p) => Outcome::Panic(p),
        Ok(Err(e)) => Outcome::Err(format!("{e:?}")),
        Ok(Ok(t)) => Outcome::Ok(t.stack_outputs().stack().to_vec()),
    }
}

pub fn run_source(asm: &Assembler, src: &str, stack_top_first: &[u64], advice_stack: &[u64]) -> Outcome {
    match guard::catch(|| asm.compile(src)) {
        Err(p) => Outcome::Panic(p),
        Ok(Err(e)) => Outcome::AsmErr(format!("{e}")),
        Ok(Ok(prog)) => run_program(&prog, stack_top_first, advice_stack),
    }
}

pub fn felts(v: &[u64]) -> Vec<Felt> {
    v.iter().map(|&x| Felt::new(x)).collect()
}

pub fn ints(v: &[Felt]) -> Vec<u64> {
    v.iter().map(|x| x.as_int()).collect()
}
