//! C19 — decoders of untrusted bytes never panic and accept only what they can re-encode.
//!
//! Space (fault enumeration, every element executed on the real decoders):
//!   (a) every byte string of length 0, 1, 2 for every decoder (length 3 for the small decoders in
//!       the thorough tier);
//!   (b) for every seed (a valid encoding produced by the real serialisers): the seed itself, every
//!       single-bit flip, every truncation length, every offset re-interpreted as a little-endian
//!       u8/u16/u32 field and set to {0, 1, v-1, v+1, max} (a superset of "every length field");
//!       for the big seeds (proofs, stdlib library) the bit / offset / length sets are the stated
//!       sub-sets (header and tail regions, bits 0 and 7 of every byte, structurally located length
//!       fields, stride); in the thorough tier also every pair of bit flips in the first 32 bytes;
//!   (c) nesting bombs: 1 … 2^17 nested `while` / `repeat` / `if` headers in a program body and in
//!       a module procedure body, terminated and unterminated;
//!   (d) `StackInputs::try_from_values`, `AdviceInputs::with_stack_values`, `StackOutputs::new`
//!       with one value of {p-1, p, p+1, 2^64-1} at every position of vectors of length 1,16,17,40.
//! Oracle: no panic (guard::catch), no abort / native stack overflow / hang (decoding runs in
//! crash-isolated child processes on a thread with an 8 MiB stack, watched by the parent);
//! `Ok(v)` ⇒ `encode(v)` does not panic, decodes again, the result equals `v` (PartialEq where
//! implemented, else byte equality of the re-encoding) and re-encodes to the same bytes; for proofs
//! additionally `verify` on the decoded proof with the honest statement does not panic.
//!
//! Process structure: the parent (this module with `VMC_C19_WORKER` unset) builds the seeds, cuts the
//! space into tasks and feeds them to `LANES` long-lived children (the same executable started with
//! `VMC_C19_WORKER=1`); a child publishes the index of the case it is working on in a shared
//! memory-mapped cell, so that a death can be attributed to one input, which is then re-run alone
//! in a fresh child to confirm that the death is deterministic.

use assembly::{
    ast::{AstSerdeOptions, ModuleAst, ProgramAst},
    Library, LibraryNamespace, LibraryPath, MaslLibrary, Module, ProcedureId, ProcedureName, Version,
};
use mcx::{guard, json, Ctx, Tier, Value};
use miden::{ExecutionProof, ProvingOptions};
use processor::AdviceInputs;
use std::collections::{BTreeMap, HashMap, HashSet, VecDeque};
use std::io::{BufRead, BufReader, BufWriter, Read, Write};
use std::path::{Path, PathBuf};
use std::process::{Child, ChildStdin, ChildStdout, Command, Stdio};
use std::sync::atomic::{AtomicBool, AtomicU64, Ordering};
use std::sync::{Arc, Mutex};
use std::time::{Duration, Instant};
use vm_core::utils::{Deserializable, DeserializationError, Serializable};
use vm_core::{Kernel, ProgramInfo, StackInputs, StackOutputs};

const WORKER_ENV: &str = "VMC_C19_WORKER";
const LANES: usize = 16;
/// stack of the thread on which a child runs the decoders (the default main-thread stack of a
/// Linux process; Rust's own default for spawned threads is smaller)
const DECODE_STACK: usize = 8 << 20;
const RSS_CAP_BYTES: u64 = 6 << 30;
const HANG_CPU_SECS: u64 = 60;
const HANG_WALL_SECS: u64 = 900;
const MAX_DEATHS: u64 = 120;
const MAX_LISTED_PER_SIGNATURE: u64 = 200;
const P: u64 = 0xFFFF_FFFF_0000_0001;

// DECODERS
// ================================================================================================

#[derive(Clone, Copy, PartialEq, Eq, Hash, Debug, PartialOrd, Ord)]
enum Dec {
    Proof,
    ProofSer,
    ProgramAst,
    ModuleAst,
    Masl,
    Kernel,
    ProgramInfo,
    StackInputs,
    StackOutputs,
    LibraryPath,
    ProcedureId,
    ProcedureName,
}

impl Dec {
    const ALL: [Dec; 12] = [
        Dec::Proof,
        Dec::ProofSer,
        Dec::ProgramAst,
        Dec::ModuleAst,
        Dec::Masl,
        Dec::Kernel,
        Dec::ProgramInfo,
        Dec::StackInputs,
        Dec::StackOutputs,
        Dec::LibraryPath,
        Dec::ProcedureId,
        Dec::ProcedureName,
    ];
    fn name(self) -> &'static str {
        match self {
            Dec::Proof => "ExecutionProof",
            Dec::ProofSer => "ExecutionProof(Deserializable)",
            Dec::ProgramAst => "ProgramAst",
            Dec::ModuleAst => "ModuleAst",
            Dec::Masl => "MaslLibrary",
            Dec::Kernel => "Kernel",
            Dec::ProgramInfo => "ProgramInfo",
            Dec::StackInputs => "StackInputs",
            Dec::StackOutputs => "StackOutputs",
            Dec::LibraryPath => "LibraryPath",
            Dec::ProcedureId => "ProcedureId",
            Dec::ProcedureName => "ProcedureName",
        }
    }
    fn from_name(s: &str) -> Dec {
        *Dec::ALL.iter().find(|d| d.name() == s).unwrap_or_else(|| panic!("unknown decoder {s}"))
    }
    /// decoders for which all 2^24 three-byte strings are enumerated in the thorough tier
    fn small(self) -> bool {
        !matches!(self, Dec::Proof | Dec::ProofSer | Dec::Masl)
    }
}

/// the honest statement a decoded proof is verified against
struct ProofCtx {
    info: ProgramInfo,
    inputs: StackInputs,
    outputs: StackOutputs,
}

/// what one input did: a coarse class for the histogram and, if the oracle is violated, the stage
/// and the message
struct Obs {
    class: String,
    fail: Option<(String, String)>,
}

fn err_class(e: &DeserializationError) -> String {
    match e {
        DeserializationError::InvalidValue(_) => "err:InvalidValue".into(),
        DeserializationError::UnexpectedEOF => "err:UnexpectedEOF".into(),
        DeserializationError::UnconsumedBytes => "err:UnconsumedBytes".into(),
        DeserializationError::UnknownError(_) => "err:UnknownError".into(),
    }
}

fn failed(stage: &str, msg: String) -> Obs {
    Obs { class: format!("FAIL:{stage}"), fail: Some((stage.to_string(), msg)) }
}

/// decode → (encode → decode → compare → encode)* → extra; every subject call under guard::catch
fn roundtrip<T>(
    bytes: &[u8],
    decode: impl Fn(&[u8]) -> Result<T, DeserializationError>,
    encodings: impl Fn(&T) -> Vec<Vec<u8>>,
    equal: impl Fn(&T, &T) -> bool,
    extra: impl FnOnce(T) -> Obs,
) -> Obs {
    let v = match guard::catch(|| decode(bytes)) {
        Err(p) => return failed("decode_panic", p),
        Ok(Err(e)) => return Obs { class: err_class(&e), fail: None },
        Ok(Ok(v)) => v,
    };
    let encs = match guard::catch(|| encodings(&v)) {
        Err(p) => return failed("reencode_panic", p),
        Ok(e) => e,
    };
    for (k, enc) in encs.iter().enumerate() {
        let v2 = match guard::catch(|| decode(enc)) {
            Err(p) => return failed("redecode_panic", p),
            Ok(Err(e)) => return failed("redecode_err", format!("re-encoded value is rejected: {e:?}")),
            Ok(Ok(v2)) => v2,
        };
        match guard::catch(|| equal(&v, &v2)) {
            Err(p) => return failed("compare_panic", p),
            Ok(false) => return failed("not_equal", "decode(encode(v)) != v".into()),
            Ok(true) => {}
        }
        match guard::catch(|| encodings(&v2)) {
            Err(p) => return failed("reencode_panic", p),
            Ok(e2) => {
                // the k-th serialisation mode of the re-decoded value must reproduce the k-th encoding
                if e2.get(k) != Some(enc) {
                    return failed("reencode_unstable", "encode(decode(encode(v))) != encode(v)".into());
                }
            }
        }
    }
    extra(v)
}

fn accepted<T>(_: T) -> Obs {
    Obs { class: "ok".into(), fail: None }
}

fn verify_extra(proof: ExecutionProof, pctx: Option<&ProofCtx>) -> Obs {
    let Some(c) = pctx else { return accepted(()) };
    let (info, inputs, outputs) = (c.info.clone(), c.inputs.clone(), c.outputs.clone());
    match guard::catch(move || miden::verify(info, inputs, outputs, proof)) {
        Err(p) => failed("verify_panic", p),
        Ok(Ok(_)) => Obs { class: "ok:verify_ok".into(), fail: None },
        Ok(Err(_)) => Obs { class: "ok:verify_err".into(), fail: None },
    }
}

fn ast_opts() -> [AstSerdeOptions; 2] {
    [AstSerdeOptions::new(true), AstSerdeOptions::new(false)]
}

/// Runs one input through one decoder and the oracle.
fn observe(dec: Dec, bytes: &[u8], pctx: Option<&ProofCtx>) -> Obs {
    fn ser<T: Serializable>(v: &T) -> Vec<Vec<u8>> {
        vec![Serializable::to_bytes(v)]
    }
    match dec {
        Dec::Proof => roundtrip(
            bytes,
            ExecutionProof::from_bytes,
            |p| vec![ExecutionProof::to_bytes(p)],
            |a, b| a == b,
            |p| verify_extra(p, pctx),
        ),
        Dec::ProofSer => roundtrip(
            bytes,
            <ExecutionProof as Deserializable>::read_from_bytes,
            ser,
            |a, b| a == b,
            |p| verify_extra(p, pctx),
        ),
        Dec::ProgramAst => roundtrip(
            bytes,
            ProgramAst::from_bytes,
            // an accepted AST must survive both serialisation modes; without imports the
            // re-decoded value is compared after clearing the imports of the original
            |p| ast_opts().iter().map(|o| p.to_bytes(*o)).collect(),
            |a, b| a == b || { let mut a2 = a.clone(); a2.clear_imports(); a2 == *b },
            accepted,
        ),
        Dec::ModuleAst => roundtrip(
            bytes,
            ModuleAst::from_bytes,
            |m| ast_opts().iter().map(|o| m.to_bytes(*o)).collect(),
            |a, b| a == b || { let mut a2 = a.clone(); a2.clear_imports(); a2 == *b },
            accepted,
        ),
        Dec::Masl => roundtrip(bytes, MaslLibrary::read_from_bytes, ser, |a, b| a == b, accepted),
        Dec::Kernel => roundtrip(bytes, Kernel::read_from_bytes, ser, |a, b| a == b, accepted),
        Dec::ProgramInfo => roundtrip(bytes, ProgramInfo::read_from_bytes, ser, |a, b| a == b, accepted),
        Dec::StackInputs => roundtrip(
            bytes,
            StackInputs::read_from_bytes,
            ser,
            |a, b| a.values() == b.values(),
            accepted,
        ),
        Dec::StackOutputs => roundtrip(bytes, StackOutputs::read_from_bytes, ser, |a, b| a == b, accepted),
        Dec::LibraryPath => roundtrip(bytes, LibraryPath::read_from_bytes, ser, |a, b| a == b, accepted),
        Dec::ProcedureId => roundtrip(bytes, ProcedureId::read_from_bytes, ser, |a, b| a == b, accepted),
        Dec::ProcedureName => roundtrip(bytes, ProcedureName::read_from_bytes, ser, |a, b| a == b, accepted),
    }
}

// FAMILIES OF INPUTS
// ================================================================================================

const FIELD_WIDTHS: [usize; 3] = [1, 2, 4];
const FIELD_VALUES: usize = 5;
const NEST_KINDS: [&str; 3] = ["while", "repeat", "if"];
const NEST_DEPTHS: [usize; 6] = [1, 10, 100, 1000, 10_000, 1 << 17];
const NEST_STACKS_MIB: [usize; 2] = [2, 8];

/// A finite, indexable family of inputs derived from a seed (or from nothing). Parent and child
/// expand the same textual spec, so a case is identified by (decoder, seed, spec, index).
#[derive(Clone, Debug)]
enum Fam {
    /// all byte strings of length 0..=max_len, shortest first
    All { max_len: usize },
    /// all byte strings of exactly this length
    Exact { len: usize },
    /// the seed itself
    Raw,
    Flip1 { bits: Vec<u32> },
    /// all pairs i<j of the first `nbits` bits
    Flip2 { pairs: Vec<(u16, u16)> },
    Trunc { lens: Vec<u32> },
    /// offsets × widths {1,2,4} × values {0,1,v-1,v+1,max}
    Field { offs: Vec<u32> },
    /// kind × depth × {terminated, unterminated}; container 0 = program body, 1 = module procedure
    Nest { container: u8 },
}

fn ht_positions(len: usize, head: usize, tail: usize) -> Vec<u32> {
    let mut v: Vec<u32> = (0..len.min(head)).map(|x| x as u32).collect();
    v.extend((len.saturating_sub(tail)..len).map(|x| x as u32));
    v
}

impl Fam {
    fn parse(spec: &str, seed_len: usize) -> Fam {
        let parts: Vec<&str> = spec.split(':').collect();
        let num = |i: usize| -> usize { parts[i].parse().unwrap_or_else(|_| panic!("bad family spec {spec}")) };
        match parts[0] {
            "all" => Fam::All { max_len: num(1) },
            "exact" => Fam::Exact { len: num(1) },
            "raw" => Fam::Raw,
            "flip1" => {
                let mut bits: Vec<u32> = match parts[1] {
                    "all" => (0..seed_len as u32 * 8).collect(),
                    // all bits of the first `head` and last `tail` bytes + bits 0 and 7 of every
                    // `stride`-th byte
                    "ht" => {
                        let (head, tail, stride) = (num(2), num(3), num(4));
                        let mut b = vec![];
                        for o in ht_positions(seed_len, head, tail) {
                            b.extend((0..8).map(|k| o * 8 + k));
                        }
                        for o in (0..seed_len).step_by(stride.max(1)) {
                            b.push(o as u32 * 8);
                            b.push(o as u32 * 8 + 7);
                        }
                        b
                    }
                    _ => panic!("bad family spec {spec}"),
                };
                bits.sort_unstable();
                bits.dedup();
                Fam::Flip1 { bits }
            }
            "flip2" => {
                let nbits = (num(1) * 8).min(seed_len * 8);
                let mut pairs = vec![];
                for i in 0..nbits {
                    for j in i + 1..nbits {
                        pairs.push((i as u16, j as u16));
                    }
                }
                Fam::Flip2 { pairs }
            }
            "trunc" => {
                let mut lens: Vec<u32> = match parts[1] {
                    "all" => (0..seed_len as u32).collect(),
                    "ht" => {
                        let (head, tail, stride) = (num(2), num(3), num(4));
                        let mut l = ht_positions(seed_len, head, tail);
                        l.extend((0..seed_len).step_by(stride.max(1)).map(|x| x as u32));
                        l
                    }
                    _ => panic!("bad family spec {spec}"),
                };
                lens.sort_unstable();
                lens.dedup();
                Fam::Trunc { lens }
            }
            "field" => {
                let mut offs: Vec<u32> = match parts[1] {
                    "all" => (0..seed_len as u32).collect(),
                    "at" => parts[2].split(',').filter(|s| !s.is_empty()).map(|s| s.parse().expect("offset")).collect(),
                    _ => panic!("bad family spec {spec}"),
                };
                offs.sort_unstable();
                offs.dedup();
                offs.retain(|&o| (o as usize) < seed_len);
                Fam::Field { offs }
            }
            // nest:<container>:<stack MiB of the decoding thread>
            "nest" => Fam::Nest { container: num(1) as u8 },
            _ => panic!("bad family spec {spec}"),
        }
    }

    fn kind(spec: &str) -> &str {
        spec.split(':').next().unwrap_or("")
    }

    fn count(&self) -> u64 {
        match self {
            Fam::All { max_len } => (0..=*max_len).map(|l| 256u64.pow(l as u32)).sum(),
            Fam::Exact { len } => 256u64.pow(*len as u32),
            Fam::Raw => 1,
            Fam::Flip1 { bits } => bits.len() as u64,
            Fam::Flip2 { pairs } => pairs.len() as u64,
            Fam::Trunc { lens } => lens.len() as u64,
            Fam::Field { offs } => (offs.len() * FIELD_WIDTHS.len() * FIELD_VALUES) as u64,
            Fam::Nest { .. } => (NEST_KINDS.len() * NEST_DEPTHS.len() * 2) as u64,
        }
    }

    fn field_case(offs: &[u32], idx: u64) -> (usize, usize, usize) {
        let per = (FIELD_WIDTHS.len() * FIELD_VALUES) as u64;
        let o = offs[(idx / per) as usize] as usize;
        let r = (idx % per) as usize;
        (o, FIELD_WIDTHS[r / FIELD_VALUES], r % FIELD_VALUES)
    }

    fn nest_case(idx: u64) -> (usize, usize, bool) {
        let idx = idx as usize;
        let kind = idx / (NEST_DEPTHS.len() * 2);
        let r = idx % (NEST_DEPTHS.len() * 2);
        (kind, NEST_DEPTHS[r / 2], r % 2 == 0)
    }

    /// same as `bytes`, into a reused buffer (seed-sized copies of big seeds would otherwise be
    /// a fresh memory mapping per case)
    fn bytes_into(&self, seed: &[u8], idx: u64, buf: &mut Vec<u8>) {
        buf.clear();
        match self {
            Fam::Flip1 { bits } => {
                buf.extend_from_slice(seed);
                let bit = bits[idx as usize] as usize;
                buf[bit / 8] ^= 1 << (bit % 8);
            }
            Fam::Trunc { lens } => buf.extend_from_slice(&seed[..lens[idx as usize] as usize]),
            Fam::Field { offs } => {
                let (o, window) = Fam::field_window(seed, offs, idx);
                buf.extend_from_slice(seed);
                buf[o..o + window.len()].copy_from_slice(&window);
            }
            _ => *buf = self.bytes(seed, idx),
        }
    }

    fn bytes(&self, seed: &[u8], idx: u64) -> Vec<u8> {
        match self {
            Fam::All { .. } => {
                let (mut len, mut rest) = (0usize, idx);
                while rest >= 256u64.pow(len as u32) {
                    rest -= 256u64.pow(len as u32);
                    len += 1;
                }
                (0..len).map(|k| (rest >> (8 * (len - 1 - k))) as u8).collect()
            }
            Fam::Exact { len } => (0..*len).map(|k| (idx >> (8 * (len - 1 - k))) as u8).collect(),
            Fam::Raw => seed.to_vec(),
            Fam::Flip1 { bits } => {
                let mut b = seed.to_vec();
                let bit = bits[idx as usize] as usize;
                b[bit / 8] ^= 1 << (bit % 8);
                b
            }
            Fam::Flip2 { pairs } => {
                let mut b = seed.to_vec();
                let (i, j) = pairs[idx as usize];
                b[i as usize / 8] ^= 1 << (i % 8);
                b[j as usize / 8] ^= 1 << (j % 8);
                b
            }
            Fam::Trunc { lens } => seed[..lens[idx as usize] as usize].to_vec(),
            Fam::Field { offs } => {
                let (o, window) = Fam::field_window(seed, offs, idx);
                let mut b = seed.to_vec();
                b[o..o + window.len()].copy_from_slice(&window);
                b
            }
            Fam::Nest { container } => {
                let (kind, depth, terminated) = Fam::nest_case(idx);
                let mut b: Vec<u8> = if *container == 0 {
                    // ProgramAst: options(no imports), 0 procedures, 1 body node
                    vec![0, 0, 0, 1, 0]
                } else {
                    // ModuleAst: options(no imports), no docs, 0 re-exports, 1 procedure "f":
                    // no docs, exported, 0 locals, 1 body node
                    vec![0, 0, 0, 0, 0, 1, 0, 1, b'f', 0, 0, 1, 0, 0, 1, 0]
                };
                let (open, innermost): (&[u8], &[u8]) = match kind {
                    0 => (&[255, 1, 0], &[255, 0, 0]),
                    1 => (&[254, 1, 0, 0, 0, 1, 0], &[254, 1, 0, 0, 0, 0, 0]),
                    _ => (&[253, 1, 0], &[253, 0, 0, 0, 0]),
                };
                if terminated {
                    for _ in 0..depth - 1 {
                        b.extend_from_slice(open);
                    }
                    b.extend_from_slice(innermost);
                    if kind == 2 {
                        // every enclosing `if` has an empty else branch
                        b.extend(std::iter::repeat(0u8).take(2 * (depth - 1)));
                    }
                } else {
                    for _ in 0..depth {
                        b.extend_from_slice(open);
                    }
                }
                b
            }
        }
    }

    fn describe(&self, idx: u64) -> String {
        match self {
            Fam::All { .. } | Fam::Exact { .. } => format!("enumerated byte string #{idx}"),
            Fam::Raw => "the unmodified seed".into(),
            Fam::Flip1 { bits } => {
                let b = bits[idx as usize];
                format!("flip bit {} of byte {}", b % 8, b / 8)
            }
            Fam::Flip2 { pairs } => {
                let (i, j) = pairs[idx as usize];
                format!("flip bit {} of byte {} and bit {} of byte {}", i % 8, i / 8, j % 8, j / 8)
            }
            Fam::Trunc { lens } => format!("truncate to {} bytes", lens[idx as usize]),
            Fam::Field { offs } => {
                let (o, w, vi) = Fam::field_case(offs, idx);
                format!("u{} little-endian field at offset {o} set to {}", 8 * w, ["0", "1", "v-1", "v+1", "max"][vi])
            }
            Fam::Nest { container } => {
                let (kind, depth, terminated) = Fam::nest_case(idx);
                format!(
                    "{depth} nested `{}` headers in a {} body, {}",
                    NEST_KINDS[kind],
                    if *container == 0 { "program" } else { "module procedure" },
                    if terminated { "terminated" } else { "unterminated" }
                )
            }
        }
    }
}

// WORKER (child process)
// ================================================================================================

/// 16-byte shared cell: (task id, index of the case being processed; u64::MAX = idle)
struct Progress {
    ptr: *mut u64,
}
unsafe impl Send for Progress {}
unsafe impl Sync for Progress {}

impl Progress {
    fn open(path: &str) -> Progress {
        use std::os::unix::io::AsRawFd;
        let f = std::fs::OpenOptions::new().read(true).write(true).open(path).expect("progress file");
        let p = unsafe {
            libc::mmap(std::ptr::null_mut(), 16, libc::PROT_READ | libc::PROT_WRITE, libc::MAP_SHARED, f.as_raw_fd(), 0)
        };
        assert!(p != libc::MAP_FAILED, "mmap of the progress cell failed");
        Progress { ptr: p as *mut u64 }
    }
    fn set(&self, task: u64, idx: u64) {
        unsafe {
            std::ptr::write_volatile(self.ptr, task);
            std::ptr::write_volatile(self.ptr.add(1), idx);
        }
    }
}

fn unhex(s: &str) -> Vec<u8> {
    assert!(s.len() % 2 == 0, "odd hex length");
    (0..s.len() / 2).map(|i| u8::from_str_radix(&s[2 * i..2 * i + 2], 16).expect("hex digit")).collect()
}

fn hex(b: &[u8]) -> String {
    const D: &[u8; 16] = b"0123456789abcdef";
    let mut s = String::with_capacity(b.len() * 2);
    for x in b {
        s.push(D[(x >> 4) as usize] as char);
        s.push(D[(x & 15) as usize] as char);
    }
    s
}

fn one_line(s: &str) -> String {
    s.replace(['\n', '\t', '\r'], " ")
}

fn worker_main() -> i32 {
    // performance only: keep blocks of up to 32 MiB (re-encodings of the big seeds) on the heap
    // instead of a fresh memory mapping per case
    unsafe {
        libc::mallopt(libc::M_MMAP_THRESHOLD, 32 << 20);
        libc::mallopt(libc::M_TRIM_THRESHOLD, 512 << 20);
        libc::mallopt(libc::M_TOP_PAD, 64 << 20);
    }
    let stdin = std::io::stdin();
    let mut seeds: HashMap<usize, Vec<u8>> = HashMap::new();
    let mut pctxs: HashMap<usize, ProofCtx> = HashMap::new();
    let mut progress: Option<Progress> = None;
    let empty: Vec<u8> = vec![];
    for line in stdin.lock().lines() {
        let line = line.expect("worker stdin");
        let f: Vec<&str> = line.split('\t').collect();
        match f[0] {
            "P" => progress = Some(Progress::open(f[1])),
            "S" => {
                seeds.insert(f[1].parse().expect("seed id"), unhex(f[2]));
            }
            "C" => {
                // if the statement itself does not survive serialisation (that is reported through
                // the ProgramInfo / StackInputs / StackOutputs seeds) the proofs are decoded without
                // the verification step
                let c = guard::catch(|| {
                    Ok::<_, DeserializationError>(ProofCtx {
                        info: ProgramInfo::read_from_bytes(&unhex(f[2]))?,
                        inputs: StackInputs::read_from_bytes(&unhex(f[3]))?,
                        outputs: StackOutputs::read_from_bytes(&unhex(f[4]))?,
                    })
                });
                if let Ok(Ok(c)) = c {
                    pctxs.insert(f[1].parse().expect("seed id"), c);
                }
            }
            "T" => {
                let task_id: u64 = f[1].parse().expect("task id");
                let dec = Dec::from_name(f[2]);
                let seed_id: Option<usize> = f[3].parse().ok();
                let spec = f[4];
                let start: u64 = f[5].parse().expect("start");
                let end: u64 = f[6].parse().expect("end");
                let seed: &Vec<u8> = seed_id.map(|i| seeds.get(&i).expect("seed not sent")).unwrap_or(&empty);
                let pctx = seed_id.and_then(|i| pctxs.get(&i));
                let prog = progress.as_ref().expect("progress cell not announced");
                let stack = decode_stack_for(spec);
                let out = std::thread::scope(|s| {
                    std::thread::Builder::new()
                        .name("decode".into())
                        .stack_size(stack)
                        .spawn_scoped(s, || run_task(prog, task_id, dec, seed, pctx, spec, start, end))
                        .expect("spawn decode thread")
                        .join()
                        .expect("decode thread panicked outside of guard::catch")
                });
                let so = std::io::stdout();
                let mut so = so.lock();
                so.write_all(out.as_bytes()).expect("worker stdout");
                writeln!(so, "D\t{task_id}").expect("worker stdout");
                so.flush().expect("worker stdout");
            }
            other => panic!("worker: unknown message {other}"),
        }
    }
    0
}

/// stack size of the decoding thread: 8 MiB, except where a nest-bomb family states another size
fn decode_stack_for(spec: &str) -> usize {
    let parts: Vec<&str> = spec.split(':').collect();
    if parts[0] == "nest" && parts.len() > 2 {
        parts[2].parse::<usize>().expect("stack MiB") << 20
    } else if parts[0] == "raw" && parts.len() > 1 {
        parts[1].parse::<usize>().expect("stack MiB") << 20
    } else {
        DECODE_STACK
    }
}

fn run_task(
    prog: &Progress,
    task_id: u64,
    dec: Dec,
    seed: &[u8],
    pctx: Option<&ProofCtx>,
    spec: &str,
    start: u64,
    end: u64,
) -> String {
    let fam = Fam::parse(spec, seed.len());
    assert!(end <= fam.count(), "task range exceeds family size");
    let mut hist: BTreeMap<String, u64> = BTreeMap::new();
    let mut out = String::new();
    let mut bytes = Vec::new();
    let t0 = Instant::now();
    let mut slowest = (0u128, start);
    for idx in start..end {
        prog.set(task_id, idx);
        fam.bytes_into(seed, idx, &mut bytes);
        let tc = Instant::now();
        let obs = observe(dec, &bytes, pctx);
        let dt = tc.elapsed().as_micros();
        if dt > slowest.0 {
            slowest = (dt, idx);
        }
        if idx == start {
            out.push_str(&format!("M\t{idx}\t{}\n", obs.class));
        }
        *hist.entry(obs.class).or_insert(0) += 1;
        if let Some((stage, msg)) = obs.fail {
            out.push_str(&format!("F\t{idx}\t{stage}\t{}\n", one_line(&msg)));
        }
    }
    prog.set(task_id, u64::MAX);
    out.push_str(&format!("E\t{}\n", t0.elapsed().as_micros()));
    out.push_str(&format!("X\t{}\t{}\n", slowest.1, slowest.0));
    for (k, v) in hist {
        out.push_str(&format!("H\t{k}\t{v}\n"));
    }
    out
}

// PARENT: seeds
// ================================================================================================

struct Seed {
    id: usize,
    name: String,
    dec: Dec,
    bytes: Arc<Vec<u8>>,
    /// serialised (program info, stack inputs, stack outputs) for proofs
    pctx: Option<[Vec<u8>; 3]>,
    /// offsets of length / count fields located structurally (used for the big seeds)
    located: Vec<u32>,
}

const SRC_CTRL: &str = "
use.std::math::u64
use.std::sys
proc.foo.2
    loc_store.0 loc_load.1 add
end
proc.bar
    push.1 if.true push.2 else push.3 push.4 end drop
end
begin
    push.0xffffffff00000000 push.1.2.3.4 push.70000.5 drop dropw dropw
    exec.foo call.bar
    push.1
    if.true
        repeat.3
            push.0 while.true push.0 end
        end
    else
        push.1 while.true repeat.2 push.1 if.true add.7 end end push.0 end
    end
    push.1 if.true end
    exec.u64::wrapping_add
    mem_store.1000 mem_loadw.4294967295 adv.push_mapval.2 u32shl.31 debug.stack.5 emit.77 trace.9
    exec.sys::truncate_stack
end";

const SRC_INSTR: &str = "
proc.p.3
    locaddr.2 loc_loadw.1 loc_storew.0 debug.local.0.2 debug.local
end
begin
    assert assert.err=5 assert_eq.err=4294967295 assertz assert_eqw
    add.18446744069414584320 sub.255 mul.65536 div.3 exp.u7 exp.12 eq.9 neq.0 u32assert2.err=1
    u32wrapping_add.4294967295 u32overflowing_sub.1 u32div.7 u32divmod.9 u32rotr.31 u32shr.0
    dup.15 dupw.3 swap.15 swapw.3 movup.15 movdn.2 movupw.3 movdnw.2 cswapw cdropw
    push.255 push.256 push.65536 push.4294967296 push.1.2 push.256.1 push.65536.1 push.4294967296.1.2
    adv_push.16 adv_loadw adv.push_u64div adv.insert_hdword.3 adv.push_sig.rpo_falcon512 adv.push_mapvaln.12
    mem_load mem_load.0 mem_storew.77 mem_stream adv_pipe hash hmerge hperm mtree_get
    call.0x0000000000000000000000000000000000000000000000000000000000000000
    exec.p call.p procref.p dynexec dyncall sdepth clk caller
    debug.mem debug.mem.5 debug.mem.1.9 debug.stack fri_ext2fold4 rcomb_base ext2mul
end";

const SRC_MOD_SMALL: &str = "
#! module docs
#! second line

#! adds one
export.inc
    add.1
end

proc.helper.1
    loc_store.0
end

#! uses the helper
export.twice.4
    exec.helper exec.inc exec.inc
end";

const SRC_MOD_FULL: &str = "
#! a module with imports and re-exports

use.std::math::u64
use.std::math::u256

#! re-exported addition
export.u64::wrapping_add

export.u256::add_unsafe->add256

#! wrapping multiplication of the two u64 on the stack
export.mul.2
    exec.u64::wrapping_mul
    push.1 if.true while.true repeat.2 push.0 end end else call.u64::wrapping_add end
end";

fn parse_program(src: &str) -> ProgramAst {
    ProgramAst::parse(src).unwrap_or_else(|e| panic!("seed program must parse: {e}\n{src}"))
}

fn parse_module(src: &str) -> ModuleAst {
    ModuleAst::parse(src).unwrap_or_else(|e| panic!("seed module must parse: {e}\n{src}"))
}

fn small_library(with_locations: bool) -> MaslLibrary {
    let ns = LibraryNamespace::new("mylib").expect("namespace");
    let m1 = Module::new(LibraryPath::new("mylib::arith").expect("path"), parse_module(SRC_MOD_SMALL));
    let m2 = Module::new(LibraryPath::new("mylib::wide::ops").expect("path"), parse_module(SRC_MOD_FULL));
    MaslLibrary::new(
        ns,
        Version { major: 1, minor: 2, patch: 65535 },
        with_locations,
        vec![m1, m2],
        vec![LibraryNamespace::new("std").expect("namespace")],
    )
    .expect("small library")
}

fn digests(n: usize) -> Vec<vm_core::crypto::hash::RpoDigest> {
    use vm_core::Felt;
    (0..n)
        .map(|i| {
            let i = i as u64;
            vm_core::crypto::hash::RpoDigest::new([
                Felt::new(i * 7 + 1),
                Felt::new(P - 1 - i),
                Felt::new(i << 32),
                Felt::new(0x0123_4567_89ab_cdef ^ i),
            ])
        })
        .collect()
}

/// offsets of the length / count fields of a serialised proof, found by walking the documented
/// layout of winterfell's `StarkProof` with the real component sizes
fn locate_proof_fields(proof: &ExecutionProof, bytes: &[u8]) -> Vec<u32> {
    let rd16 = |o: usize| u16::from_le_bytes([bytes[o], bytes[o + 1]]) as usize;
    let rd32 = |o: usize| u32::from_le_bytes([bytes[o], bytes[o + 1], bytes[o + 2], bytes[o + 3]]) as usize;
    let mut f = vec![];
    let mut o = 1 + Serializable::to_bytes(&proof.proof.context).len();
    f.push(o); // num_unique_queries
    o += 1;
    f.push(o); // commitments: u16 length
    o += 2 + rd16(o);
    let segments = proof.proof.context.trace_layout().num_segments();
    for _ in 0..segments + 1 {
        // trace queries per segment, then constraint queries: two u32-prefixed blobs each
        for _ in 0..2 {
            f.push(o);
            o += 4 + rd32(o);
        }
    }
    for _ in 0..2 {
        // OOD frame: two u16-prefixed blobs
        f.push(o);
        o += 2 + rd16(o);
    }
    let layers = bytes[o] as usize;
    f.push(o);
    o += 1;
    for _ in 0..layers {
        for _ in 0..2 {
            f.push(o);
            o += 4 + rd32(o);
        }
    }
    f.push(o); // remainder: u16 length
    o += 2 + rd16(o);
    f.push(o); // num_partitions
    o += 1;
    f.push(o); // pow nonce
    o += 8;
    assert_eq!(o, bytes.len(), "proof layout walker is out of sync with the real encoding");
    f.into_iter().map(|x| x as u32).collect()
}

/// offsets of the per-module length / count fields of a serialised library (module path length,
/// docs length, import count, first import), found from the sizes of the separately serialised parts
fn locate_library_fields(lib: &MaslLibrary, bytes: &[u8]) -> Vec<u32> {
    let mut f = vec![];
    let mut o = 1 + lib.root_ns().len() + 6;
    f.push(o); // dependency count
    o += 2;
    for d in lib.dependencies() {
        f.push(o);
        o += 1 + d.len();
    }
    f.push(o); // module count
    o += 2;
    for m in lib.modules() {
        let path = m.path.strip_first().expect("module path");
        let path_len = Serializable::to_bytes(&path).len();
        let mut body = Vec::new();
        m.ast.write_into(&mut body, AstSerdeOptions::new(true));
        let docs_len = m.ast.docs().map(|d| d.len()).unwrap_or(0);
        f.push(o); // path length
        f.push(o + path_len); // docs length
        let after_docs = o + path_len + 2 + docs_len;
        f.extend(after_docs..after_docs + 8); // import count, first import path length ...
        // the last 8 bytes of the module: tail of its last procedure body
        let end = o + path_len + body.len();
        f.extend(end - 8..end);
        o = end;
    }
    f.push(o); // has_source_locations flag
    o += 1;
    assert!(o <= bytes.len() && bytes[o - 1] <= 1, "library layout walker is out of sync with the real encoding");
    f.into_iter().map(|x| x as u32).collect()
}

fn make_proof(src: &str, stack_top_first: &[u64], kernel: Option<&str>) -> (ExecutionProof, [Vec<u8>; 3]) {
    let asm = match kernel {
        Some(k) => crate::common::assembler_with_kernel(k),
        None => crate::common::assembler(),
    };
    let program = asm.compile(src).unwrap_or_else(|e| panic!("seed program must assemble: {e}"));
    let inputs = crate::common::stack_inputs(stack_top_first);
    let (outputs, proof) = miden::prove(
        &program,
        inputs.clone(),
        crate::common::host(&[]),
        ProvingOptions::with_96_bit_security(false),
    )
    .expect("seed program must be provable");
    let info = ProgramInfo::from(program);
    miden::verify(info.clone(), inputs.clone(), outputs.clone(), proof.clone()).expect("honest seed proof must verify");
    (proof, [Serializable::to_bytes(&info), Serializable::to_bytes(&inputs), Serializable::to_bytes(&outputs)])
}

fn build_seeds() -> Vec<Seed> {
    let mut seeds: Vec<Seed> = vec![];
    let mut add = |name: &str, dec: Dec, bytes: Vec<u8>, pctx: Option<[Vec<u8>; 3]>, located: Vec<u32>| {
        let id = seeds.len();
        seeds.push(Seed { id, name: name.to_string(), dec, bytes: Arc::new(bytes), pctx, located });
    };
    let with = AstSerdeOptions::new(true);
    let without = AstSerdeOptions::new(false);

    // programs
    add("program:minimal", Dec::ProgramAst, parse_program("begin add end").to_bytes(with), None, vec![]);
    add("program:control+imports", Dec::ProgramAst, parse_program(SRC_CTRL).to_bytes(with), None, vec![]);
    add("program:control,no-imports", Dec::ProgramAst, parse_program(SRC_CTRL).to_bytes(without), None, vec![]);
    add("program:instructions", Dec::ProgramAst, parse_program(SRC_INSTR).to_bytes(with), None, vec![]);
    // modules
    add("module:docs+procs", Dec::ModuleAst, parse_module(SRC_MOD_SMALL).to_bytes(with), None, vec![]);
    add("module:imports+reexports", Dec::ModuleAst, parse_module(SRC_MOD_FULL).to_bytes(with), None, vec![]);
    add("module:imports+reexports,no-imports", Dec::ModuleAst, parse_module(SRC_MOD_FULL).to_bytes(without), None, vec![]);
    // libraries
    add("library:small", Dec::Masl, Serializable::to_bytes(&small_library(false)), None, vec![]);
    add("library:small+locations", Dec::Masl, Serializable::to_bytes(&small_library(true)), None, vec![]);
    let stdlib: MaslLibrary = stdlib::StdLibrary::default().into();
    let std_bytes = Serializable::to_bytes(&stdlib);
    let located = locate_library_fields(&stdlib, &std_bytes);
    add("library:stdlib", Dec::Masl, std_bytes, None, located);
    // kernels and program info
    for n in [0usize, 1, 3] {
        let k = Kernel::new(&digests(n)).expect("kernel");
        add(&format!("kernel:{n}"), Dec::Kernel, Serializable::to_bytes(&k), None, vec![]);
    }
    let d = digests(4);
    add("program-info:no-kernel", Dec::ProgramInfo, Serializable::to_bytes(&ProgramInfo::new(d[3], Kernel::default())), None, vec![]);
    add(
        "program-info:kernel-3",
        Dec::ProgramInfo,
        Serializable::to_bytes(&ProgramInfo::new(d[3], Kernel::new(&d[..3]).expect("kernel"))),
        None,
        vec![],
    );
    // stack inputs / outputs
    for n in [0usize, 1, 16, 17, 40] {
        let vals: Vec<u64> = (0..n as u64).map(|i| if i % 3 == 0 { P - 1 - i } else { i * i + 1 }).collect();
        let si = StackInputs::try_from_values(vals.clone()).expect("stack inputs");
        add(&format!("stack-inputs:{n}"), Dec::StackInputs, Serializable::to_bytes(&si), None, vec![]);
        let ov: Vec<u64> = if n > 16 { (0..(n + 1 - 16) as u64).map(|i| i * 5).collect() } else { vec![] };
        let so = StackOutputs::new(vals, ov).expect("stack outputs");
        add(&format!("stack-outputs:{n}"), Dec::StackOutputs, Serializable::to_bytes(&so), None, vec![]);
    }
    // paths, names, ids
    for p in ["std::math::u64", "a", "#exec::foo::bar", "#sys::k"] {
        let lp = LibraryPath::new(p).expect("library path");
        add(&format!("path:{p}"), Dec::LibraryPath, Serializable::to_bytes(&lp), None, vec![]);
    }
    // crafted path strings around the documented length limits (a component: 255 bytes, a whole path: 1023
    // bytes): plain ASCII of length limit-1, limit, limit+1, and strings in which a 2-, 3- or 4-byte UTF-8
    // character starts at every offset from limit-4 to limit (so that it ends at, straddles or starts at
    // the limit). Most of them are invalid paths: the decoders must answer with an error, never a panic.
    // Each string is observed as a bare LibraryPath and spliced into a program's import table, a module's
    // import table and a library's module path.
    {
        let enc = |sb: &[u8]| {
            let mut v = (sb.len() as u16).to_le_bytes().to_vec();
            v.extend_from_slice(sb);
            v
        };
        let mut strings: Vec<(String, Vec<u8>)> = vec![];
        for (limit, lead) in [(255usize, String::from("std::")), (1023usize, format!("{0}::{0}::{0}::{0}::", "a".repeat(250)))] {
            // for the component limit the counted string starts after `lead`; for the path limit at byte 0
            let base = if limit == 255 { 0 } else { lead.len() };
            for n in [limit - 1, limit, limit + 1] {
                let mut sb = lead.clone().into_bytes();
                sb.extend(std::iter::repeat(b'a').take(n - base));
                strings.push((format!("ascii{n}/limit{limit}"), sb));
            }
            for mb in ["\u{e9}", "\u{20ac}", "\u{1f600}"] {
                for start in limit - 4..=limit {
                    let mut sb = lead.clone().into_bytes();
                    sb.extend(std::iter::repeat(b'a').take(start - base));
                    sb.extend_from_slice(mb.as_bytes());
                    sb.extend_from_slice(b"bb");
                    strings.push((format!("utf8x{}@{start}/limit{limit}", mb.len()), sb));
                }
            }
        }
        let placeholder = "zzplaceholder::q";
        let prog = parse_program(&format!("use.{placeholder}\nbegin exec.q::foo end")).to_bytes(with);
        let module = parse_module(&format!("use.{placeholder}\nexport.g exec.q::foo end")).to_bytes(with);
        let lib = Serializable::to_bytes(&small_library(false));
        let splice = |container: &[u8], old: &str, new_enc: &[u8]| -> Vec<u8> {
            let pat = enc(old.as_bytes());
            let at = container.windows(pat.len()).position(|w| w == &pat[..]).expect("placeholder path in the container encoding");
            let mut v = container[..at].to_vec();
            v.extend_from_slice(new_enc);
            v.extend_from_slice(&container[at + pat.len()..]);
            v
        };
        for (name, sb) in &strings {
            let e = enc(sb);
            add(&format!("crafted:path:{name}"), Dec::LibraryPath, e.clone(), None, vec![]);
            add(&format!("crafted:program-import:{name}"), Dec::ProgramAst, splice(&prog, placeholder, &e), None, vec![]);
            add(&format!("crafted:module-import:{name}"), Dec::ModuleAst, splice(&module, placeholder, &e), None, vec![]);
            add(&format!("crafted:library-module-path:{name}"), Dec::Masl, splice(&lib, "arith", &e), None, vec![]);
        }
    }
    // crafted procedure names (u8 length prefix): a multi-byte character at the start, around offset 100 and
    // at the end of the longest encodable name
    for mb in ["\u{e9}", "\u{20ac}", "\u{1f600}"] {
        for start in [0usize, 1, 2, 98, 99, 100, 101, 248, 249, 250] {
            let mut sb: Vec<u8> = std::iter::repeat(b'a').take(start).collect();
            sb.extend_from_slice(mb.as_bytes());
            sb.push(b'b');
            let mut e = vec![sb.len() as u8];
            e.extend_from_slice(&sb);
            add(&format!("crafted:proc-name:utf8x{}@{start}", mb.len()), Dec::ProcedureName, e, None, vec![]);
        }
    }
    add("path:kernel_path()", Dec::LibraryPath, Serializable::to_bytes(&LibraryPath::kernel_path()), None, vec![]);
    add("path:exec_path()", Dec::LibraryPath, Serializable::to_bytes(&LibraryPath::exec_path()), None, vec![]);
    add(
        "proc-name:checked_add",
        Dec::ProcedureName,
        Serializable::to_bytes(&ProcedureName::try_from("checked_add").expect("name")),
        None,
        vec![],
    );
    add(
        "proc-id:std::math::u64::checked_add",
        Dec::ProcedureId,
        Serializable::to_bytes(&ProcedureId::new("std::math::u64::checked_add")),
        None,
        vec![],
    );
    // proofs (Blake3-192, 96-bit options)
    let (p1, c1) = make_proof("begin push.3 push.5 add swap drop end", &[1, 2], None);
    let b1 = p1.to_bytes();
    let l1 = locate_proof_fields(&p1, &b1);
    add("proof:add", Dec::Proof, b1, Some(c1.clone()), l1);
    let (p2, c2) = make_proof(
        "proc.f.1 loc_load.0 loc_store.0 end begin syscall.k1 call.f repeat.20 dup end push.1 if.true hperm else drop end end",
        &[7, 8, 9],
        Some("export.k1 push.1 add end export.k2 caller dropw end"),
    );
    let b2 = p2.to_bytes();
    let l2 = locate_proof_fields(&p2, &b2);
    add("proof:kernel+overflow", Dec::Proof, b2, Some(c2), l2);
    // the same first proof in the Deserializable layout (hash function byte last)
    let b3 = Serializable::to_bytes(&p1);
    let l3: Vec<u32> = locate_proof_fields(&p1, &p1.to_bytes()).iter().map(|o| o - 1).collect();
    add("proof:add(Deserializable layout)", Dec::ProofSer, b3, Some(c1), l3);
    seeds
}

// PARENT: tasks and lanes
// ================================================================================================

#[derive(Clone, Debug)]
struct Task {
    id: u64,
    dec: Dec,
    seed: Option<usize>,
    spec: String,
    start: u64,
    end: u64,
}

struct CaseFail {
    dec: Dec,
    seed: Option<usize>,
    spec: String,
    idx: u64,
    stage: String,
    msg: String,
}

#[derive(Default)]
struct Results {
    /// (decoder, family kind, class) → count
    hist: BTreeMap<(String, String, String), u64>,
    fails: Vec<CaseFail>,
    samples: Vec<(Dec, Option<usize>, String, u64, String)>,
    /// (decoder, family kind) → busy microseconds inside the workers
    micros: BTreeMap<(String, String), u64>,
    /// the single slowest case (wall microseconds inside the worker, description)
    slowest: (u64, String),
    deaths: u64,
    children: u64,
    death_cap_hit: bool,
}

struct Shared<'a> {
    seeds: &'a [Seed],
    queue: Mutex<VecDeque<Task>>,
    results: Mutex<Results>,
    next_id: AtomicU64,
    tmp: PathBuf,
    stop: AtomicBool,
}

struct Worker {
    child: Child,
    stdin: BufWriter<ChildStdin>,
    stdout: BufReader<ChildStdout>,
    sent: HashSet<usize>,
    progress_path: PathBuf,
    stderr_path: PathBuf,
    done: Arc<AtomicBool>,
    killed: Arc<Mutex<Option<String>>>,
}

/// user + system CPU seconds of a process (0 if it is gone)
fn proc_cpu_seconds(pid: u32) -> f64 {
    let Ok(s) = std::fs::read_to_string(format!("/proc/{pid}/stat")) else { return 0.0 };
    // fields after the parenthesised command name; utime and stime are the 14th and 15th overall
    let Some(rest) = s.rfind(')').map(|i| &s[i + 1..]) else { return 0.0 };
    let f: Vec<&str> = rest.split_whitespace().collect();
    let ticks: f64 = f.get(11).and_then(|x| x.parse::<f64>().ok()).unwrap_or(0.0) + f.get(12).and_then(|x| x.parse::<f64>().ok()).unwrap_or(0.0);
    ticks / 100.0
}

fn try_read_progress(path: &Path) -> Option<(u64, u64)> {
    let mut b = [0u8; 16];
    let mut f = std::fs::File::open(path).ok()?;
    f.read_exact(&mut b).ok()?;
    Some((u64::from_le_bytes(b[..8].try_into().unwrap()), u64::from_le_bytes(b[8..].try_into().unwrap())))
}

fn read_progress(path: &Path) -> (u64, u64) {
    try_read_progress(path).expect("progress file")
}

impl Worker {
    fn spawn(tmp: &Path, tag: &str) -> Worker {
        static SERIAL: AtomicU64 = AtomicU64::new(0);
        let n = SERIAL.fetch_add(1, Ordering::SeqCst);
        let progress_path = tmp.join(format!("progress-{tag}-{n}"));
        let stderr_path = tmp.join(format!("stderr-{tag}-{n}"));
        let mut cell = [0u8; 16];
        cell[8..].copy_from_slice(&u64::MAX.to_le_bytes());
        std::fs::write(&progress_path, cell).expect("create progress file");
        let errf = std::fs::File::create(&stderr_path).expect("create stderr file");
        let exe = std::env::current_exe().expect("current_exe");
        let mut child = Command::new(exe)
            .args(["C19", "--tier", "quick"])
            .env(WORKER_ENV, "1")
            .env("VERIF_THREADS", "1")
            .stdin(Stdio::piped())
            .stdout(Stdio::piped())
            .stderr(Stdio::from(errf))
            .spawn()
            .expect("spawn worker");
        let stdin = BufWriter::new(child.stdin.take().expect("stdin"));
        let stdout = BufReader::new(child.stdout.take().expect("stdout"));
        let done = Arc::new(AtomicBool::new(false));
        let killed = Arc::new(Mutex::new(None));
        // watchdog: resident memory cap and no-progress timeout
        {
            let (done, killed, pid, ppath) = (done.clone(), killed.clone(), child.id(), progress_path.clone());
            std::thread::spawn(move || {
                let mut last = (u64::MAX, u64::MAX);
                let mut last_cpu_mark = ((u64::MAX, u64::MAX), 0f64);
                let mut since = Instant::now();
                while !done.load(Ordering::SeqCst) {
                    std::thread::sleep(Duration::from_millis(100));
                    // the file disappears when the lane retires the worker
                    let Some(cur) = try_read_progress(&ppath) else { break };
                    if cur != last {
                        last = cur;
                        since = Instant::now();
                    }
                    let mut reason = None;
                    // a case is declared hung when it has consumed HANG_CPU_SECS of CPU time (the
                    // wall clock would depend on the load of the machine); a generous wall-clock
                    // limit catches a blocked process
                    let cpu = proc_cpu_seconds(pid);
                    if cur != last_cpu_mark.0 {
                        last_cpu_mark = (cur, cpu);
                    }
                    if cur.1 != u64::MAX && (cpu - last_cpu_mark.1 > HANG_CPU_SECS as f64 || since.elapsed() > Duration::from_secs(HANG_WALL_SECS)) {
                        reason = Some(format!("timeout: one case used more than {HANG_CPU_SECS}s of CPU or {HANG_WALL_SECS}s of wall time (killed)"));
                    }
                    if let Ok(s) = std::fs::read_to_string(format!("/proc/{pid}/statm")) {
                        let rss_pages: u64 = s.split_whitespace().nth(1).and_then(|x| x.parse().ok()).unwrap_or(0);
                        if rss_pages * 4096 > RSS_CAP_BYTES {
                            reason = Some(format!("resident memory above {} MiB (killed)", RSS_CAP_BYTES >> 20));
                        }
                    }
                    if let Some(r) = reason {
                        if done.load(Ordering::SeqCst) {
                            break;
                        }
                        *killed.lock().unwrap() = Some(r);
                        unsafe { libc::kill(pid as i32, libc::SIGKILL) };
                        break;
                    }
                }
            });
        }
        let mut w = Worker { child, stdin, stdout, sent: HashSet::new(), progress_path, stderr_path, done, killed };
        let line = format!("P\t{}\n", w.progress_path.display());
        w.send(&line);
        w
    }

    fn send(&mut self, line: &str) {
        // a write error means the child is gone; the reader side notices and handles it
        let _ = self.stdin.write_all(line.as_bytes());
        let _ = self.stdin.flush();
    }

    fn send_seed(&mut self, seed: &Seed) {
        if self.sent.insert(seed.id) {
            let line = format!("S\t{}\t{}\n", seed.id, hex(&seed.bytes));
            self.send(&line);
            if let Some(c) = &seed.pctx {
                let line = format!("C\t{}\t{}\t{}\t{}\n", seed.id, hex(&c[0]), hex(&c[1]), hex(&c[2]));
                self.send(&line);
            }
        }
    }

    /// Sends one task and collects its result lines. `Err(cause)` if the child died.
    fn run(&mut self, task: &Task) -> Result<Vec<String>, String> {
        let line = format!(
            "T\t{}\t{}\t{}\t{}\t{}\t{}\n",
            task.id,
            task.dec.name(),
            task.seed.map(|s| s.to_string()).unwrap_or_else(|| "-".into()),
            task.spec,
            task.start,
            task.end
        );
        self.send(&line);
        let mut lines = vec![];
        loop {
            let mut l = String::new();
            match self.stdout.read_line(&mut l) {
                Ok(0) | Err(_) => return Err(self.reap()),
                Ok(_) => {
                    let l = l.trim_end_matches('\n').to_string();
                    if l.starts_with("D\t") {
                        assert_eq!(l, format!("D\t{}", task.id), "worker protocol out of sync");
                        return Ok(lines);
                    }
                    lines.push(l);
                }
            }
        }
    }

    /// Waits for a dead child and describes how it died.
    fn reap(&mut self) -> String {
        use std::os::unix::process::ExitStatusExt;
        let status = self.child.wait().expect("wait for worker");
        self.done.store(true, Ordering::SeqCst);
        let stderr = std::fs::read_to_string(&self.stderr_path).unwrap_or_default();
        if let Some(k) = self.killed.lock().unwrap().clone() {
            return k;
        }
        let how = match (status.signal(), status.code()) {
            (Some(s), _) => format!("signal {s}"),
            (None, Some(c)) => format!("exit code {c}"),
            _ => "unknown status".into(),
        };
        if status.signal().is_none() {
            // a worker that exits by itself is a harness failure, never a verdict
            panic!("C19 worker exited unexpectedly ({how}); stderr: {}", stderr.chars().take(2000).collect::<String>());
        }
        if stderr.contains("has overflowed its stack") {
            format!("stack_overflow ({how})")
        } else if stderr.contains("memory allocation of") {
            format!("alloc_failure ({how})")
        } else {
            format!("abort ({how}): {}", one_line(&stderr.chars().take(300).collect::<String>()))
        }
    }

    fn finish(mut self) {
        drop(self.stdin);
        let _ = self.child.wait();
        self.done.store(true, Ordering::SeqCst);
        let _ = std::fs::remove_file(&self.progress_path);
        let _ = std::fs::remove_file(&self.stderr_path);
    }

    fn discard(mut self) {
        let _ = self.child.kill();
        let _ = self.child.wait();
        self.done.store(true, Ordering::SeqCst);
        let _ = std::fs::remove_file(&self.progress_path);
        let _ = std::fs::remove_file(&self.stderr_path);
    }
}

fn merge_lines(res: &mut Results, task: &Task, lines: &[String]) {
    let fam = Fam::kind(&task.spec).to_string();
    for l in lines {
        let f: Vec<&str> = l.split('\t').collect();
        match f[0] {
            "H" => {
                *res.hist.entry((task.dec.name().to_string(), fam.clone(), f[1].to_string())).or_insert(0) +=
                    f[2].parse::<u64>().expect("count");
            }
            "F" => res.fails.push(CaseFail {
                dec: task.dec,
                seed: task.seed,
                spec: task.spec.clone(),
                idx: f[1].parse().expect("idx"),
                stage: f[2].to_string(),
                msg: f[3..].join(" "),
            }),
            "X" => {
                let us: u64 = f[2].parse().expect("micros");
                if us > res.slowest.0 {
                    res.slowest = (us, format!("{} {} #{}", task.dec.name(), task.spec.chars().take(40).collect::<String>(), f[1]));
                }
            }
            "E" => {
                *res.micros.entry((task.dec.name().to_string(), fam.clone())).or_insert(0) += f[1].parse::<u64>().expect("micros");
            }
            "M" => {
                if res.samples.len() < 200_000 {
                    res.samples.push((task.dec, task.seed, task.spec.clone(), f[1].parse().expect("idx"), f[2].to_string()));
                }
            }
            other => panic!("unexpected worker line {other}"),
        }
    }
}

/// Runs exactly one case in a fresh child. Ok(lines) or Err(cause of death).
fn run_single(tmp: &Path, seeds: &[Seed], task: &Task, idx: u64) -> Result<Vec<String>, String> {
    let mut w = Worker::spawn(tmp, "single");
    if let Some(s) = task.seed {
        w.send_seed(&seeds[s]);
    }
    let t = Task { id: 0, start: idx, end: idx + 1, ..task.clone() };
    let r = w.run(&t);
    match r {
        Ok(l) => {
            w.finish();
            Ok(l)
        }
        Err(c) => {
            w.discard();
            Err(c)
        }
    }
}

fn lane(sh: &Shared, lane_id: usize) {
    let mut worker: Option<Worker> = None;
    loop {
        if sh.stop.load(Ordering::SeqCst) {
            break;
        }
        let Some(task) = sh.queue.lock().unwrap().pop_front() else { break };
        if worker.is_none() {
            worker = Some(Worker::spawn(&sh.tmp, &format!("lane{lane_id}")));
            sh.results.lock().unwrap().children += 1;
        }
        let w = worker.as_mut().unwrap();
        if let Some(s) = task.seed {
            w.send_seed(&sh.seeds[s]);
        }
        match w.run(&task) {
            Ok(lines) => merge_lines(&mut sh.results.lock().unwrap(), &task, &lines),
            Err(cause) => {
                let w = worker.take().unwrap();
                let (tid, idx) = read_progress(&w.progress_path);
                w.discard();
                assert!(
                    tid == task.id && idx >= task.start && idx < task.end,
                    "worker died outside of a case (task {tid} idx {idx}, expected task {}): {cause}",
                    task.id
                );
                // determinism: the same input alone in a fresh child must die the same way
                let again = run_single(&sh.tmp, sh.seeds, &task, idx);
                let mut res = sh.results.lock().unwrap();
                res.children += 1;
                res.deaths += 1;
                match again {
                    Err(c2) => {
                        assert_eq!(
                            cause.split(' ').next(),
                            c2.split(' ').next(),
                            "child death is not deterministic: first '{cause}', alone '{c2}'"
                        );
                        res.fails.push(CaseFail {
                            dec: task.dec,
                            seed: task.seed,
                            spec: task.spec.clone(),
                            idx,
                            stage: "abort".into(),
                            msg: c2,
                        });
                        *res.hist.entry((task.dec.name().to_string(), Fam::kind(&task.spec).to_string(), "FAIL:abort".into())).or_insert(0) += 1;
                    }
                    Ok(_) => panic!(
                        "child death is not deterministic: {} case {idx} of {} killed the worker ({cause}) but completes when run alone",
                        task.dec.name(),
                        task.spec
                    ),
                }
                if res.deaths >= MAX_DEATHS {
                    res.death_cap_hit = true;
                    sh.stop.store(true, Ordering::SeqCst);
                }
                drop(res);
                // re-queue the rest of the task around the fatal case
                let mut q = sh.queue.lock().unwrap();
                if idx + 1 < task.end {
                    q.push_front(Task { id: sh.next_id.fetch_add(1, Ordering::SeqCst), start: idx + 1, ..task.clone() });
                }
                if task.start < idx {
                    q.push_front(Task { id: sh.next_id.fetch_add(1, Ordering::SeqCst), end: idx, ..task.clone() });
                }
            }
        }
    }
    if let Some(w) = worker {
        w.finish();
    }
}

fn run_tasks(seeds: &[Seed], tasks: Vec<Task>, tmp: &Path) -> Results {
    let next = tasks.iter().map(|t| t.id).max().unwrap_or(0) + 1;
    let sh = Shared {
        seeds,
        queue: Mutex::new(tasks.into()),
        results: Mutex::new(Results::default()),
        next_id: AtomicU64::new(next),
        tmp: tmp.to_path_buf(),
        stop: AtomicBool::new(false),
    };
    std::thread::scope(|s| {
        let hs: Vec<_> = (0..LANES).map(|i| { let sh = &sh; s.spawn(move || lane(sh, i)) }).collect();
        for h in hs {
            if let Err(e) = h.join() {
                std::panic::resume_unwind(e);
            }
        }
    });
    sh.results.into_inner().unwrap()
}

/// estimated cost of one case, to size the tasks
fn est_ns(dec: Dec, seed_len: usize) -> u64 {
    match dec {
        Dec::Proof | Dec::ProofSer => 1_200_000,
        _ => 400 + 25 * seed_len as u64,
    }
}

struct Planner {
    tasks: Vec<Task>,
    planned: BTreeMap<String, u64>,
}

impl Planner {
    fn add(&mut self, dec: Dec, seed: Option<&Seed>, spec: String) -> u64 {
        let len = seed.map(|s| s.bytes.len()).unwrap_or(0);
        let fam = Fam::parse(&spec, len);
        let n = fam.count();
        let per = if matches!(fam, Fam::Nest { .. }) { 1 } else { (150_000_000 / est_ns(dec, len)).clamp(8, 400_000) };
        let mut a = 0;
        while a < n {
            let b = (a + per).min(n);
            let id = self.tasks.len() as u64 + 1;
            self.tasks.push(Task { id, dec, seed: seed.map(|s| s.id), spec: spec.clone(), start: a, end: b });
            a = b;
        }
        *self.planned.entry(Fam::kind(&spec).to_string()).or_insert(0) += n;
        n
    }
}

/// number of distinct, non-identity mutants among the per-seed families (a mutant is identified by
/// its resulting length and the set of (offset, byte) positions where it differs from the seed)
fn distinct_mutants(seed: &[u8], specs: &[String]) -> u64 {
    let mut set: HashSet<Vec<(u32, u8)>> = HashSet::new();
    let mut n = 0u64;
    for spec in specs {
        let fam = Fam::parse(spec, seed.len());
        match &fam {
            Fam::Trunc { lens } => n += lens.len() as u64,
            Fam::Raw => {}
            Fam::Flip1 { bits } => {
                for &b in bits {
                    let o = b as usize / 8;
                    set.insert(vec![(o as u32, seed[o] ^ (1 << (b % 8)))]);
                }
            }
            Fam::Flip2 { pairs } => {
                for &(i, j) in pairs {
                    let (oi, oj) = (i as usize / 8, j as usize / 8);
                    if oi == oj {
                        set.insert(vec![(oi as u32, seed[oi] ^ (1 << (i % 8)) ^ (1 << (j % 8)))]);
                    } else {
                        set.insert(vec![(oi as u32, seed[oi] ^ (1 << (i % 8))), (oj as u32, seed[oj] ^ (1 << (j % 8)))]);
                    }
                }
            }
            Fam::Field { offs } => {
                for idx in 0..fam.count() {
                    let (o, window) = Fam::field_window(seed, offs, idx);
                    let diff: Vec<(u32, u8)> = window
                        .iter()
                        .enumerate()
                        .filter(|(k, b)| seed[o + k] != **b)
                        .map(|(k, b)| ((o + k) as u32, *b))
                        .collect();
                    if !diff.is_empty() {
                        set.insert(diff);
                    }
                }
            }
            _ => {}
        }
    }
    n + set.len() as u64
}

impl Fam {
    /// offset and new content of the window [o, min(o+w, len)) of a field mutant
    fn field_window(seed: &[u8], offs: &[u32], idx: u64) -> (usize, Vec<u8>) {
        let (o, w, vi) = Fam::field_case(offs, idx);
        let hi = (o + w).min(seed.len());
        let mut cur = 0u64;
        for k in o..hi {
            cur |= (seed[k] as u64) << (8 * (k - o));
        }
        let max = (1u64 << (8 * w)) - 1;
        let new = match vi {
            0 => 0,
            1 => 1,
            2 => cur.wrapping_sub(1) & max,
            3 => cur.wrapping_add(1) & max,
            _ => max,
        };
        (o, (o..hi).map(|k| (new >> (8 * (k - o))) as u8).collect())
    }
}

// SIGNATURES, REPORTING
// ================================================================================================

/// panic site: the message with numbers blanked (they vary with the input) + file:line
fn norm_panic(msg: &str) -> String {
    let s = guard::short_panic(msg);
    match s.rfind(" @ ") {
        Some(i) => {
            let (m, loc) = s.split_at(i);
            // locations inside the standard library carry the toolchain's commit hash
            let loc = match (loc.find("/rustc/"), loc.find("/library/")) {
                (Some(a), Some(b)) if a < b => format!("{}rustc:{}", &loc[..a], &loc[b + 1..]),
                // `<anywhere>/<crate dir>/src/...` → `<crate dir>/src/...`, so that the site does not
                // depend on where the checkout of cf/miden-vm lives (check_at uses scratch worktrees)
                _ => match loc.find("/src/") {
                    Some(i) => {
                        let start = loc[..i].rfind('/').map(|j| j + 1).unwrap_or(3);
                        format!(" @ {}", &loc[start.max(3)..])
                    }
                    None => loc.to_string(),
                },
            };
            let mut out = String::new();
            let mut in_num = false;
            let mut in_quote = false;
            for c in m.chars() {
                // quoted input fragments and numbers vary with the input
                if c == '`' {
                    in_quote = !in_quote;
                    if in_quote {
                        out.push_str("`..`");
                    }
                    continue;
                }
                if in_quote {
                    continue;
                }
                if c.is_ascii_digit() {
                    if !in_num {
                        out.push('#');
                    }
                    in_num = true;
                } else {
                    in_num = false;
                    out.push(c);
                }
            }
            format!("{out}{loc}")
        }
        None => s,
    }
}

fn signature_of(dec: Dec, stage: &str, msg: &str) -> Value {
    if stage.ends_with("_panic") {
        json!({"kind": "decoder_panic", "decoder": dec.name(), "stage": stage.trim_end_matches("_panic"), "panic": norm_panic(msg)})
    } else if stage == "abort" {
        json!({"kind": "decoder_abort", "decoder": dec.name(), "cause": msg.split(' ').next().unwrap_or("")})
    } else {
        json!({"kind": "roundtrip", "decoder": dec.name(), "stage": stage})
    }
}

fn case_json(seeds: &[Seed], dec: Dec, seed: Option<usize>, spec: &str, idx: u64) -> (Value, String, Vec<u8>) {
    let empty = Arc::new(vec![]);
    let sbytes = seed.map(|s| seeds[s].bytes.clone()).unwrap_or(empty);
    let fam = Fam::parse(spec, sbytes.len());
    let bytes = fam.bytes(&sbytes, idx);
    let stack_mib = decode_stack_for(spec) >> 20;
    let what = format!(
        "{}{}{}",
        fam.describe(idx),
        seed.map(|s| format!(" of seed '{}' ({} bytes)", seeds[s].name, sbytes.len())).unwrap_or_default(),
        if matches!(fam, Fam::Nest { .. }) { format!(", decoded on a thread with a {stack_mib} MiB stack") } else { String::new() }
    );
    let mut case = json!({
        "kind": "bytes",
        "decoder": dec.name(),
        "family": spec,
        "index": idx,
        "mutation": what,
        "len": bytes.len(),
        "stack_mib": stack_mib,
        "bytes_hex": hex(&bytes),
    });
    if let Some(s) = seed {
        case["seed"] = json!(seeds[s].name);
        if let Some(c) = &seeds[s].pctx {
            case["proof_ctx"] = json!({"program_info": hex(&c[0]), "stack_inputs": hex(&c[1]), "stack_outputs": hex(&c[2])});
        }
    }
    (case, what, bytes)
}

fn preview(bytes: &[u8]) -> String {
    if bytes.len() <= 40 {
        hex(bytes)
    } else {
        format!("{}…{} ({} bytes)", hex(&bytes[..24]), hex(&bytes[bytes.len() - 12..]), bytes.len())
    }
}

fn report_fails(ctx: &Ctx, seeds: &[Seed], fails: &mut Vec<CaseFail>) {
    fails.sort_by(|a, b| (a.dec, a.seed, &a.spec, a.idx).cmp(&(b.dec, b.seed, &b.spec, b.idx)));
    let mut per_sig: HashMap<String, u64> = HashMap::new();
    for f in fails.iter() {
        let sig = signature_of(f.dec, &f.stage, &f.msg);
        let n = per_sig.entry(sig.to_string()).or_insert(0);
        *n += 1;
        if *n > MAX_LISTED_PER_SIGNATURE {
            ctx.count("failing_cases_not_listed_individually", 1);
            continue;
        }
        let (case, what, bytes) = case_json(seeds, f.dec, f.seed, &f.spec, f.idx);
        let shown = if f.stage.ends_with("_panic") { guard::short_panic(&f.msg) } else { f.msg.clone() };
        ctx.fail(sig, format!("{}: {} -> {}: {} [input {}]", f.dec.name(), what, f.stage, shown, preview(&bytes)), case);
    }
}

// FIELD-ELEMENT VALIDATION OF THE INTEGER CONSTRUCTORS
// ================================================================================================

fn felt_case(ctx: &Ctx, api: &str, stack: &[u64], overflow: &[u64], expect_ok: bool) -> &'static str {
    let (s, o) = (stack.to_vec(), overflow.to_vec());
    let r: Result<bool, String> = match api {
        "StackInputs::try_from_values" => guard::catch(|| StackInputs::try_from_values(s).is_ok()),
        "AdviceInputs::with_stack_values" => guard::catch(|| AdviceInputs::default().with_stack_values(s).is_ok()),
        "StackOutputs::new" => guard::catch(|| StackOutputs::new(s, o).is_ok()),
        _ => panic!("unknown api {api}"),
    };
    let case = json!({"kind": "felt", "api": api, "stack": stack, "overflow_addrs": overflow, "expect_ok": expect_ok});
    match r {
        Err(p) => {
            ctx.fail(json!({"kind": "constructor_panic", "api": api, "panic": norm_panic(&p)}), format!("{api} panicked: {}", guard::short_panic(&p)), case);
            "panic"
        }
        Ok(ok) if ok == expect_ok => {
            if ok {
                "accepted_canonical"
            } else {
                "rejected_noncanonical"
            }
        }
        Ok(true) => {
            ctx.fail(json!({"kind": "noncanonical_accepted", "api": api}), format!("{api} accepted a value >= p: stack {stack:?} overflow {overflow:?}"), case);
            "accepted_noncanonical"
        }
        Ok(false) => {
            ctx.fail(json!({"kind": "canonical_rejected", "api": api}), format!("{api} rejected canonical values: stack {stack:?} overflow {overflow:?}"), case);
            "rejected_canonical"
        }
    }
}

fn felt_checks(ctx: &Ctx) -> (u64, BTreeMap<String, u64>) {
    let mut hist: BTreeMap<String, u64> = BTreeMap::new();
    let mut n = 0;
    for api in ["StackInputs::try_from_values", "AdviceInputs::with_stack_values", "StackOutputs::new"] {
        for len in [1usize, 16, 17, 40] {
            let base: Vec<u64> = (0..len as u64).map(|i| i + 1).collect();
            let ov: Vec<u64> = if api == "StackOutputs::new" && len > 16 { (0..(len + 1 - 16) as u64).collect() } else { vec![] };
            let positions = len + ov.len();
            for pos in 0..positions {
                for (v, ok) in [(P - 1, true), (P, false), (P + 1, false), (u64::MAX, false)] {
                    let (mut s, mut o) = (base.clone(), ov.clone());
                    if pos < len {
                        s[pos] = v;
                    } else {
                        o[pos - len] = v;
                    }
                    let class = felt_case(ctx, api, &s, &o, ok);
                    *hist.entry(format!("{api}:{class}")).or_insert(0) += 1;
                    n += 1;
                }
            }
        }
    }
    (n, hist)
}

// ENTRY POINT
// ================================================================================================

fn tmp_dir(ctx: &Ctx) -> PathBuf {
    let d = ctx.root.join("target").join(format!("c19-tmp-{}", std::process::id()));
    std::fs::create_dir_all(&d).expect("create scratch directory for progress cells");
    d
}

fn replay_case(ctx: &Ctx, case: &Value) -> i32 {
    if case["kind"] == "felt" {
        let arr = |k: &str| -> Vec<u64> { case[k].as_array().map(|a| a.iter().map(|x| x.as_u64().unwrap()).collect()).unwrap_or_default() };
        let api = case["api"].as_str().unwrap();
        let expect = case["expect_ok"].as_bool().unwrap();
        let class = felt_case(ctx, api, &arr("stack"), &arr("overflow_addrs"), expect);
        println!("{api}: observed {class}; expected {}", if expect { "Ok (all values < p)" } else { "Err (a value >= p is present)" });
        return ctx.finish("fault_enumeration", json!({}), &[]);
    }
    let dec = Dec::from_name(case["decoder"].as_str().expect("decoder"));
    let bytes = unhex(case["bytes_hex"].as_str().expect("bytes_hex"));
    let pctx = case.get("proof_ctx").filter(|v| v.is_object()).map(|c| {
        [
            unhex(c["program_info"].as_str().unwrap()),
            unhex(c["stack_inputs"].as_str().unwrap()),
            unhex(c["stack_outputs"].as_str().unwrap()),
        ]
    });
    println!("decoder {}: input of {} bytes: {}", dec.name(), bytes.len(), preview(&bytes));
    if let Some(m) = case["mutation"].as_str() {
        println!("  ({m})");
    }
    let seeds = vec![Seed { id: 0, name: "replay input".into(), dec, bytes: Arc::new(bytes), pctx, located: vec![] }];
    let tmp = tmp_dir(ctx);
    let stack_mib = case["stack_mib"].as_u64().unwrap_or((DECODE_STACK >> 20) as u64);
    let task = Task { id: 0, dec, seed: Some(0), spec: format!("raw:{stack_mib}"), start: 0, end: 1 };
    let r = run_single(&tmp, &seeds, &task, 0);
    let _ = std::fs::remove_dir_all(&tmp);
    println!("expected: an Err or an Ok value that re-encodes and decodes to an equal value; no panic, abort or stack overflow (decoded in a child process on a thread with a {stack_mib} MiB stack)");
    let mut fails = vec![];
    match r {
        Err(cause) => {
            println!("observed: the child process died: {cause}");
            fails.push(CaseFail { dec, seed: Some(0), spec: task.spec.clone(), idx: 0, stage: "abort".into(), msg: cause });
        }
        Ok(lines) => {
            let mut res = Results::default();
            merge_lines(&mut res, &task, &lines);
            for ((_, _, class), _) in &res.hist {
                println!("observed: outcome class {class}");
            }
            for f in &res.fails {
                println!("observed: {} -> {}", f.stage, if f.stage.ends_with("_panic") { guard::short_panic(&f.msg) } else { f.msg.clone() });
            }
            fails = res.fails;
        }
    }
    report_fails(ctx, &seeds, &mut fails);
    ctx.finish("fault_enumeration", json!({}), &[])
}

pub fn run(ctx: &Ctx, replay: Option<&Value>) -> i32 {
    if std::env::var(WORKER_ENV).as_deref() == Ok("1") {
        return worker_main();
    }
    if let Some(case) = replay {
        return replay_case(ctx, case);
    }
    let thorough = ctx.tier == Tier::Thorough;
    let t0 = Instant::now();
    let seeds = build_seeds();
    let seed_time = t0.elapsed().as_secs_f64();

    // ----- plan the space --------------------------------------------------------------------
    let mut plan = Planner { tasks: vec![], planned: BTreeMap::new() };
    let mut distinct_nontrivial = 0u64;
    // (a) short strings
    for dec in Dec::ALL {
        let n = plan.add(dec, None, "all:2".into());
        distinct_nontrivial += n - 1;
        if thorough && dec.small() {
            distinct_nontrivial += plan.add(dec, None, "exact:3".into());
        }
    }
    // (b) seeds
    let mut seed_table = vec![];
    for s in &seeds {
        let len = s.bytes.len();
        let big = len > 8192;
        let mut specs: Vec<String> = vec!["raw".into()];
        // crafted inputs are points of their own family (strings around the length limits): observed as
        // they are, without the mutation families
        let crafted = s.name.starts_with("crafted:");
        if crafted {
        } else if !big {
            specs.push("flip1:all".into());
            specs.push("trunc:all".into());
            specs.push("field:all".into());
        } else {
            // (flip stride, truncation stride, head bytes, tail bytes); flip stride 0 = every bit.
            // The Deserializable layout repeats the first proof, so it gets the lighter selection.
            let (fstride, tstride, head, tail) = match (s.dec, thorough) {
                (Dec::Proof, false) => (1, 31, 256, 64),
                (Dec::Proof, true) => (0, 1, 256, 64),
                (Dec::ProofSer, false) => (8, 251, 256, 64),
                (Dec::ProofSer, true) => (0, 1, 256, 64),
                (_, false) => (32, 1021, 256, 64),
                (_, true) => (1, 61, 256, 64),
            };
            if fstride == 0 {
                specs.push("flip1:all".into());
            } else {
                specs.push(format!("flip1:ht:256:64:{fstride}"));
            }
            specs.push(format!("trunc:ht:512:64:{tstride}"));
            let mut offs: Vec<u32> = ht_positions(len, head, tail);
            offs.extend(s.located.iter().copied());
            offs.sort_unstable();
            offs.dedup();
            specs.push(format!("field:at:{}", offs.iter().map(|o| o.to_string()).collect::<Vec<_>>().join(",")));
        }
        if thorough && !crafted {
            specs.push("flip2:32".into());
        }
        let mut cases = 0;
        for spec in &specs {
            cases += plan.add(s.dec, Some(s), spec.clone());
        }
        let d = distinct_mutants(&s.bytes, &specs);
        distinct_nontrivial += d;
        seed_table.push(json!({"seed": s.name, "decoder": s.dec.name(), "bytes": len, "cases": cases, "distinct_mutants": d,
            "families": specs.iter().map(|x| if x.len() > 60 { format!("{}…", &x[..60]) } else { x.clone() }).collect::<Vec<_>>(),
            "located_length_fields": s.located.len()}));
    }
    // (c) nesting bombs
    // on a thread with Rust's default stack for spawned threads (2 MiB) and with the default
    // main-thread stack of a Linux process (8 MiB)
    for mib in NEST_STACKS_MIB {
        distinct_nontrivial += plan.add(Dec::ProgramAst, None, format!("nest:0:{mib}"));
        distinct_nontrivial += plan.add(Dec::ModuleAst, None, format!("nest:1:{mib}"));
    }

    // expensive tasks first, so that the lanes finish together
    let cost = |t: &Task| -> u64 {
        let len = t.seed.map(|s| seeds[s].bytes.len()).unwrap_or(0);
        (t.end - t.start) * est_ns(t.dec, len) + if t.spec.starts_with("nest") { 1 << 40 } else { 0 }
    };
    let mut tasks = std::mem::take(&mut plan.tasks);
    tasks.sort_by_key(|t| std::cmp::Reverse(cost(t)));
    let planned_total: u64 = plan.planned.values().sum();
    let n_tasks = tasks.len();

    // ----- machinery determinism: the 257 shortest strings of every decoder, twice ------------
    let tmp = tmp_dir(ctx);
    let det_tasks = |base: u64| -> Vec<Task> {
        Dec::ALL.iter().enumerate().map(|(i, d)| Task { id: base + i as u64, dec: *d, seed: None, spec: "all:1".into(), start: 0, end: 257 }).collect()
    };
    let d1 = run_tasks(&seeds, det_tasks(1), &tmp);
    let d2 = run_tasks(&seeds, det_tasks(1), &tmp);
    assert!(d1.hist == d2.hist && d1.fails.len() == d2.fails.len(), "C19 machinery is not deterministic");

    // ----- run ------------------------------------------------------------------------------
    let plan_time = t0.elapsed().as_secs_f64();
    let mut res = run_tasks(&seeds, tasks, &tmp);
    let run_time = t0.elapsed().as_secs_f64() - plan_time;
    let _ = std::fs::remove_dir_all(&tmp);
    let evaluated: u64 = res.hist.values().sum();
    if res.death_cap_hit {
        ctx.fail(
            json!({"kind": "too_many_aborts"}),
            format!("{} inputs killed their worker process; the sweep was stopped after {MAX_DEATHS} deaths", res.deaths),
            json!({"kind": "note", "note": "see the individual decoder_abort failures"}),
        );
    } else {
        assert_eq!(evaluated, planned_total, "C19: number of evaluated cases differs from the planned space");
    }
    report_fails(ctx, &seeds, &mut res.fails);

    // (d) integer constructors
    let (felt_n, felt_hist) = felt_checks(ctx);

    // ----- evidence -------------------------------------------------------------------------
    let mut by_dec: BTreeMap<String, BTreeMap<String, u64>> = BTreeMap::new();
    let mut by_fam: BTreeMap<String, u64> = BTreeMap::new();
    let mut accepted_mutants = 0u64;
    for ((d, f, c), n) in &res.hist {
        *by_dec.entry(d.clone()).or_default().entry(c.clone()).or_insert(0) += n;
        *by_fam.entry(f.clone()).or_insert(0) += n;
        if c.starts_with("ok") && f != "raw" {
            accepted_mutants += n;
        }
    }
    // a few written-out cases: one per (decoder, family) pair of a fixed, varied list
    res.samples.sort_by(|a, b| (a.0, a.1, &a.2, a.3).cmp(&(b.0, b.1, &b.2, b.3)));
    let wanted = [
        (Dec::ProgramAst, "nest"),
        (Dec::ModuleAst, "field"),
        (Dec::Masl, "flip1"),
        (Dec::Proof, "flip1"),
        (Dec::Kernel, "all"),
        (Dec::StackOutputs, "trunc"),
        (Dec::LibraryPath, "raw"),
        (Dec::StackInputs, "field"),
    ];
    for (d, k) in wanted {
        let matching: Vec<_> = res.samples.iter().filter(|x| x.0 == d && Fam::kind(&x.2) == k).collect();
        if let Some((dec, seed, spec, idx, class)) = matching.get(matching.len() / 2) {
            let (_, what, bytes) = case_json(&seeds, *dec, *seed, spec, *idx);
            ctx.sample(json!({"decoder": dec.name(), "input": what, "bytes": preview(&bytes), "outcome": class}));
        }
    }
    let cov = json!({
        "evaluations": evaluated + felt_n,
        "distinct_nontrivial": distinct_nontrivial + felt_n,
        "rule": "case = (decoder, input bytes). Enumerated strings are distinct by construction and non-trivial if non-empty; a seed mutant is identified by its length and the set of (offset, byte) positions where it differs from the seed, duplicates across the flip/field families and identity mutants are not counted; every nesting bomb and every (constructor, length, position, value) tuple is distinct",
        "exhaustive": !res.death_cap_hit,
        "decoders": Dec::ALL.iter().map(|d| d.name()).collect::<Vec<_>>(),
        "byte_strings_up_to_len_2_per_decoder": 65_793,
        "all_3_byte_strings_for_small_decoders": thorough,
        "seeds": seed_table,
        "planned_cases_per_family": plan.planned,
        "evaluated_cases_per_family": by_fam,
        "outcomes_per_decoder": by_dec,
        "accepted_mutants_round_tripped": accepted_mutants,
        "integer_constructor_cases": felt_n,
        "integer_constructor_outcomes": felt_hist,
        "nest_depths": NEST_DEPTHS,
        "field_mutation": "every selected offset as u8/u16/u32 little-endian set to 0, 1, v-1, v+1, max",
        "big_seed_selection": "seeds > 8 KiB (the exact sets are in seeds[].families): flips = all bits of the first 256 and last 64 bytes + bits 0 and 7 of every stride-th byte (quick: stride 1 for the two proofs, 8 for the proof in the Deserializable layout, 32 for the stdlib library; thorough: every bit of all three proofs seeds, bits 0 and 7 of every byte of the stdlib library); truncations = first 512 / last 64 lengths + stride; field offsets = first 256 / last 64 bytes + all structurally located length fields",
        "pairs_of_bit_flips_first_32_bytes": thorough,
        "worker_busy_seconds_per_decoder_and_family": res.micros.iter().map(|((d, f), us)| (format!("{d}/{f}"), json!((*us as f64 / 1e4).round() / 100.0))).collect::<serde_json::Map<String, Value>>(),
        "nest_bomb_stacks_mib": NEST_STACKS_MIB,
        "slowest_case": json!({"seconds": res.slowest.0 as f64 / 1e6, "case": res.slowest.1}),
        "children_spawned": res.children,
        "inputs_that_killed_a_child": res.deaths,
        "tasks": n_tasks,
        "decode_thread_stack_bytes": DECODE_STACK,
        "seed_build_seconds": (seed_time * 100.0).round() / 100.0,
        "plan_and_determinism_pass_seconds": ((plan_time - seed_time) * 100.0).round() / 100.0,
        "sweep_seconds": (run_time * 100.0).round() / 100.0,
        "profile": if cfg!(debug_assertions) { "checked (debug-assertions, overflow-checks)" } else { "release" },
    });
    ctx.finish("fault_enumeration", cov, &[
        "decoding runs on a thread with an 8 MiB stack inside a child process; a death is attributed to the input published in the shared progress cell and confirmed by re-running that input alone",
        "a proof is verified against the honest statement of its seed only; acceptance of a mutated proof is not judged here (C02)",
        "equality is the types' PartialEq (for ASTs it ignores source locations absent on one side); StackInputs are compared by value list",
        "seeds are a fixed, stated list; other valid encodings are not covered",
    ])
}
