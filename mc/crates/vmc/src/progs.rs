//! Program families shared by the trace-level checks (C01, C03, C08, C12, C13, C14).
//! A grammar with explicit size parameters; every family is finite and enumerated completely.
//!
//! atoms  : one or more stack-neutral representatives per assembly instruction family (with the
//!          operands they need pushed first), tagged with the trace components they touch;
//! frames : control-flow contexts an atom is placed in;
//! regimes: stack-input depths / output depths.

use vm_core::crypto::merkle::{MerkleStore, MerkleTree};
use vm_core::{Felt, Word};

#[derive(Clone, Debug)]
pub struct ProgCase {
    pub name: String,
    pub src: String,
    pub kernel: Option<String>,
    /// initial stack, top first
    pub stack: Vec<u64>,
    pub advice: Vec<u64>,
    /// Merkle tree leaves to be put into the advice provider's store (empty = none)
    pub merkle_leaves: Vec<[u64; 4]>,
    pub tags: Vec<&'static str>,
}

impl ProgCase {
    pub fn advice_inputs(&self) -> processor::AdviceInputs {
        let mut adv = processor::AdviceInputs::default().with_stack(self.advice.iter().map(|&x| Felt::new(x)));
        if !self.merkle_leaves.is_empty() {
            let leaves: Vec<Word> = self.merkle_leaves.iter().map(|w| [Felt::new(w[0]), Felt::new(w[1]), Felt::new(w[2]), Felt::new(w[3])]).collect();
            let tree = MerkleTree::new(leaves).expect("merkle tree");
            adv = adv.with_merkle_store(MerkleStore::from(&tree));
        }
        adv
    }
    pub fn assembler(&self) -> assembly::Assembler {
        match &self.kernel {
            Some(k) => crate::common::assembler_with_kernel(k),
            None => crate::common::assembler(),
        }
    }
}

#[derive(Clone, Debug)]
pub struct Atom {
    pub name: &'static str,
    /// stack-neutral instruction sequence (pushes its own operands, drops its results)
    pub code: String,
    pub advice: Vec<u64>,
    pub tags: Vec<&'static str>,
    /// needs procedure locals (only placed in frames that provide them)
    pub locals: bool,
    /// needs the Merkle store
    pub merkle: bool,
    /// only valid inside a kernel procedure
    pub kernel_only: bool,
}

fn atom(name: &'static str, code: &str, tags: &[&'static str]) -> Atom {
    Atom { name, code: code.to_string(), advice: vec![], tags: tags.to_vec(), locals: false, merkle: false, kernel_only: false }
}

pub const MERKLE_LEAVES: [[u64; 4]; 4] = [[1, 2, 3, 4], [5, 6, 7, 8], [9, 10, 11, 12], [13, 14, 15, 16]];

pub fn merkle_root() -> [u64; 4] {
    let leaves: Vec<Word> = MERKLE_LEAVES.iter().map(|w| [Felt::new(w[0]), Felt::new(w[1]), Felt::new(w[2]), Felt::new(w[3])]).collect();
    let tree = MerkleTree::new(leaves).unwrap();
    let r: Word = tree.root().into();
    use vm_core::StarkField;
    [r[0].as_int(), r[1].as_int(), r[2].as_int(), r[3].as_int()]
}

pub fn atoms() -> Vec<Atom> {
    let mut v = vec![];
    // ---- field ----
    for (n, c) in [
        ("add", "push.7 push.5 add drop"), ("add_imm", "push.7 add.5 drop"), ("add_1", "push.7 add.1 drop"), ("sub", "push.7 push.5 sub drop"),
        ("mul", "push.7 push.5 mul drop"), ("mul_imm", "push.7 mul.3 drop"), ("div", "push.7 push.5 div drop"), ("neg", "push.7 neg drop"),
        ("inv", "push.7 inv drop"), ("pow2", "push.13 pow2 drop"), ("exp", "push.3 push.5 exp drop"), ("exp_imm", "push.9 exp.5 drop"),
        ("exp_u8", "push.3 push.200 exp.u8 drop"), ("not", "push.1 not drop"), ("and", "push.1 push.0 and drop"), ("or", "push.1 push.0 or drop"),
        ("xor", "push.1 push.1 xor drop"), ("eq", "push.3 push.3 eq drop"), ("eq_imm", "push.3 eq.4 drop"), ("neq", "push.3 push.4 neq drop"),
        ("eqw", "push.1.2.3.4 push.1.2.3.4 eqw drop dropw dropw"), ("is_odd", "push.7 is_odd drop"),
        ("assert", "push.1 assert"), ("assertz", "push.0 assertz"), ("assert_eq", "push.4 push.4 assert_eq"),
        ("assert_eqw", "push.1.2.3.4 push.1.2.3.4 assert_eqw"), ("assert_err", "push.1 assert.err=77"),
        ("ext2add", "push.1.2.3.4 ext2add drop drop"), ("ext2sub", "push.1.2.3.4 ext2sub drop drop"), ("ext2mul", "push.1.2.3.4 ext2mul drop drop"),
        ("ext2neg", "push.1.2 ext2neg drop drop"),
    ] {
        v.push(atom(n, c, &["stack"]));
    }
    for (n, c) in [
        ("lt", "push.3 push.18446744069414584320 lt drop"), ("lte", "push.3 push.4 lte drop"), ("gt", "push.4294967297 push.4 gt drop"),
        ("gte", "push.3 push.3 gte drop"), ("ilog2", "push.1099511627781 ilog2 drop"), ("ext2inv", "push.5.7 ext2inv drop drop"),
        ("ext2div", "push.1.2.3.4 ext2div drop drop"),
    ] {
        v.push(atom(n, c, &["stack", "range"]));
    }
    // ---- u32 ----
    for (n, c) in [
        ("u32test", "push.4294967296 u32test drop drop"), ("u32testw", "push.1.2.3.4294967296 u32testw drop dropw"),
        ("u32assert", "push.5 u32assert drop"), ("u32assert2", "push.5.6 u32assert2 drop drop"), ("u32assertw", "push.1.2.3.4 u32assertw dropw"),
        ("u32cast", "push.18446744069414584320 u32cast drop"), ("u32split", "push.18446744069414584320 u32split drop drop"),
        ("u32overflowing_add", "push.4000000000 push.123456789 u32overflowing_add drop drop"), ("u32wrapping_add", "push.4000000000 push.300000000 u32wrapping_add drop"),
        ("u32wrapping_add_imm", "push.4000000000 u32wrapping_add.7 drop"), ("u32overflowing_add3", "push.4000000000.4000000001.4000000002 u32overflowing_add3 drop drop"),
        ("u32wrapping_add3", "push.1.2.3 u32wrapping_add3 drop"), ("u32overflowing_sub", "push.5 push.70000 u32overflowing_sub drop drop"),
        ("u32wrapping_sub", "push.70000 push.5 u32wrapping_sub drop"), ("u32overflowing_mul", "push.65537 push.65539 u32overflowing_mul drop drop"),
        ("u32wrapping_mul", "push.65537 push.3 u32wrapping_mul drop"), ("u32overflowing_madd", "push.7 push.65537 push.65539 u32overflowing_madd drop drop"),
        ("u32wrapping_madd", "push.7 push.6 push.5 u32wrapping_madd drop"), ("u32div", "push.4000000000 push.7 u32div drop"), ("u32div_imm", "push.4000000000 u32div.3 drop"),
        ("u32mod", "push.4000000000 push.7 u32mod drop"), ("u32divmod", "push.4000000000 push.65537 u32divmod drop drop"),
        ("u32shl", "push.65537 push.5 u32shl drop"), ("u32shl_imm", "push.65537 u32shl.5 drop"), ("u32shr", "push.4000000000 push.5 u32shr drop"),
        ("u32shr_imm", "push.4000000000 u32shr.9 drop"), ("u32rotl", "push.4000000000 push.5 u32rotl drop"), ("u32rotr", "push.4000000000 push.5 u32rotr drop"),
        ("u32rotr_imm", "push.4000000000 u32rotr.31 drop"), ("u32popcnt", "push.4000000000 u32popcnt drop"), ("u32clz", "push.70000 u32clz drop"),
        ("u32ctz", "push.70000 u32ctz drop"), ("u32clo", "push.4294900000 u32clo drop"), ("u32cto", "push.70655 u32cto drop"),
        ("u32lt", "push.5.6 u32lt drop"), ("u32lte", "push.5.6 u32lte drop"), ("u32gt", "push.5.6 u32gt drop"), ("u32gte", "push.5.6 u32gte drop"),
        ("u32min", "push.5.6 u32min drop"), ("u32max", "push.4000000000.6 u32max drop"), ("u32not", "push.70000 u32not drop"),
    ] {
        v.push(atom(n, c, &["stack", "range"]));
    }
    for (n, c) in [
        ("u32and", "push.4000000000 push.123456789 u32and drop"), ("u32or", "push.4000000000 push.123456789 u32or drop"),
        ("u32xor", "push.4000000000 push.123456789 u32xor drop"), ("u32and_x2", "push.255 push.15 u32and push.4294967295 u32xor drop"),
    ] {
        v.push(atom(n, c, &["stack", "bitwise"]));
    }
    // ---- stack manipulation ----
    for (n, c) in [
        ("drop", "push.1 drop"), ("dropw", "padw dropw"), ("padw", "padw dropw"), ("dup0", "dup drop"), ("dup7", "dup.7 drop"), ("dup15", "dup.15 drop"),
        ("dupw0", "dupw dropw"), ("dupw3", "dupw.3 dropw"), ("swap", "swap swap"), ("swap9", "swap.9 swap.9"), ("swap15", "swap.15 swap.15"),
        ("swapw", "swapw swapw"), ("swapw2", "swapw.2 swapw.2"), ("swapw3", "swapw.3 swapw.3"), ("swapdw", "swapdw swapdw"),
        ("movup2", "movup.2 movdn.2"), ("movup8", "movup.8 movdn.8"), ("movup9", "movup.9 movdn.9"), ("movup15", "movup.15 movdn.15"),
        ("movupw2", "movupw.2 movdnw.2"), ("movupw3", "movupw.3 movdnw.3"), ("cswap0", "push.0 cswap"), ("cswap1", "push.1 cswap push.1 cswap"),
        ("cswapw", "push.1 cswapw push.1 cswapw"), ("cdrop", "push.5.6 push.1 cdrop drop"), ("cdropw", "padw padw push.0 cdropw dropw"),
        ("push1", "push.1 drop"), ("push0", "push.0 drop"), ("pushbig", "push.18446744069414584320 drop"), ("push4", "push.1.2.3.4 dropw"),
        ("push16", "push.1.2.3.4.5.6.7.8.9.10.11.12.13.14.15.16 dropw dropw dropw dropw"), ("sdepth", "sdepth drop"), ("clk", "clk drop"),
        ("emit", "push.1 emit.1 drop"), ("trace", "push.1 trace.2 drop"), ("debug", "push.1 debug.stack drop"),
    ] {
        v.push(atom(n, c, &["stack"]));
    }
    // ---- memory ----
    for (n, c) in [
        ("mem_store", "push.9 push.100 mem_store"), ("mem_store_imm", "push.9 mem_store.100"), ("mem_load", "push.100 mem_load drop"),
        ("mem_load_imm", "mem_load.100 drop"), ("mem_storew", "push.1.2.3.4 push.101 mem_storew dropw"), ("mem_storew_imm", "push.1.2.3.4 mem_storew.101 dropw"),
        ("mem_loadw", "padw push.101 mem_loadw dropw"), ("mem_loadw_imm", "padw mem_loadw.101 dropw"), ("mem_rw", "push.9 mem_store.7 mem_load.7 drop mem_load.8 drop"),
        ("mem_rww", "push.9 mem_store.7 push.8 mem_store.7 mem_load.7 drop"), ("mem_far", "push.9 mem_store.4294967295 mem_load.0 drop mem_load.4294967295 drop"),
        ("mem_stream", "push.1.2.3.4 mem_storew.200 dropw push.200 padw padw padw mem_stream dropw dropw dropw drop"),
    ] {
        v.push(atom(n, c, &["stack", "memory", "range"]));
    }
    let mut a = atom("adv_pipe", "push.300 padw padw padw adv_pipe dropw dropw dropw drop", &["stack", "memory", "advice", "range"]);
    a.advice = vec![11, 12, 13, 14, 15, 16, 17, 18];
    v.push(a);
    let mut a = atom("adv_push", "adv_push.3 drop drop drop", &["stack", "advice"]);
    a.advice = vec![21, 22, 23];
    v.push(a);
    // advice-injector decorators whose effect is visible: what they put on the advice stack / into the advice
    // map is read back (a decorator that is dropped - e.g. by debug-mode assembly - makes the read fail)
    v.push(atom("adv_inj_u64div", "push.10 push.0 push.3 push.0 adv.push_u64div adv_push.4 dropw dropw", &["stack", "advice"]));
    v.push(atom(
        "adv_inj_hdword_mapval",
        "push.1.2.3.4 push.5.6.7.8 adv.insert_hdword hmerge adv.push_mapval adv_push.8 dropw dropw dropw",
        &["stack", "advice", "hasher"],
    ));
    let mut a = atom("adv_loadw", "padw adv_loadw dropw", &["stack", "advice"]);
    a.advice = vec![21, 22, 23, 24];
    v.push(a);
    for (n, c) in [
        ("loc_store", "push.5 loc_store.0"), ("loc_load", "push.5 loc_store.1 loc_load.1 drop"), ("loc_storew", "push.1.2.3.4 loc_storew.0 dropw"),
        ("loc_loadw", "push.1.2.3.4 loc_storew.1 dropw padw loc_loadw.1 dropw"), ("locaddr", "locaddr.1 drop"),
    ] {
        let mut a = atom(n, c, &["stack", "memory", "range"]);
        a.locals = true;
        v.push(a);
    }
    // ---- crypto ----
    for (n, c) in [
        ("hperm", "padw padw padw hperm dropw dropw dropw"), ("hash", "push.1.2.3.4 hash dropw"), ("hmerge", "push.1.2.3.4 push.5.6.7.8 hmerge dropw"),
        ("hperm_x2", "push.1.2.3.4 padw padw hperm hperm dropw dropw dropw"),
    ] {
        v.push(atom(n, c, &["stack", "hasher"]));
    }
    let r = merkle_root();
    let root = format!("push.{}.{}.{}.{}", r[0], r[1], r[2], r[3]);
    for (n, c) in [
        ("mtree_get", format!("{root} push.1 push.2 mtree_get dropw dropw")),
        ("mtree_set", format!("push.21.22.23.24 {root} push.2 push.2 mtree_set dropw dropw")),
        ("mtree_verify", format!("{root} push.3 push.2 push.13.14.15.16 mtree_verify dropw drop drop dropw")),
        ("mtree_merge", format!("{root} {root} mtree_merge dropw")),
    ] {
        let mut a = Atom { name: n, code: c, advice: vec![], tags: vec!["stack", "hasher", "advice"], locals: false, merkle: true, kernel_only: false };
        if n == "mtree_merge" {
            a.tags = vec!["stack", "hasher", "advice"];
        }
        v.push(a);
    }
    let mut a = atom("caller", "padw caller dropw", &["stack"]);
    a.kernel_only = true;
    v.push(a);
    v
}

#[derive(Clone, Copy, Debug, PartialEq, Eq)]
pub enum Frame {
    Top,
    IfTrue,
    IfFalse,
    While0,
    While1,
    While2,
    Repeat3,
    Exec0,
    Exec2,
    Call,
    CallCall,
    Syscall,
    DynExec,
    DynCall,
    LongSpan,
    IfInWhile,
    CallInIf,
}

pub const FRAMES: [Frame; 17] = [
    Frame::Top, Frame::IfTrue, Frame::IfFalse, Frame::While0, Frame::While1, Frame::While2, Frame::Repeat3, Frame::Exec0, Frame::Exec2,
    Frame::Call, Frame::CallCall, Frame::Syscall, Frame::DynExec, Frame::DynCall, Frame::LongSpan, Frame::IfInWhile, Frame::CallInIf,
];

fn while_n(n: usize, body: &str) -> String {
    // counter-controlled loop with n iterations; the counter is kept on top of the stack
    format!("push.{n} dup neq.0 while.true {body} push.1 sub dup neq.0 end drop")
}

/// places a stack-neutral atom into a frame; returns (program source, kernel source)
pub fn place(a: &Atom, f: Frame) -> Option<(String, Option<String>)> {
    let code = &a.code;
    let provides_locals = matches!(f, Frame::Exec2);
    if a.locals && !provides_locals {
        return None;
    }
    if a.kernel_only && f != Frame::Syscall {
        return None;
    }
    let r = match f {
        Frame::Top => (format!("begin {code} end"), None),
        Frame::IfTrue => (format!("begin push.1 if.true {code} else push.9 drop end end"), None),
        Frame::IfFalse => (format!("begin push.0 if.true push.9 drop else {code} end end"), None),
        Frame::While0 => (format!("begin {} end", while_n(0, code)), None),
        Frame::While1 => (format!("begin {} end", while_n(1, code)), None),
        Frame::While2 => (format!("begin {} end", while_n(2, code)), None),
        Frame::Repeat3 => (format!("begin repeat.3 {code} end end"), None),
        Frame::Exec0 => (format!("proc.f {code} end begin exec.f end"), None),
        Frame::Exec2 => (format!("proc.f.2 {code} end begin exec.f end"), None),
        Frame::Call => (format!("proc.f {code} end begin call.f end"), None),
        Frame::CallCall => (format!("proc.f {code} end proc.g call.f {code} end begin call.g end"), None),
        Frame::Syscall => (format!("begin syscall.k end"), Some(format!("export.k {code} end"))),
        Frame::DynExec => (format!("proc.f {code} end begin procref.f dynexec dropw end"), None),
        Frame::DynCall => (format!("proc.f {code} end begin procref.f dyncall dropw end"), None),
        Frame::LongSpan => (format!("begin repeat.40 swap end {code} end"), None),
        Frame::IfInWhile => (format!("begin {} end", while_n(2, &format!("dup eq.1 if.true {code} else {code} push.3 drop end"))), None),
        Frame::CallInIf => (format!("proc.f {code} end begin push.1 if.true call.f else push.2 drop end end"), None),
    };
    Some(r)
}

pub fn input_regime(i: usize) -> Vec<u64> {
    let depth = [0usize, 16, 17, 20][i % 4];
    (0..depth).map(|j| 2 + j as u64).collect()
}

/// P1: every atom in every frame; the stack-input regime cycles with the index in the quick tier
/// (every (atom, frame) pair gets one regime) and is the full product in the thorough tier
pub fn p1(full_regimes: bool) -> Vec<ProgCase> {
    let mut out = vec![];
    let mut idx = 0usize;
    for a in atoms() {
        for f in FRAMES {
            let Some((src, kernel)) = place(&a, f) else { continue };
            let regimes: Vec<usize> = if full_regimes { vec![0, 1, 2, 3] } else { vec![idx % 4] };
            for r in regimes {
                out.push(ProgCase {
                    name: format!("{}/{:?}/in{}", a.name, f, [0, 16, 17, 20][r]),
                    src: src.clone(),
                    kernel: kernel.clone(),
                    stack: input_regime(r),
                    // loops / repeats execute the atom several times: supply enough advice
                    advice: (0..4).flat_map(|_| a.advice.clone()).collect(),
                    merkle_leaves: if a.merkle { MERKLE_LEAVES.to_vec() } else { vec![] },
                    tags: a.tags.clone(),
                });
            }
            idx += 1;
        }
    }
    out
}

/// programs whose outputs are deeper than 16 and trace-shape regimes (which component dominates
/// the padded length; component lengths around powers of two)
pub fn shapes() -> Vec<ProgCase> {
    let mut out = vec![];
    let mk = |name: String, src: String, stack: Vec<u64>, tags: Vec<&'static str>| ProgCase { name, src, kernel: None, stack, advice: vec![], merkle_leaves: vec![], tags };
    for extra in [1usize, 3, 5] {
        let pushes: String = (0..extra).map(|i| format!("push.{} ", 40 + i)).collect();
        for r in 0..4 {
            out.push(mk(format!("deep_out/{extra}/in{}", [0, 16, 17, 20][r]), format!("begin {pushes} end"), input_regime(r), vec!["stack", "overflow"]));
        }
        out.push(mk(format!("deep_out_in_call/{extra}"), format!("proc.f push.1 drop end begin {pushes} call.f end"), input_regime(3), vec!["stack", "overflow"]));
    }
    // kernels with more than one procedure (the kernel ROM has a row for every procedure, called or not):
    // all called, one called several times, only the middle one called, none called
    let k2 = "export.k1 push.1 drop end export.k2 push.2 drop end";
    let k3 = "export.k1 push.1 drop end export.k2 push.2 drop end export.k3 push.3 drop end";
    for (name, src, kernel) in [
        ("k2_all", "begin syscall.k1 syscall.k2 syscall.k1 end", k2),
        ("k2_one", "begin syscall.k2 end", k2),
        ("k3_all", "begin syscall.k3 syscall.k1 syscall.k2 syscall.k3 end", k3),
        ("k3_middle", "proc.f syscall.k2 end begin call.f syscall.k2 end", k3),
        ("k3_none", "begin push.1 drop end", k3),
    ] {
        let mut c = mk(format!("kernel_procs/{name}"), src.to_string(), input_regime(2), vec!["stack", "kernel"]);
        c.kernel = Some(kernel.to_string());
        out.push(c);
    }
    // a range-checked u32 operation executed at a cycle whose index is also the row of a memory access: both
    // register their 16-bit lookups for the same row of the range checker's bus (u32 operations and memory
    // accesses interleaved so that some u32 cycle lands on one of at least six consecutive memory rows)
    for (k, body) in [
        "mem_store.0 mem_store.1 mem_load.0 mem_load.1 u32overflowing_add drop mem_store.2 mem_store.3",
        "repeat.6 mem_load.0 push.1000 u32wrapping_add mem_store.0 mem_load.1 mem_load.0 u32overflowing_add drop mem_store.1 end mem_load.1 drop",
        "repeat.6 push.7 mem_store.0 end repeat.60 push.5 u32wrapping_add end drop",
        "repeat.8 push.7 mem_store.1 end repeat.40 push.3 u32wrapping_mul push.9 u32wrapping_add end drop",
    ]
    .iter()
    .enumerate()
    {
        out.push(mk(format!("range_row_collision/{k}"), format!("begin {body} end"), input_regime(2), vec!["stack", "memory", "range"]));
        out.push(mk(format!("range_row_collision_call/{k}"), format!("proc.f {body} end begin call.f end"), input_regime(2), vec!["stack", "memory", "range"]));
    }
    // overflow-table histories that end deeper than 16 after the table shrank and grew again: rows that were
    // popped lie between the surviving rows (the reported overflow addresses must be those of the survivors)
    for (k, body) in [
        "push.1 push.2 drop push.3",
        "push.1 push.2 push.3 drop drop push.4 push.5 drop push.6",
        "push.1 drop push.2 push.3 drop drop push.4 push.5",
        "push.1 push.2 swap drop push.3 dup.1 add push.4",
        "push.1 push.2 push.3 push.4 dropw push.5 push.6 push.7",
    ]
    .iter()
    .enumerate()
    {
        for r in [1usize, 2, 3] {
            out.push(mk(format!("ovf_history/{k}/in{}", [0, 16, 17, 20][r]), format!("begin {body} end"), input_regime(r), vec!["stack", "overflow"]));
        }
        out.push(mk(format!("ovf_history_call/{k}"), format!("proc.f push.1 push.2 drop drop end begin {body} call.f push.9 end"), input_regime(3), vec!["stack", "overflow"]));
    }
    // main-trace dominated: cycle counts around 2^6, 2^7, 2^8 (repeat of 2-cycle bodies)
    for k in [27usize, 28, 29, 30, 31, 32, 58, 59, 60, 61, 62, 63, 64, 122, 123, 124, 125, 126, 127, 128] {
        out.push(mk(format!("main_dominated/{k}"), format!("begin repeat.{k} push.1 drop end end"), vec![], vec!["stack"]));
    }
    // range-checker dominated: many distinct 16-bit limbs
    for k in [10usize, 20, 28, 29, 30, 31, 32, 33, 60, 61, 62, 63, 64, 65] {
        let body: String = (0..k).map(|i| format!("push.{} push.{} u32wrapping_add drop ", 1000 + 777 * i, 50000 + 1313 * i)).collect();
        out.push(mk(format!("range_dominated/{k}"), format!("begin {body} end"), vec![], vec!["stack", "range"]));
    }
    // chiplet dominated: hasher (8 rows per permutation) and memory
    for k in [5usize, 6, 7, 8, 13, 14, 15, 16, 29, 30, 31, 32] {
        out.push(mk(format!("hasher_dominated/{k}"), format!("begin padw padw padw repeat.{k} hperm end dropw dropw dropw end"), vec![], vec!["stack", "hasher"]));
    }
    for k in [20usize, 40, 56, 57, 58, 59, 60, 61, 62, 63, 64] {
        let body: String = (0..k).map(|i| format!("push.{} mem_store.{} ", i + 1, i * 3)).collect();
        out.push(mk(format!("memory_dominated/{k}"), format!("begin {body} end"), vec![], vec!["stack", "memory", "range"]));
    }
    out.extend(regime_search());
    // memory accessed in more than one execution context: the sorted memory trace then has rows where the
    // context changes (first access of the later context a read / a write, of the same / a higher / a
    // lower address than the last row of the earlier context, that row holding zeros or not; callee locals
    // vs absolute addresses; nested calls; a syscall - root-context memory - from a called procedure; dyncall)
    let k5 = "export.k mem_load.5 drop end";
    for (name, src, kernel) in [
        ("read_read", "proc.f mem_load.5 drop end begin mem_load.3 drop call.f end", None),
        ("write_read", "proc.f mem_load.5 drop end begin push.9 mem_store.3 call.f end", None),
        ("zero_write_read_same", "proc.f mem_load.3 drop end begin push.0 mem_store.3 call.f end", None),
        ("read_write", "proc.f push.9 mem_store.5 end begin mem_load.3 drop call.f end", None),
        ("write_write_same", "proc.f push.8 mem_store.3 mem_load.3 drop end begin push.9 mem_store.3 call.f mem_load.3 drop end", None),
        ("read_read_same", "proc.f mem_load.3 drop end begin mem_load.3 drop call.f end", None),
        ("address_decreases", "proc.f mem_load.1 drop end begin mem_load.4294967295 drop call.f end", None),
        ("address_decreases_write", "proc.f push.9 mem_store.0 end begin push.7 mem_store.1000 call.f end", None),
        ("callee_locals", "proc.f.2 loc_load.1 drop push.4 loc_store.0 end begin mem_load.3 drop call.f end", None),
        ("nested", "proc.g mem_load.2 drop end proc.f mem_load.9 drop call.g mem_load.9 drop end begin mem_load.3 drop call.f mem_load.3 drop end", None),
        ("two_callees", "proc.g mem_load.2 drop end proc.f push.6 mem_store.9 end begin call.f call.g call.f end", None),
        ("syscall_from_callee", "proc.f mem_load.7 drop syscall.k end begin mem_load.3 drop call.f end", Some(k5)),
        ("dyncall", "proc.f mem_load.5 drop end begin mem_load.3 drop procref.f dyncall dropw end", None),
        ("word_ops", "proc.f padw mem_loadw.5 dropw push.1.2.3.4 mem_storew.6 dropw end begin push.5.6.7.8 mem_storew.3 dropw call.f padw mem_loadw.3 dropw end", None),
    ] {
        for r in [0usize, 2] {
            let mut c = mk(format!("memctx/{name}/in{}", [0, 16, 17, 20][r]), src.to_string(), input_regime(r), vec!["stack", "memory", "range"]);
            c.kernel = kernel.map(String::from);
            out.push(c);
        }
    }
    for k in [7usize, 8, 15, 16, 17] {
        let body: String = (0..k).map(|i| format!("push.{} push.{} u32and drop ", 4000000000u64 - i as u64, 123456789 + i)).collect();
        out.push(mk(format!("bitwise_dominated/{k}"), format!("begin {body} end"), vec![], vec!["stack", "bitwise"]));
    }
    out
}

/// Trace-regime programs found by a deterministic search: hasher rows in multiples of 8 plus M memory
/// rows, chosen so that the chiplet rows (without the padding row) are exactly 2^j-2, 2^j-1, 2^j, 2^j+1
/// for j = 6, 7, 8 while the chiplets dominate the trace length and the LAST chiplet row is a memory
/// row (no kernel). The search runs the real VM only to read the component lengths.
/// Large traces (2^14 .. 2^17 rows), one per dominating component and one mixing every component in non-root
/// contexts: the families above stay below 2^13 rows. `big` adds the 2^16 / 2^17 members (thorough tiers).
pub fn large(big: bool) -> Vec<ProgCase> {
    let mk = |name: &str, src: String, stack: Vec<u64>, tags: Vec<&'static str>| ProgCase { name: format!("large/{name}"), src, kernel: None, stack, advice: vec![], merkle_leaves: vec![], tags };
    let mut out = vec![];
    let scale = |n: u64| if big { n * 4 } else { n };
    // main-dominated: a counting loop
    out.push(mk("main_loop", format!("begin push.{} push.1 while.true sub.1 dup neq.0 end drop end", scale(2500)), input_regime(1), vec!["stack"]));
    // range-checker heavy: every iteration range-checks the four limbs of a different product
    out.push(mk(
        "range_values",
        format!("begin push.{} push.1 while.true dup push.2654435761 mul u32split u32overflowing_mul drop drop sub.1 dup neq.0 end drop end", scale(1500)),
        input_regime(2),
        vec!["stack", "range"],
    ));
    // hasher-dominated: 8 chiplet rows per cycle
    out.push(mk("hasher", format!("proc.h repeat.100 hperm end end begin repeat.{} exec.h end end", scale(20)), input_regime(3), vec!["stack", "hasher"]));
    // memory heavy, in the root context and in a called context, reading back what was written
    out.push(mk(
        "memory",
        format!(
            "proc.w push.{n} push.1 while.true dup dup mem_store sub.1 dup neq.0 end drop push.{n} push.1 while.true dup mem_load drop sub.1 dup neq.0 end drop end begin exec.w call.w end",
            n = scale(600)
        ),
        input_regime(1),
        vec!["stack", "memory", "range"],
    ));
    // bitwise-dominated: 8 chiplet rows per cycle
    out.push(mk("bitwise", format!("proc.b repeat.100 dup.1 dup.1 u32xor drop dup.1 dup.1 u32and drop end end begin push.4042322160 push.252645135 repeat.{} exec.b end drop drop end", scale(10)), input_regime(2), vec!["stack", "bitwise"]));
    // deep overflow table: the stack grows by thousands of elements and shrinks again
    out.push(mk(
        "overflow",
        format!("begin push.{n} push.1 while.true dup sub.1 dup neq.0 end drop push.{n} push.1 while.true swap drop sub.1 dup neq.0 end drop end", n = scale(1200)),
        input_regime(3),
        vec!["stack", "overflow"],
    ));
    out
}

pub fn regime_search() -> Vec<ProgCase> {
    let mut out = vec![];
    let mut found = std::collections::BTreeSet::new();
    for h in 0..36usize {
        for m in 0..20usize {
            let src = format!("begin padw padw padw repeat.{} hperm end repeat.{} dup.12 mem_load drop end dropw dropw dropw end", h.max(1), m.max(1));
            let Ok(program) = crate::common::assembler().compile(&src) else { continue };
            let Ok(Ok(t)) = crate::common::exec_trace(&program, &[], processor::AdviceInputs::default(), processor::ExecutionOptions::default()) else { continue };
            let s = t.trace_len_summary();
            let c = s.chiplets_trace_len();
            let rows = c.hash_chiplet_len() + c.bitwise_chiplet_len() + c.memory_chiplet_len() + c.kernel_rom_len();
            if rows < s.main_trace_len() || rows < s.range_trace_len() || c.memory_chiplet_len() == 0 {
                continue;
            }
            for j in [6u32, 7, 8] {
                for d in [-2i64, -1, 0, 1] {
                    if rows as i64 == (1i64 << j) + d && found.insert((j, d)) {
                        out.push(ProgCase {
                            name: format!("regime_chiplets/2^{j}{d:+}/h{h}m{m}"),
                            src: src.clone(),
                            kernel: None,
                            stack: vec![],
                            advice: vec![],
                            merkle_leaves: vec![],
                            tags: vec!["stack", "hasher", "memory", "range"],
                        });
                    }
                }
            }
        }
    }
    // the same regimes with the whole program in ONE operation batch (at most 72 operations, no RESPAN,
    // no call): the recorded RESPAN finding of C12 (F-C12-c) makes b_chip fail in every multi-batch
    // program above and would hide a second cause of failure there
    let mut found1 = std::collections::BTreeSet::new();
    for h in 0..15usize {
        for a in 0..40usize {
            for b in 0..3usize {
                if h + a + b == 0 || h + a + b > 64 {
                    continue;
                }
                let part = |n: usize, body: &str| if n == 0 { String::new() } else { format!("repeat.{n} {body} end ") };
                let src = format!("begin {}{}{}end", part(h, "hperm"), part(a, "mem_stream"), part(b, "mem_load"));
                let Ok(program) = crate::common::assembler().compile(&src) else { continue };
                let Ok(Ok(t)) = crate::common::exec_trace(&program, &[], processor::AdviceInputs::default(), processor::ExecutionOptions::default()) else { continue };
                let s = t.trace_len_summary();
                let c = s.chiplets_trace_len();
                let rows = c.hash_chiplet_len() + c.bitwise_chiplet_len() + c.memory_chiplet_len() + c.kernel_rom_len();
                if rows < s.main_trace_len() || rows < s.range_trace_len() || c.memory_chiplet_len() == 0 {
                    continue;
                }
                for j in [6u32, 7] {
                    for d in [-2i64, -1, 0, 1] {
                        if rows as i64 == (1i64 << j) + d && found1.insert((j, d)) {
                            out.push(ProgCase {
                                name: format!("regime_chiplets_1batch/2^{j}{d:+}/h{h}a{a}b{b}"),
                                src: src.clone(),
                                kernel: None,
                                stack: vec![],
                                advice: vec![],
                                merkle_leaves: vec![],
                                tags: vec!["stack", "hasher", "memory", "range"],
                            });
                        }
                    }
                }
            }
        }
    }
    out
}

/// P2: ordered pairs of atoms from a reduced alphabet, at top level and inside a call
pub fn p2() -> Vec<ProgCase> {
    let reduced = ["add", "u32overflowing_add", "u32and", "mem_store", "mem_load", "mem_storew", "mem_stream", "hperm", "hmerge", "push16", "swapdw",
        "cswap1", "u32divmod", "eqw", "adv_push", "adv_pipe", "assert", "movup9", "lt", "u32split"];
    let all = atoms();
    let pick: Vec<&Atom> = reduced.iter().map(|n| all.iter().find(|a| a.name == *n).expect("atom")).collect();
    let mut out = vec![];
    for a in &pick {
        for b in &pick {
            for (fname, src) in [
                ("top", format!("begin {} {} end", a.code, b.code)),
                ("call", format!("proc.f {} end begin {} call.f end", b.code, a.code)),
            ] {
                let mut advice = a.advice.clone();
                advice.extend(b.advice.clone());
                let mut tags = a.tags.clone();
                tags.extend(b.tags.clone());
                out.push(ProgCase { name: format!("{}+{}/{fname}", a.name, b.name), src, kernel: None, stack: input_regime(2), advice, merkle_leaves: vec![], tags });
            }
        }
    }
    out
}

/// P2 over the whole atom alphabet (thorough tier): every ordered pair of atoms that need neither
/// locals, the Merkle store nor a kernel, at top level; the pairs of the reduced alphabet are in p2()
pub fn p2_full() -> Vec<ProgCase> {
    let reduced: std::collections::BTreeSet<String> = p2().into_iter().map(|c| c.name).collect();
    let all: Vec<Atom> = atoms().into_iter().filter(|a| !a.locals && !a.merkle && !a.kernel_only).collect();
    let mut out = vec![];
    for a in &all {
        for b in &all {
            let name = format!("{}+{}/top", a.name, b.name);
            if reduced.contains(&name) {
                continue;
            }
            let mut advice = a.advice.clone();
            advice.extend(b.advice.clone());
            let mut tags = a.tags.clone();
            tags.extend(b.tags.clone());
            out.push(ProgCase { name, src: format!("begin {} {} end", a.code, b.code), kernel: None, stack: input_regime(2), advice, merkle_leaves: vec![], tags });
        }
    }
    out
}

/// Pcore: a small family in which every frame, every regime and every component tag occurs
pub fn pcore() -> Vec<ProgCase> {
    let all = p1(false);
    let mut out: Vec<ProgCase> = vec![];
    let want = ["add/Top", "u32and/Call", "mem_rw/CallCall", "hperm/Syscall", "loc_loadw/Exec2", "adv_pipe/While2", "mtree_get/IfTrue", "mtree_set/Top",
        "u32divmod/LongSpan", "eqw/DynExec", "mem_storew/DynCall", "lt/IfInWhile", "hmerge/CallInIf", "cswapw/Repeat3", "push16/IfFalse", "u32shl/While0",
        "mem_stream/While1", "ext2div/Exec0", "caller/Syscall", "u32clz/Top", "assert_eqw/Call", "movup15/Top", "clk/While2", "sdepth/CallCall"];
    for w in want {
        let c = all.iter().find(|c| c.name.starts_with(&format!("{w}/"))).unwrap_or_else(|| panic!("pcore: no case {w}"));
        out.push(c.clone());
    }
    let sh = shapes();
    for n in ["deep_out/3/in20", "deep_out/1/in0", "deep_out_in_call/5", "main_dominated/61", "main_dominated/62", "main_dominated/63", "main_dominated/64", "range_dominated/31", "range_dominated/32",
        "hasher_dominated/7", "hasher_dominated/8", "memory_dominated/63", "memory_dominated/64", "bitwise_dominated/8", "bitwise_dominated/16"]
    {
        out.push(sh.iter().find(|c| c.name == n).unwrap_or_else(|| panic!("pcore: no shape {n}")).clone());
    }
    out
}

/// development aid (`vmc shapes`): the trace-shape family with its component lengths
pub fn print_shapes() {
    for c in shapes() {
        let asm = match &c.kernel {
            Some(k) => crate::common::assembler_with_kernel(k),
            None => crate::common::assembler(),
        };
        let Ok(program) = asm.compile(&c.src) else {
            println!("{}: does not assemble", c.name);
            continue;
        };
        let adv = processor::AdviceInputs::default().with_stack_values(c.advice.iter().cloned()).unwrap();
        match crate::common::exec_trace(&program, &c.stack, adv, processor::ExecutionOptions::default()) {
            Ok(Ok(t)) => {
                let s = t.trace_len_summary();
                let ch = s.chiplets_trace_len();
                println!(
                    "{}: main {} range {} chiplets {} (hasher {} bitwise {} memory {} kernel {}) -> trace {}",
                    c.name, s.main_trace_len(), s.range_trace_len(), ch.trace_len(), ch.hash_chiplet_len(), ch.bitwise_chiplet_len(),
                    ch.memory_chiplet_len(), ch.kernel_rom_len(), s.padded_trace_len()
                );
            }
            other => println!("{}: {:?}", c.name, other.map(|r| r.map(|_| ()).map_err(|e| e.to_string()))),
        }
    }
}
