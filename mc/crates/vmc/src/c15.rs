//! C15 — the cycle limit is enforced exactly.
//!
//! Space: a fixed family of terminating programs (cycle counts 4 … ~5000, every control-flow kind)
//! and non-terminating loops × every limit m in a window around the exact cycle count (for small
//! programs: *every* m from 64 up to n+2); plus the full grid of `ExecutionOptions::new` arguments.
//! Oracle: success iff m >= n, else `CycleLimitExceeded(m)` with the clock stopped at m+1 and no
//! effect of any later cycle visible in memory.

use crate::common::*;
use mcx::{guard, json, Ctx, Value};
use processor::{ExecutionError, ExecutionOptions, Process, ProcessState};
use rayon::prelude::*;
use std::collections::BTreeSet;

struct Prog {
    src: String,
    stack: Vec<u64>,
    terminating: bool,
}

fn programs(ctx: &Ctx) -> Vec<Prog> {
    let mut v = vec![];
    let mut t = |src: String, stack: Vec<u64>| v.push(Prog { src, stack, terminating: true });
    t("begin push.1 drop end".into(), vec![]);
    t("begin add end".into(), vec![1, 2]);
    for k in [1usize, 7, 8, 9, 60, 61, 62, 63, 64, 65, 71, 72, 73, 100, 127, 128, 129, 500, 1000] {
        t(format!("begin repeat.{k} push.1 drop end end"), vec![]);
        if ctx.tier == mcx::Tier::Quick && k > 130 {
            continue;
        }
        t(format!("begin repeat.{k} swap end end"), vec![3, 4]);
    }
    // counter-controlled loops: the cycle count depends on the input
    for n in [0u64, 1, 2, 5, 9, 10, 11, 50, 300] {
        t(
            "begin dup neq.0 while.true push.1 sub dup neq.0 end end".into(),
            vec![n],
        );
        // memory-writing loop: iteration i stores i at address i
        t(
            "begin dup neq.0 while.true dup dup mem_store push.1 sub dup neq.0 end end".into(),
            vec![n],
        );
    }
    for d in [1usize, 2, 3] {
        let mut s = String::from("proc.f0 push.1 drop end\n");
        for i in 1..=d {
            s += &format!("proc.f{i} call.f{} exec.f{} end\n", i - 1, i - 1);
        }
        s += &format!("begin call.f{d} if.true push.2 else push.3 push.4 end repeat.20 dup.1 drop end drop end");
        t(s.clone(), vec![1]);
        t(s, vec![0]);
    }
    t("use.std::math::u64 begin exec.u64::wrapping_mul end".into(), vec![5, 6, 7, 8]);
    t("begin hperm hperm hmerge end".into(), vec![1, 2, 3, 4, 5, 6, 7, 8, 9, 10, 11, 12]);

    let mut nt = |src: &str, stack: Vec<u64>| v.push(Prog { src: src.into(), stack, terminating: false });
    // "non-terminating" for every limit that is tried (<= 100 000 cycles): 50 000 iterations of at least six
    // cycles each. They are finite on purpose: if the limit is not enforced the run ends (and is reported as
    // ran_past_limit) instead of exhausting the machine's memory, which is no verdict at all
    const K: u64 = 50_000;
    nt("begin dup neq.0 while.true push.1 sub dup neq.0 end end", vec![K]);
    nt("begin dup neq.0 while.true dup dup mem_store push.1 sub dup neq.0 end end", vec![K]);
    nt("begin dup neq.0 while.true push.1 while.true push.0 end push.1 sub dup neq.0 end end", vec![K]);
    v
}

struct Obs {
    result: Result<(), String>,
    clk: u32,
    /// (addr, first element) of root-context memory at the end
    mem: Vec<(u64, u64)>,
}

fn run_with_limit(src: &str, stack: &[u64], max_cycles: Option<u32>) -> Result<Obs, String> {
    run_with_limit_and_hint(src, stack, max_cycles, 64)
}

/// `expected`: the expected-cycles hint (a capacity hint; it must not move the limit)
fn run_with_limit_and_hint(src: &str, stack: &[u64], max_cycles: Option<u32>, expected: u32) -> Result<Obs, String> {
    run_with_options(src, stack, max_cycles, expected, 0)
}

/// `tracing`: 0 = tracing off, 1 = the tracing flag given to `ExecutionOptions::new`, 2 = switched on
/// afterwards with the builder method `with_tracing()`; neither may move the limit
fn run_with_options(src: &str, stack: &[u64], max_cycles: Option<u32>, expected: u32, tracing: u8) -> Result<Obs, String> {
    let program = assembler().compile(src).map_err(|e| format!("asm: {e}"))?;
    let opts = match max_cycles {
        None => ExecutionOptions::default(),
        Some(m) => {
            let o = ExecutionOptions::new(Some(m), expected, tracing == 1).map_err(|e| format!("options: {e:?}"))?;
            if tracing == 2 {
                o.with_tracing()
            } else {
                o
            }
        }
    };
    guard::catch(|| {
        let mut p = Process::new(program.kernel().clone(), stack_inputs(stack), host(&[]), opts);
        let r = p.execute(&program);
        let clk = p.system.clk();
        let mem = p
            .get_mem_state(processor::ContextId::root())
            .into_iter()
            .map(|(a, w)| (a, vm_core::StarkField::as_int(&w[0])))
            .collect();
        Obs {
            result: r.map(|_| ()).map_err(|e| match e {
                ExecutionError::CycleLimitExceeded(m) => format!("CycleLimitExceeded({m})"),
                e => format!("{e:?}"),
            }),
            clk,
            mem,
        }
    })
}

fn check_case(ctx: &Ctx, src: &str, stack: &[u64], n: Option<u32>, full_mem: &[(u64, u64)], m: u32, expected: u32) {
    check_case_t(ctx, src, stack, n, full_mem, m, expected, 0)
}

#[allow(clippy::too_many_arguments)]
fn check_case_t(ctx: &Ctx, src: &str, stack: &[u64], n: Option<u32>, full_mem: &[(u64, u64)], m: u32, expected: u32, tracing: u8) {
    let case = json!({"kind": "limit", "src": src, "stack": stack, "m": m, "n": n, "expected": expected, "tracing": tracing});
    let how = ["tracing off", "tracing flag given to new()", "with_tracing() after new()"][tracing as usize];
    let fail = |what: &str, detail: String| {
        ctx.fail(json!({"kind": what}), format!("m={m} n={n:?} expected-cycles hint {expected}, {how}: {detail} :: {src} {stack:?}"), case.clone())
    };
    match run_with_options(src, stack, Some(m), expected, tracing) {
        Err(p) => fail("panic", guard::short_panic(&p)),
        Ok(o) => {
            let should_succeed = n.map(|n| m >= n).unwrap_or(false);
            match (&o.result, should_succeed) {
                (Ok(()), true) => {
                    if Some(o.clk) != n {
                        fail("cycle_count_depends_on_limit", format!("clk={}", o.clk));
                    }
                }
                (Ok(()), false) => fail("ran_past_limit", format!("succeeded with clk={}", o.clk)),
                (Err(e), true) => fail("failed_within_limit", e.clone()),
                (Err(e), false) => {
                    if *e != format!("CycleLimitExceeded({m})") {
                        fail("wrong_error", e.clone());
                    } else if o.clk != m + 1 {
                        fail("clock_not_stopped_at_limit", format!("clk={}", o.clk));
                    } else if n.is_some() && !o.mem.iter().all(|x| full_mem.contains(x) || x.1 == 0) {
                        // a prefix of the full run may only contain writes the full run also made
                        // (last-write-wins can differ only for addresses rewritten later; the
                        // programs here write each address once)
                        fail("memory_effect_not_in_full_run", format!("{:?}", o.mem));
                    }
                }
            }
        }
    }
}

pub fn run(ctx: &Ctx, replay: Option<&Value>) -> i32 {
    if let Some(case) = replay {
        if case["kind"] == "limit" {
            let src = case["src"].as_str().unwrap();
            let stack: Vec<u64> = case["stack"].as_array().unwrap().iter().map(|x| x.as_u64().unwrap()).collect();
            let m = case["m"].as_u64().unwrap() as u32;
            let full = run_with_limit(src, &stack, None).unwrap();
            let n = case["n"].as_u64().map(|x| x as u32);
            println!("unlimited run: result={:?} clk={}", full.result, full.clk);
            let o = run_with_limit(src, &stack, Some(m)).unwrap();
            println!("limit m={m}: result={:?} clk={} (expected: success iff m >= {n:?})", o.result, o.clk);
            check_case_t(ctx, src, &stack, n, &full.mem, m, case["expected"].as_u64().unwrap_or(64) as u32, case["tracing"].as_u64().unwrap_or(0) as u8);
        } else {
            check_options_case(ctx, case["max"].as_u64().map(|x| x as u32), case["expected"].as_u64().unwrap() as u32);
        }
        return ctx.finish("exploration", json!({}), &[]);
    }

    let progs = programs(ctx);
    // 0 deviations: measure n with the default (maximal) limit
    let measured: Vec<(Option<u32>, Vec<(u64, u64)>)> = progs
        .par_iter()
        .map(|p| {
            if !p.terminating {
                return (None, vec![]);
            }
            let o = run_with_limit(&p.src, &p.stack, None).expect("SUBJECT: family program must not panic");
            o.result.as_ref().expect("SUBJECT: family program must succeed with the default limit");
            (Some(o.clk), o.mem)
        })
        .collect();

    let small = ctx.tier.pick(1600u32, 100_000u32);
    let mut cases: Vec<(usize, u32)> = vec![];
    for (i, p) in progs.iter().enumerate() {
        let mut ms: BTreeSet<u32> = BTreeSet::new();
        if let Some(n) = measured[i].0 {
            for m in [64, n.saturating_sub(2), n.saturating_sub(1), n, n + 1, 2 * n, u32::MAX] {
                ms.insert(m);
            }
            if n <= small {
                ms.extend(64..=n + 2);
            } else if ctx.tier == mcx::Tier::Thorough {
                ms.extend((64..=n + 2).step_by(7));
            }
        } else {
            ms.extend([64u32, 65, 100, 1000, 4096]);
            if ctx.tier == mcx::Tier::Thorough {
                ms.extend([1 << 16, 100_000]);
            }
        }
        let _ = p;
        cases.extend(ms.into_iter().filter(|&m| m >= 64).map(|m| (i, m)));
    }
    // every limit with the minimal capacity hint and with the hint equal to the limit (the largest
    // valid one; capped, since the hint pre-allocates the trace): the hint must not move the limit
    let hinted = std::sync::atomic::AtomicU64::new(0);
    cases.par_iter().for_each(|&(i, m)| {
        let p = &progs[i];
        check_case(ctx, &p.src, &p.stack, measured[i].0, &measured[i].1, m, 64);
        // tracing switched on in both ways (flag of new(), builder method): the limit must stay where it is
        check_case_t(ctx, &p.src, &p.stack, measured[i].0, &measured[i].1, m, 64, 1);
        check_case_t(ctx, &p.src, &p.stack, measured[i].0, &measured[i].1, m, 64, 2);
        if m > 64 && m <= 1 << 15 {
            check_case(ctx, &p.src, &p.stack, measured[i].0, &measured[i].1, m, m);
            hinted.fetch_add(1, std::sync::atomic::Ordering::Relaxed);
        }
    });
    ctx.count("limit_cases_with_hint_equal_to_limit", hinted.into_inner());
    for &(i, m) in cases.iter().step_by(cases.len() / 6 + 1) {
        ctx.sample(json!({"src": progs[i].src, "stack": progs[i].stack, "n": measured[i].0, "m": m}));
    }

    // option grid
    let grid_max = [None, Some(0u32), Some(1), Some(63), Some(64), Some(65), Some(1 << 10), Some(u32::MAX - 1), Some(u32::MAX)];
    let grid_exp = [0u32, 1, 63, 64, 65, 1 << 10, (1 << 10) + 1, 1 << 20, (1 << 31) - 1, 1 << 31];
    let mut grid = 0u64;
    for &mx in &grid_max {
        for &ex in &grid_exp {
            check_options_case(ctx, mx, ex);
            grid += 1;
        }
    }

    let ns: BTreeSet<u32> = measured.iter().filter_map(|m| m.0).collect();
    let boundary = cases.iter().filter(|&&(i, m)| measured[i].0.map(|n| m + 1 == n || m == n).unwrap_or(false)).count();
    let cov = json!({
        "evaluations": cases.len() as u64 + grid,
        "distinct_nontrivial": boundary as u64,
        "rule": "case = (program, limit m); non-trivial = m is exactly n or n-1 for the program's cycle count n (the two sides of the boundary); all cases are distinct by construction",
        "programs": progs.len(),
        "terminating_programs": ns.len(),
        "distinct_cycle_counts": ns.iter().collect::<Vec<_>>(),
        "limit_cases": cases.len(),
        "every_limit_enumerated_for_programs_with_n_up_to": small,
        "option_grid_cases": grid,
        "exhaustive": true,
        "bounds": "fixed program family; limits 64..=n+2 exhaustively for small n, boundary window otherwise; option grid 9x10",
    });
    ctx.finish("exploration", cov, &[
        "the cycle count n of a program is the clock value reached under the default (u32::MAX) limit",
        "program family is fixed and finite; other programs are not covered",
    ])
}

fn check_options_case(ctx: &Ctx, max: Option<u32>, expected: u32) {
    let case = json!({"kind": "options", "max": max, "expected": expected});
    let r = guard::catch(|| ExecutionOptions::new(max, expected, false));
    let eff = max.unwrap_or(u32::MAX);
    let must_refuse = eff < 64 || eff < expected;
    match r {
        Err(p) => ctx.fail(json!({"kind": "options_panic", "max": max, "expected": expected}), guard::short_panic(&p), case),
        Ok(Ok(o)) => {
            if must_refuse {
                ctx.fail(json!({"kind": "options_accepted"}), format!("max={max:?} expected={expected} accepted"), case);
            } else if o.max_cycles() != eff || o.expected_cycles() < expected.max(64) {
                ctx.fail(json!({"kind": "options_altered"}), format!("max={max:?} expected={expected} -> {o:?}"), case);
            } else {
                // the builder method for tracing changes the tracing flag and nothing else
                let t = o.with_tracing();
                if t.max_cycles() != o.max_cycles() || t.expected_cycles() != o.expected_cycles() || !t.enable_tracing() {
                    ctx.fail(json!({"kind": "options_altered", "by": "with_tracing"}), format!("max={max:?} expected={expected}: {o:?}.with_tracing() -> {t:?}"), case);
                }
            }
        }
        Ok(Err(_)) => {
            if !must_refuse {
                ctx.fail(json!({"kind": "options_refused"}), format!("max={max:?} expected={expected} refused"), case);
            }
        }
    }
}
