//! C02 — a proof binds to its statement; altered statements or proofs are rejected.
//!
//! Family (F): exhaustive fault enumeration around honest (program, inputs, outputs, proof) tuples.
//! Deviation bound 0: every honest tuple must verify. Bound 1: every single deviation of
//!   * the statement (program-hash elements, kernel procedure set, every stack-input position,
//!     every stack-output position, every overflow address, deep element dropped / added),
//!   * the hash-function tag (relabelled through `ExecutionProof::new` and through byte 0),
//!   * the proof parameters (proofs *produced* under every non-accepted neighbour of each accepted
//!     option set, and honest proofs whose option bytes are *relabelled* to such a neighbour),
//!   * the serialised proof (bit flips, truncations)
//! must make `ExecutionProof::from_bytes` or `miden::verify` return `Err`. Bound 2 (thorough): all
//! pairs of statement deviations.
//!
//! Oracle: `Ok(_)` => kind "accepted", panic => kind "panic". Nothing else is demanded.
//!
//! Rule found in /repo/verifier/src/lib.rs: `verify` passes `AcceptableOptions::OptionSet` to
//! winterfell, i.e. *exact membership* of the proof's `ProofOptions` in a per-tag list
//! (Blake3_192: {REGULAR_96}, Blake3_256: {REGULAR_128}, Rpo256: {RECURSIVE_96, RECURSIVE_128});
//! no security-level threshold is involved. "Outside the accepted sets" therefore means: any
//! parameter tuple that is not literally one of those, stronger ones included.

use crate::common::*;
use mcx::{guard, json, Ctx, Tier, Value};
use miden::{
    prove, verify, Digest, ExecutionProof, FieldExtension, HashFunction, Kernel, ProgramInfo,
    ProvingOptions, StackOutputs,
};
use rayon::prelude::*;
use std::collections::{BTreeMap, BTreeSet, HashSet};
use vm_core::{Felt, StarkField};

// ------------------------------------------------------------------------------------------------
// option sets (the specification side: copied from the documentation of `verify`, not read from
// the constants at run time, so that a change of the accepted sets is seen as a change)
// ------------------------------------------------------------------------------------------------

#[derive(Clone, Copy, PartialEq, Eq, PartialOrd, Ord, Debug)]
struct Params {
    nq: usize,
    blowup: usize,
    grind: u32,
    ext: u8, // 1 = none, 2 = quadratic, 3 = cubic
    fold: usize,
    rem: usize,
}

const REGULAR_96: Params = Params { nq: 27, blowup: 8, grind: 16, ext: 2, fold: 8, rem: 255 };
const REGULAR_128: Params = Params { nq: 27, blowup: 16, grind: 21, ext: 3, fold: 8, rem: 255 };
const RECURSIVE_96: Params = Params { nq: 27, blowup: 8, grind: 16, ext: 2, fold: 4, rem: 7 };
const RECURSIVE_128: Params = Params { nq: 27, blowup: 16, grind: 21, ext: 3, fold: 4, rem: 7 };

const TAGS: [(u8, &str); 3] = [(0, "blake3_192"), (1, "blake3_256"), (2, "rpo256")];

fn tag_fn(tag: u8) -> HashFunction {
    match tag {
        0 => HashFunction::Blake3_192,
        1 => HashFunction::Blake3_256,
        2 => HashFunction::Rpo256,
        _ => panic!("harness: no such hash tag {tag}"),
    }
}

fn accepted_under(tag: u8) -> Vec<Params> {
    match tag {
        0 => vec![REGULAR_96],
        1 => vec![REGULAR_128],
        2 => vec![RECURSIVE_96, RECURSIVE_128],
        _ => vec![],
    }
}

/// the four standard option sets: name, constructor through the public preset API, tag, parameters
fn standard_sets() -> Vec<(&'static str, ProvingOptions, u8, Params)> {
    vec![
        ("blake3_96", ProvingOptions::with_96_bit_security(false), 0, REGULAR_96),
        ("rpo_96", ProvingOptions::with_96_bit_security(true), 2, RECURSIVE_96),
        ("blake3_128", ProvingOptions::with_128_bit_security(false), 1, REGULAR_128),
        ("rpo_128", ProvingOptions::with_128_bit_security(true), 2, RECURSIVE_128),
    ]
}

fn params_valid(p: &Params) -> bool {
    // preconditions of winter_air::ProofOptions::new (it asserts them)
    (1..=255).contains(&p.nq)
        && p.blowup.is_power_of_two()
        && (2..=128).contains(&p.blowup)
        && p.grind <= 32
        && (1..=3).contains(&p.ext)
        && [2usize, 4, 8, 16].contains(&p.fold)
        && (p.rem + 1).is_power_of_two()
        && p.rem <= 255
}

fn params_options(p: &Params, tag: u8) -> ProvingOptions {
    let ext = match p.ext {
        1 => FieldExtension::None,
        2 => FieldExtension::Quadratic,
        _ => FieldExtension::Cubic,
    };
    ProvingOptions::new(p.nq, p.blowup, p.grind, ext, p.fold, p.rem, tag_fn(tag))
}

fn params_json(p: &Params, tag: u8) -> Value {
    json!({"num_queries": p.nq, "blowup": p.blowup, "grinding": p.grind, "extension": p.ext,
           "folding": p.fold, "remainder_max_degree": p.rem, "tag": tag})
}

fn params_from_json(v: &Value) -> (Params, u8) {
    let g = |k: &str| v[k].as_u64().unwrap_or_else(|| panic!("harness: replay case lacks {k}"));
    (
        Params {
            nq: g("num_queries") as usize,
            blowup: g("blowup") as usize,
            grind: g("grinding") as u32,
            ext: g("extension") as u8,
            fold: g("folding") as usize,
            rem: g("remainder_max_degree") as usize,
        },
        g("tag") as u8,
    )
}

/// all single-parameter neighbours of `p` (both directions), valid as `ProofOptions`, plus the
/// standard sets; the caller removes what is accepted under the tag it presents them with
fn neighbours(p: &Params) -> Vec<(String, Params)> {
    let mut v: Vec<(String, Params)> = vec![];
    let mut add = |what: &str, q: Params| {
        if q != *p && params_valid(&q) {
            v.push((what.to_string(), q));
        }
    };
    add("num_queries-1", Params { nq: p.nq - 1, ..*p });
    add("num_queries+1", Params { nq: p.nq + 1, ..*p });
    add("blowup/2", Params { blowup: p.blowup / 2, ..*p });
    add("blowup*2", Params { blowup: p.blowup * 2, ..*p });
    add("grinding-1", Params { grind: p.grind - 1, ..*p });
    add("grinding+1", Params { grind: p.grind + 1, ..*p });
    add("grinding=0", Params { grind: 0, ..*p });
    for e in 1..=3u8 {
        add(&format!("extension={e}"), Params { ext: e, ..*p });
    }
    for f in [2usize, 4, 8, 16] {
        add(&format!("folding={f}"), Params { fold: f, ..*p });
    }
    for r in [0usize, 1, 3, 7, 15, 31, 63, 127, 255] {
        add(&format!("remainder={r}"), Params { rem: r, ..*p });
    }
    v
}

// ------------------------------------------------------------------------------------------------
// base artefacts
// ------------------------------------------------------------------------------------------------

struct BaseDef {
    name: &'static str,
    src: &'static str,
    kernel: Option<&'static str>,
    stack: Vec<u64>, // top first
    advice: Vec<u64>,
}

const KERNEL_SRC: &str = "export.kadd add end\nexport.kmul mul end\nexport.kswap swap end";

fn bases() -> Vec<BaseDef> {
    let s16: Vec<u64> = (1..=16).collect();
    vec![
        BaseDef { name: "plain", src: "begin push.3 push.5 mul add swap end", kernel: None, stack: vec![1, 2, 3], advice: vec![] },
        // explicit zeros as inputs: the elements that follow the (empty) kernel in the hashed statement are zeros
        BaseDef { name: "zero_inputs", src: "begin push.4 push.6 mul add swap end", kernel: None, stack: vec![0, 0, 0, 0], advice: vec![] },
        BaseDef {
            name: "kernel_syscall",
            src: "begin syscall.kadd syscall.kmul push.9 syscall.kswap drop end",
            kernel: Some(KERNEL_SRC),
            stack: vec![2, 3, 4, 5],
            advice: vec![],
        },
        // 20 inputs (4 in the overflow table at clk 0), consumed down to depth 16
        BaseDef { name: "deep_in", src: "begin add add mul add end", kernel: None, stack: (1..=20).collect(), advice: vec![] },
        // 16 inputs, 4 pushes never dropped: outputs of depth 20, overflow addresses = clock values
        BaseDef { name: "deep_out", src: "begin push.21 push.22 push.23 push.24 end", kernel: None, stack: s16.clone(), advice: vec![] },
        // 18 inputs and 2 more pushes: input overflow rows (addresses -2, -1 mod p) survive to the outputs
        BaseDef { name: "deep_in_out", src: "begin push.7 adv_push.1 end", kernel: None, stack: (1..=18).collect(), advice: vec![77] },
        // memory + u32 (range checker, bitwise and memory chiplets) + hasher
        BaseDef {
            name: "mem_u32",
            src: "begin push.70000 mem_store.5 mem_load.5 push.65537 u32wrapping_add dup push.255 u32and swap push.3 u32div \
                  push.1.2.3.4 mem_storew.9 dropw padw mem_loadw.9 hperm u32split drop end",
            kernel: None,
            stack: vec![9, 8, 7],
            advice: vec![],
        },
    ]
}

/// a public statement in harness terms (plain integers), so that it can be altered, compared and
/// written into a replay file without going through the types under test
#[derive(Clone, PartialEq, Eq, Hash, Debug)]
struct Stmt {
    hash: [u64; 4],
    kernel: Vec<[u64; 4]>,
    inputs: Vec<u64>,     // top first, as `StackInputs::values()`
    out_stack: Vec<u64>,  // top first, as `StackOutputs::stack()`
    out_addrs: Vec<u64>,  // as `StackOutputs::overflow_addrs()`
}

fn dig(d: &Digest) -> [u64; 4] {
    let e = d.as_elements();
    [e[0].as_int(), e[1].as_int(), e[2].as_int(), e[3].as_int()]
}

fn undig(d: &[u64; 4]) -> Digest {
    Digest::new([Felt::new(d[0]), Felt::new(d[1]), Felt::new(d[2]), Felt::new(d[3])])
}

type Built = (ProgramInfo, miden::StackInputs, StackOutputs);

impl Stmt {
    /// constructs the objects `verify` takes, through their public constructors
    fn build(&self) -> Result<Built, String> {
        let procs: Vec<Digest> = self.kernel.iter().map(undig).collect();
        let kernel = Kernel::new(&procs).map_err(|e| format!("Kernel::new: {e:?}"))?;
        let info = ProgramInfo::new(undig(&self.hash), kernel);
        let inputs = stack_inputs(&self.inputs);
        let outputs = StackOutputs::new(self.out_stack.clone(), self.out_addrs.clone())
            .map_err(|e| format!("StackOutputs::new: {e:?}"))?;
        Ok((info, inputs, outputs))
    }

    /// what the constructed objects actually contain, read back through their accessors (not
    /// through `to_elements`, which is part of what is being checked). Stack inputs of at most 16
    /// elements denote the same initial stack with or without deep zeros, so those are stripped.
    fn canon_of(b: &Built) -> Stmt {
        let mut inputs = ints(b.1.values());
        if inputs.len() <= 16 {
            while inputs.last() == Some(&0) {
                inputs.pop();
            }
        }
        Stmt {
            hash: dig(b.0.program_hash()),
            kernel: b.0.kernel().proc_hashes().iter().map(dig).collect(),
            inputs,
            out_stack: b.2.stack().to_vec(),
            out_addrs: b.2.overflow_addrs().to_vec(),
        }
    }

    fn to_json(&self) -> Value {
        json!({"program_hash": self.hash, "kernel": self.kernel, "stack_inputs_top_first": self.inputs,
               "stack_outputs": self.out_stack, "overflow_addrs": self.out_addrs})
    }
}

struct Base {
    def: BaseDef,
    program: miden::Program,
    stmt: Stmt,
    /// a digest that is neither this program's hash nor one of its kernel procedures
    foreign: [u64; 4],
}

struct Tuple {
    base: usize,
    opt: String,
    /// Some((params, tag)) if proved under non-standard options
    custom: Option<(Params, u8)>,
    proof: ExecutionProof,
    bytes: Vec<u8>,
    layout: Vec<Region>,
}

fn compile(def: &BaseDef) -> miden::Program {
    let asm = match def.kernel {
        Some(k) => assembler_with_kernel(k),
        None => assembler(),
    };
    asm.compile(def.src).unwrap_or_else(|e| panic!("SUBJECT: base program {} must assemble: {e}", def.name))
}

fn prove_base(def: &BaseDef, program: &miden::Program, options: ProvingOptions) -> Result<Result<(StackOutputs, ExecutionProof), String>, String> {
    let si = stack_inputs(&def.stack);
    let h = host(&def.advice);
    guard::catch(|| prove(program, si, h, options).map_err(|e| format!("{e:?}")))
}

fn make_bases() -> Vec<Base> {
    let defs = bases();
    let programs: Vec<miden::Program> = defs.iter().map(compile).collect();
    let hashes: Vec<[u64; 4]> = programs.iter().map(|p| dig(&p.hash())).collect();
    defs.into_iter()
        .zip(programs)
        .enumerate()
        .map(|(i, (def, program))| {
            // outputs as reported by execution
            let trace = exec_trace(&program, &def.stack, processor::AdviceInputs::default().with_stack(felts(&def.advice)), Default::default())
                .unwrap_or_else(|p| panic!("SUBJECT: base {} panicked in execute: {p}", def.name))
                .unwrap_or_else(|e| panic!("SUBJECT: base {} must execute: {e:?}", def.name));
            let so = trace.stack_outputs().clone();
            let stmt = Stmt {
                hash: hashes[i],
                kernel: program.kernel().proc_hashes().iter().map(dig).collect(),
                inputs: def.stack.clone(),
                out_stack: so.stack().to_vec(),
                out_addrs: so.overflow_addrs().to_vec(),
            };
            let foreign = hashes[(i + 1) % hashes.len()];
            assert!(foreign != stmt.hash && !stmt.kernel.contains(&foreign), "harness: foreign digest collides");
            Base { def, program, stmt, foreign }
        })
        .collect()
}

// ------------------------------------------------------------------------------------------------
// layout of a serialised proof (from winter-air 0.8.3 `StarkProof::write_into`, `Context`,
// `TraceLayout`, `ProofOptions`, `Commitments`, `Queries`, `OodFrame`; winter-fri `FriProof`)
// ------------------------------------------------------------------------------------------------

#[derive(Clone, Debug)]
struct Region {
    start: usize,
    end: usize,
    name: String,
    /// true for counts, length prefixes, option bytes, tags: everything that is not bulk payload
    scalar: bool,
}

fn layout(b: &[u8]) -> Vec<Region> {
    struct Cur<'a> {
        b: &'a [u8],
        pos: usize,
        out: Vec<Region>,
    }
    impl<'a> Cur<'a> {
        fn take(&mut self, n: usize, name: &str, scalar: bool) -> &'a [u8] {
            assert!(self.pos + n <= self.b.len(), "harness: honest proof does not parse at {name}");
            let s = &self.b[self.pos..self.pos + n];
            if n > 0 {
                self.out.push(Region { start: self.pos, end: self.pos + n, name: name.to_string(), scalar });
            }
            self.pos += n;
            s
        }
        fn u8(&mut self, name: &str) -> usize {
            self.take(1, name, true)[0] as usize
        }
        fn u16(&mut self, name: &str) -> usize {
            let s = self.take(2, name, true);
            u16::from_le_bytes([s[0], s[1]]) as usize
        }
        fn u32(&mut self, name: &str) -> usize {
            let s = self.take(4, name, true);
            u32::from_le_bytes([s[0], s[1], s[2], s[3]]) as usize
        }
        fn queries(&mut self, name: &str) {
            let n = self.u32(&format!("{name}.values_len"));
            self.take(n, &format!("{name}.values"), false);
            let n = self.u32(&format!("{name}.paths_len"));
            self.take(n, &format!("{name}.paths"), false);
        }
    }
    let mut c = Cur { b, pos: 0, out: vec![] };
    c.u8("hash_fn");
    c.u8("context.trace_layout.main_width");
    let aux_w = c.u8("context.trace_layout.aux_width");
    c.u8("context.trace_layout.aux_rands");
    c.u8("context.trace_length_log2");
    let n = c.u16("context.trace_meta_len");
    c.take(n, "context.trace_meta", false);
    let n = c.u8("context.field_modulus_len");
    c.take(n, "context.field_modulus", true);
    c.u8("context.options.num_queries");
    c.u8("context.options.blowup_factor");
    c.u8("context.options.grinding_factor");
    c.u8("context.options.field_extension");
    c.u8("context.options.fri_folding_factor");
    c.u8("context.options.fri_remainder_max_degree");
    c.u8("num_unique_queries");
    let n = c.u16("commitments.len");
    c.take(n, "commitments.data", false);
    c.queries("trace_queries.main");
    if aux_w != 0 {
        c.queries("trace_queries.aux");
    }
    c.queries("constraint_queries");
    let n = c.u16("ood_frame.trace_states_len");
    c.take(n, "ood_frame.trace_states", false);
    let n = c.u16("ood_frame.evaluations_len");
    c.take(n, "ood_frame.evaluations", false);
    let layers = c.u8("fri.num_layers");
    for _ in 0..layers {
        c.queries("fri.layer");
    }
    let n = c.u16("fri.remainder_len");
    c.take(n, "fri.remainder", false);
    c.u8("fri.num_partitions");
    c.take(8, "pow_nonce", true);
    assert!(c.pos == b.len(), "harness: honest proof has {} unparsed trailing bytes", b.len() - c.pos);
    c.out
}

fn region_at(l: &[Region], off: usize) -> &Region {
    l.iter().find(|r| r.start <= off && off < r.end).expect("harness: offset outside proof")
}

/// The first scalar field (in stream order) of possibly corrupted proof bytes whose value lies
/// outside the domain winterfell's readers assume; this names the *cause* of a panic independently
/// of which byte was flipped (a flipped length prefix shifts every later field onto other data).
fn parsed_cause(b: &[u8]) -> &'static str {
    struct R<'a>(&'a [u8], usize);
    impl<'a> R<'a> {
        fn take(&mut self, n: usize) -> Option<&'a [u8]> {
            let s = self.0.get(self.1..self.1.checked_add(n)?)?;
            self.1 += n;
            Some(s)
        }
        fn u8(&mut self) -> Option<usize> {
            Some(self.take(1)?[0] as usize)
        }
        fn u16(&mut self) -> Option<usize> {
            let s = self.take(2)?;
            Some(u16::from_le_bytes([s[0], s[1]]) as usize)
        }
        fn u32(&mut self) -> Option<usize> {
            let s = self.take(4)?;
            Some(u32::from_le_bytes([s[0], s[1], s[2], s[3]]) as usize)
        }
        fn queries(&mut self) -> Option<()> {
            let n = self.u32()?;
            self.take(n)?;
            let n = self.u32()?;
            self.take(n)?;
            Some(())
        }
    }
    fn walk(r: &mut R) -> Option<&'static str> {
        r.u8()?; // tag
        r.u8()?;
        let aux_w = r.u8()?;
        r.u8()?;
        let tl = r.u8()?;
        if tl >= 64 {
            return Some("trace_length_log2>=64");
        }
        if tl >= 32 {
            return Some("trace_length_log2>=32");
        }
        let n = r.u16()?;
        r.take(n)?;
        let n = r.u8()?;
        r.take(n)?;
        let o = r.take(6)?;
        let p = Params { nq: o[0] as usize, blowup: o[1] as usize, grind: o[2] as u32, ext: o[3], fold: o[4] as usize, rem: o[5] as usize };
        if (1..=3).contains(&p.ext) && !params_valid(&p) {
            return Some("invalid_proof_options");
        }
        r.u8()?;
        let n = r.u16()?;
        r.take(n)?;
        r.queries()?;
        if aux_w != 0 {
            r.queries()?;
        }
        r.queries()?;
        let n = r.u16()?;
        r.take(n)?;
        let n = r.u16()?;
        r.take(n)?;
        let layers = r.u8()?;
        for _ in 0..layers {
            r.queries()?;
        }
        let n = r.u16()?;
        r.take(n)?;
        if r.u8()? >= 64 {
            return Some("num_partitions_log2>=64");
        }
        None
    }
    walk(&mut R(b, 0)).unwrap_or("other")
}

fn option_bytes_offset(l: &[Region]) -> usize {
    l.iter().find(|r| r.name == "context.options.num_queries").expect("harness: no options region").start
}

// ------------------------------------------------------------------------------------------------
// observation and oracle
// ------------------------------------------------------------------------------------------------

#[derive(Clone, Debug)]
enum Obs {
    Rejected(String),
    Accepted(u32),
    Panic(String),
    /// the deviation does not produce a different, constructible object: not a case
    Skipped(String),
}

fn variant(s: &str) -> String {
    s.split(|c: char| c == '(' || c == ')' || c == '{' || c == ' ' || c == ':').next().unwrap_or("").to_string()
}

fn verify_built(b: Built, proof: ExecutionProof) -> Obs {
    match guard::catch(move || verify(b.0, b.1, b.2, proof)) {
        Err(p) => Obs::Panic(p),
        Ok(Ok(level)) => Obs::Accepted(level),
        Ok(Err(e)) => {
            let d = format!("{e:?}");
            // VerifierError(X(..)) -> verify:X
            let inner = d.strip_prefix("VerifierError(").unwrap_or(&d);
            Obs::Rejected(format!("verify:{}", variant(inner)))
        }
    }
}

fn verify_bytes(stmt: &Stmt, bytes: &[u8]) -> Obs {
    match guard::catch(|| ExecutionProof::from_bytes(bytes)) {
        Err(p) => Obs::Panic(format!("from_bytes: {p}")),
        Ok(Err(e)) => Obs::Rejected(format!("from_bytes:{}", variant(&format!("{e:?}")))),
        Ok(Ok(proof)) => match stmt.build() {
            Err(e) => panic!("SUBJECT: honest statement must build: {e}"),
            Ok(b) => verify_built(b, proof),
        },
    }
}

const P64: u64 = P;

fn delta(x: u64, how: &str) -> Option<u64> {
    match how {
        "+1" => Some(if x == P64 - 1 { 0 } else { x + 1 }),
        "-1" => Some(if x == 0 { P64 - 1 } else { x - 1 }),
        "0<->1" => Some(if x == 0 { 1 } else { 0 }),
        // the non-canonical spelling of the same field element (only where the statement is given as
        // integers: stack inputs, stack outputs, overflow addresses): it must not be accepted as a
        // statement at all, let alone verify
        "+p" => x.checked_add(P64),
        _ => panic!("harness: unknown delta {how}"),
    }
}

const HOWS: [&str; 4] = ["+1", "-1", "0<->1", "+p"];

/// every single deviation of a statement, as descriptors (simplest first)
fn stmt_devs(s: &Stmt) -> Vec<Value> {
    let mut v = vec![];
    for i in 0..4 {
        for how in ["+1", "-1", "other_program"] {
            v.push(json!({"field": "program_hash", "i": i, "how": how}));
        }
    }
    for i in 0..s.kernel.len() {
        v.push(json!({"field": "kernel.remove", "i": i}));
    }
    v.push(json!({"field": "kernel.add"}));
    // the statement is hashed into the Fiat-Shamir seed as program hash || kernel procedures || stack inputs ||
    // outputs: the four input elements next to the kernel respelled as one more kernel procedure
    v.push(json!({"field": "respell.leading_inputs_as_kernel_procedure"}));
    for i in 0..s.kernel.len() {
        v.push(json!({"field": "kernel.replace", "i": i}));
        for e in 0..4 {
            v.push(json!({"field": "kernel.proc_elem", "i": i, "e": e, "how": "+1"}));
        }
    }
    for pos in 0..s.inputs.len() {
        for how in HOWS {
            v.push(json!({"field": "stack_inputs.value", "pos": pos, "how": how}));
        }
    }
    // positions that are implicit zeros of a short input vector
    for pos in s.inputs.len()..16 {
        v.push(json!({"field": "stack_inputs.implicit_zero", "pos": pos}));
    }
    v.push(json!({"field": "stack_inputs.drop_deepest"}));
    v.push(json!({"field": "stack_inputs.drop_top"}));
    for val in [0u64, 1] {
        v.push(json!({"field": "stack_inputs.append_deepest", "value": val}));
        v.push(json!({"field": "stack_inputs.append_top", "value": val}));
    }
    for pos in 0..s.out_stack.len() {
        for how in HOWS {
            let field = if pos < 16 { "stack_outputs.top" } else { "stack_outputs.overflow_value" };
            v.push(json!({"field": field, "pos": pos, "how": how}));
        }
    }
    for i in 0..s.out_addrs.len() {
        for how in ["+1", "-1", "+p"] {
            v.push(json!({"field": "stack_outputs.overflow_addr", "i": i, "how": how}));
        }
    }
    v.push(json!({"field": "stack_outputs.drop_deepest"}));
    for val in [0u64, 1] {
        v.push(json!({"field": "stack_outputs.add_deepest", "value": val}));
    }
    v
}

/// applies one deviation; None = the descriptor does not apply to this statement
fn apply_dev(s: &Stmt, d: &Value, foreign: &[u64; 4]) -> Option<Stmt> {
    let mut t = s.clone();
    let idx = |k: &str| d[k].as_u64().map(|x| x as usize);
    let how = d["how"].as_str().unwrap_or("");
    match d["field"].as_str().expect("harness: deviation without field") {
        "program_hash" => {
            let i = idx("i")?;
            t.hash[i] = if how == "other_program" { foreign[i] } else { delta(t.hash[i], how)? };
        }
        "kernel.remove" => {
            let i = idx("i")?;
            if i >= t.kernel.len() {
                return None;
            }
            t.kernel.remove(i);
        }
        "kernel.add" => t.kernel.push(*foreign),
        "respell.leading_inputs_as_kernel_procedure" => {
            if t.inputs.len() < 4 {
                return None;
            }
            let d: Vec<u64> = t.inputs.drain(..4).collect();
            t.kernel.push([d[0], d[1], d[2], d[3]]);
        }
        "kernel.replace" => {
            let i = idx("i")?;
            *t.kernel.get_mut(i)? = *foreign;
        }
        "kernel.proc_elem" => {
            let (i, e) = (idx("i")?, idx("e")?);
            let p = t.kernel.get_mut(i)?;
            p[e] = delta(p[e], how)?;
        }
        "stack_inputs.value" => {
            let x = t.inputs.get_mut(idx("pos")?)?;
            *x = delta(*x, how)?;
        }
        "stack_inputs.implicit_zero" => {
            let pos = idx("pos")?;
            if pos < t.inputs.len() || pos >= 16 {
                return None;
            }
            t.inputs.resize(pos + 1, 0);
            t.inputs[pos] = 1;
        }
        "stack_inputs.drop_deepest" => {
            t.inputs.pop()?;
        }
        "stack_inputs.drop_top" => {
            if t.inputs.is_empty() {
                return None;
            }
            t.inputs.remove(0);
        }
        "stack_inputs.append_deepest" => t.inputs.push(d["value"].as_u64()?),
        "stack_inputs.append_top" => t.inputs.insert(0, d["value"].as_u64()?),
        "stack_outputs.top" | "stack_outputs.overflow_value" => {
            let x = t.out_stack.get_mut(idx("pos")?)?;
            *x = delta(*x, how)?;
        }
        "stack_outputs.overflow_addr" => {
            let x = t.out_addrs.get_mut(idx("i")?)?;
            *x = delta(*x, how)?;
        }
        "stack_outputs.drop_deepest" => {
            // keep the address vector well-formed: len(addrs) = len(stack) - 15, or 0 at depth 16
            if t.out_stack.len() <= 16 {
                // dropping a padding position: StackOutputs::new pads it back (skipped as equal)
                t.out_stack.pop()?;
            } else {
                t.out_stack.pop();
                t.out_addrs.pop();
                if t.out_stack.len() == 16 {
                    t.out_addrs.clear();
                }
            }
        }
        "stack_outputs.add_deepest" => {
            let val = d["value"].as_u64()?;
            if t.out_stack.len() < 16 {
                t.out_stack.resize(16, 0);
            }
            t.out_stack.push(val);
            if t.out_addrs.is_empty() {
                t.out_addrs = vec![0, 1];
            } else {
                let last = *t.out_addrs.last().unwrap();
                t.out_addrs.push(delta(last, "+1")?);
            }
        }
        f => panic!("harness: unknown deviation field {f}"),
    }
    Some(t)
}

fn dev_class(d: &Value) -> String {
    d["field"].as_str().unwrap_or("?").to_string()
}

/// statement deviation(s) against an honest proof. Returns (altered canonical statement, obs).
fn eval_stmt(base: &Base, proof: &ExecutionProof, devs: &[Value]) -> (Option<Stmt>, Obs) {
    let mut cur = base.stmt.clone();
    for d in devs {
        match apply_dev(&cur, d, &base.foreign) {
            Some(t) => cur = t,
            None => return (None, Obs::Skipped("not_applicable".into())),
        }
    }
    let built = match guard::catch(|| cur.build()) {
        Err(p) => return (None, Obs::Panic(format!("constructor: {p}"))),
        Ok(Err(e)) => return (None, Obs::Skipped(format!("unconstructible:{}", variant(&e)))),
        Ok(Ok(b)) => b,
    };
    let canon = Stmt::canon_of(&built);
    let honest = Stmt::canon_of(&base.stmt.build().expect("SUBJECT: honest statement must build"));
    if canon == honest {
        return (None, Obs::Skipped("equal_after_construction".into()));
    }
    (Some(canon), verify_built(built, proof.clone()))
}

// ------------------------------------------------------------------------------------------------
// cases
// ------------------------------------------------------------------------------------------------

/// One deviation case = (tuple, descriptor). `class` is the histogram key.
#[derive(Clone)]
struct Case {
    tuple: usize,
    class: String,
    dev: Dev,
}

/// deviation descriptor; the two bulk classes are kept unboxed (millions of them in thorough)
#[derive(Clone)]
enum Dev {
    J(Value),
    Flip(usize, u8),
    Trunc(usize),
}

impl Dev {
    fn json(&self) -> Value {
        match self {
            Dev::J(v) => v.clone(),
            Dev::Flip(off, bit) => json!({"kind": "flip", "offset": off, "bit": bit}),
            Dev::Trunc(len) => json!({"kind": "truncate", "len": len}),
        }
    }
    fn from_json(v: &Value) -> Dev {
        match v["kind"].as_str() {
            Some("flip") => Dev::Flip(v["offset"].as_u64().expect("offset") as usize, v["bit"].as_u64().expect("bit") as u8),
            Some("truncate") => Dev::Trunc(v["len"].as_u64().expect("len") as usize),
            _ => Dev::J(v.clone()),
        }
    }
}

fn norm_panic(msg: &str) -> String {
    // digits inside the message are operand values; the location keeps its line number
    let s = guard::short_panic(msg);
    let (m, loc) = match s.rfind(" @ ") {
        Some(i) => (s[..i].to_string(), s[i..].to_string()),
        None => (s.clone(), String::new()),
    };
    let mut out = String::new();
    let mut in_digits = false;
    for ch in m.chars() {
        if ch.is_ascii_digit() {
            if !in_digits {
                out.push('N');
            }
            in_digits = true;
        } else {
            in_digits = false;
            out.push(ch);
        }
    }
    out + &loc
}

struct World {
    bases: Vec<Base>,
    tuples: Vec<Tuple>,
}

fn eval_dev(w: &World, ti: usize, dev: &Dev) -> (Option<Stmt>, Obs) {
    let t = &w.tuples[ti];
    let base = &w.bases[t.base];
    let d = match dev {
        Dev::Flip(off, bit) => {
            let mut b = t.bytes.clone();
            b[*off] ^= 1u8 << bit;
            return (None, verify_bytes(&base.stmt, &b));
        }
        Dev::Trunc(len) => return (None, verify_bytes(&base.stmt, &t.bytes[..*len])),
        Dev::J(d) => d,
    };
    match d["kind"].as_str().expect("harness: case without kind") {
        "honest" => (None, verify_bytes(&base.stmt, &t.bytes)),
        "statement" => {
            let devs: Vec<Value> = d["devs"].as_array().expect("devs").clone();
            eval_stmt(base, &t.proof, &devs)
        }
        "tag_relabel" => {
            let to = d["to"].as_u64().unwrap() as u8;
            let (_, stark) = t.proof.clone().into_parts();
            let p = ExecutionProof::new(stark, tag_fn(to));
            (None, verify_built(base.stmt.build().expect("honest"), p))
        }
        "tag_byte" => {
            let mut b = t.bytes.clone();
            b[0] = d["to"].as_u64().unwrap() as u8;
            (None, verify_bytes(&base.stmt, &b))
        }
        "options_proved" => (None, verify_bytes(&base.stmt, &t.bytes)),
        "options_relabel" => {
            let (p, _) = params_from_json(&d["params"]);
            let mut b = t.bytes.clone();
            let o = option_bytes_offset(&t.layout);
            b[o..o + 6].copy_from_slice(&[p.nq as u8, p.blowup as u8, p.grind as u8, p.ext, p.fold as u8, p.rem as u8]);
            (None, verify_bytes(&base.stmt, &b))
        }
        k => panic!("harness: unknown case kind {k}"),
    }
}

fn hash_fn_name(t: &Tuple) -> &'static str {
    TAGS.iter().find(|(tg, _)| *tg == t.bytes[0]).map(|x| x.1).unwrap_or("?")
}

/// the oracle: reports anything that is not a rejection. Returns the histogram key of the outcome.
fn judge(ctx: &Ctx, w: &World, ti: usize, class: &str, dev: &Dev, obs: &Obs) -> String {
    match obs {
        Obs::Rejected(stage) => return format!("rejected:{stage}"),
        Obs::Skipped(why) => return format!("skipped:{why}"),
        _ => {}
    }
    let t = &w.tuples[ti];
    let base = &w.bases[t.base];
    let hash_fn = hash_fn_name(t);
    let dj = dev.json();
    let kind = dj["kind"].as_str().unwrap_or("?").to_string();
    if kind == "honest" {
        if let Obs::Accepted(_) = obs {
            return "accepted".into();
        }
    }
    let region = match dev {
        Dev::Flip(off, _) => Some(region_at(&t.layout, *off).name.clone()),
        Dev::Trunc(len) => Some(region_at(&t.layout, *len).name.clone()),
        _ if kind == "tag_byte" => Some("hash_fn".to_string()),
        _ if kind == "options_relabel" => Some("context.options".to_string()),
        _ => None,
    };
    let case = json!({
        "base": base.def.name, "src": base.def.src, "kernel": base.def.kernel, "stack_top_first": base.def.stack,
        "advice": base.def.advice, "opt": t.opt,
        "custom_options": t.custom.map(|(p, tag)| params_json(&p, tag)),
        "proof_len": t.bytes.len(), "proof_blake3": blake3::hash(&t.bytes).to_hex().to_string(),
        "honest_statement": base.stmt.to_json(),
        "class": class,
        "dev": dj,
    });
    let mut sig = json!({"class": class, "hash_fn": hash_fn});
    if let Some(r) = &region {
        sig["region"] = json!(r);
    }
    let (key, summary) = match obs {
        Obs::Accepted(level) => {
            sig["kind"] = json!("accepted");
            ("ACCEPTED", format!("{}/{}: {} => verify returned Ok({level})", base.def.name, t.opt, dj))
        }
        Obs::Panic(p) => {
            sig["kind"] = json!("panic");
            let mutated: Option<Vec<u8>> = match dev {
                Dev::Flip(off, bit) => {
                    let mut b = t.bytes.clone();
                    b[*off] ^= 1u8 << bit;
                    Some(b)
                }
                Dev::Trunc(len) => Some(t.bytes[..*len].to_vec()),
                _ => None,
            };
            if let Some(b) = mutated {
                sig["cause"] = json!(parsed_cause(&b));
            }
            let np = norm_panic(p);
            // where it panicked: "from_bytes" or "verify"; and the source file without the line
            sig["stage"] = json!(if np.starts_with("from_bytes: ") { "from_bytes" } else if np.starts_with("constructor: ") { "constructor" } else { "verify" });
            let file = np.rsplit_once(" @ ").map(|x| x.1).unwrap_or("?");
            let file = file.rsplit_once(':').map(|x| x.0).unwrap_or(file);
            let file = if file.starts_with("/rustc/") { file.split_once("/library/").map(|x| x.1).unwrap_or(file) } else { file };
            sig["panic_file"] = json!(file);
            // the message without the location (library/core line numbers differ between toolchains)
            sig["panic"] = json!(if np.contains(" @ /rustc/") { np.split(" @ ").next().unwrap_or(&np).to_string() } else { np.clone() });
            ("PANIC", format!("{}/{}: {} => panic: {}", base.def.name, t.opt, dj, guard::short_panic(p)))
        }
        o => {
            sig["kind"] = json!("honest_rejected");
            ("HONEST_REJECTED", format!("honest tuple {}/{} does not verify: {o:?}", base.def.name, t.opt))
        }
    };
    // tally of failures by (kind, tag, region, site) with the set of failing bits / byte values
    let k = format!("{}|{}|{}|{}", sig["kind"].as_str().unwrap(), hash_fn, region.as_deref().unwrap_or(class), sig["panic"].as_str().unwrap_or("-"));
    let what = match dev {
        Dev::Flip(_, b) => format!("bit{b}"),
        Dev::Trunc(l) => format!("len{l}"),
        Dev::J(d) => d["to"].as_u64().map(|x| format!("to{x}")).unwrap_or_else(|| "-".into()),
    };
    {
        let mut g = FAIL_TALLY.lock().unwrap();
        let e = g.entry(k).or_insert((0, BTreeSet::new()));
        e.0 += 1;
        if e.1.len() < 16 {
            e.1.insert(what);
        }
    }
    ctx.fail(sig, summary, case);
    key.into()
}

// ------------------------------------------------------------------------------------------------
// building the world
// ------------------------------------------------------------------------------------------------

fn make_tuple(bases: &[Base], bi: usize, opt: &str, options: ProvingOptions, custom: Option<(Params, u8)>) -> Result<Tuple, String> {
    let b = &bases[bi];
    let (so, proof) = match prove_base(&b.def, &b.program, options) {
        Err(p) => return Err(format!("prove panicked: {}", guard::short_panic(&p))),
        Ok(Err(e)) => return Err(format!("prove failed: {e}")),
        Ok(Ok(x)) => x,
    };
    if custom.is_none() {
        assert!(
            so.stack() == &b.stmt.out_stack[..] && so.overflow_addrs() == &b.stmt.out_addrs[..],
            "harness: prove and execute disagree on the outputs of base {} (that is C01's business)",
            b.def.name
        );
    }
    let bytes = proof.to_bytes();
    let layout = layout(&bytes);
    Ok(Tuple { base: bi, opt: opt.to_string(), custom, proof, bytes, layout })
}

fn option_names(tier: Tier) -> Vec<&'static str> {
    match tier {
        Tier::Quick => vec!["blake3_96", "rpo_96"],
        Tier::Thorough => vec!["blake3_96", "rpo_96", "blake3_128", "rpo_128"],
    }
}

/// (what, params, tag presented) for every non-accepted neighbour of the accepted sets in scope
fn neighbour_specs(tier: Tier) -> Vec<(String, Params, u8)> {
    let in_scope: Vec<(u8, Params)> = standard_sets()
        .into_iter()
        .filter(|s| option_names(tier).contains(&s.0))
        .map(|s| (s.2, s.3))
        .collect();
    let mut seen = BTreeSet::new();
    let mut out = vec![];
    for (tag, p) in &in_scope {
        let mut cands = neighbours(p);
        // the standard sets presented under a tag that does not accept them
        for (name, q) in [("REGULAR_96", REGULAR_96), ("REGULAR_128", REGULAR_128), ("RECURSIVE_96", RECURSIVE_96), ("RECURSIVE_128", RECURSIVE_128)] {
            cands.push((format!("standard:{name}"), q));
        }
        for (what, q) in cands {
            if accepted_under(*tag).contains(&q) || !params_valid(&q) {
                continue;
            }
            if seen.insert((*tag, q)) {
                out.push((what, q, *tag));
            }
        }
    }
    out
}

const ALL_BITS: [u8; 8] = [0, 1, 2, 3, 4, 5, 6, 7];
const END_BITS: [u8; 2] = [0, 7];

/// which bits of byte `off` are flipped for this tuple in this tier (the stated plan)
fn flip_bits(tier: Tier, w: &World, t: &Tuple, off: usize) -> &'static [u8] {
    let n = t.bytes.len();
    let rpo = t.bytes[0] == 2;
    // the one RPO proof that gets the every-bit sweep in thorough (an RPO verification costs ~6 ms)
    let plain = w.bases[t.base].def.name == "plain" && (tier == Tier::Quick || t.opt == "rpo_96");
    let structural = off < 64 || off + 64 >= n || region_at(&t.layout, off).scalar;
    match tier {
        Tier::Thorough => {
            if !rpo || plain || structural {
                &ALL_BITS
            } else if off % 4 == 0 {
                &END_BITS
            } else {
                &[]
            }
        }
        Tier::Quick => {
            if structural {
                &ALL_BITS
            } else if !rpo || (plain && off % 4 == 0) || off % 16 == 0 {
                &END_BITS
            } else {
                &[]
            }
        }
    }
}

fn flip_plan_text(tier: Tier) -> &'static str {
    tier.pick(
        "every bit of the first 64 and last 64 bytes and of every scalar field (tag, counts, length prefixes, option bytes, nonce) of every proof; \
         Blake3 proofs (all 6 bases): bits 0 and 7 of every byte; RPO proofs: bits 0 and 7 of every 4th byte (base plain) / every 16th byte (other bases)",
        "Blake3-192 and Blake3-256 proofs (all 6 bases) and the RPO-96 proof of base plain: every bit of every byte; the other 11 RPO proofs: \
         bits 0 and 7 of every 4th byte plus every bit of the first/last 64 bytes and of every scalar field",
    )
}

fn trunc_in_plan(tier: Tier, t: &Tuple, len: usize) -> bool {
    let n = t.bytes.len();
    tier == Tier::Thorough || len < 128 || len % 97 == 0 || len + 16 >= n || region_at(&t.layout, len).scalar
}

type Hist = BTreeMap<String, (u64, u64)>;

static FAIL_TALLY: std::sync::Mutex<BTreeMap<String, (u64, BTreeSet<String>)>> = std::sync::Mutex::new(BTreeMap::new());

fn merge(mut a: Hist, b: Hist) -> Hist {
    for (k, v) in b {
        let e = a.entry(k).or_insert((0, 0));
        e.0 += v.0;
        e.1 += v.1;
    }
    a
}

fn run_one(ctx: &Ctx, w: &World, ti: usize, class: &str, dev: &Dev, m: &mut Hist) {
    let t0 = std::time::Instant::now();
    let (_, obs) = eval_dev(w, ti, dev);
    let ns = t0.elapsed().as_nanos() as u64;
    let key = judge(ctx, w, ti, class, dev, &obs);
    let e = m.entry(format!("{class} [{}] => {key}", hash_fn_name(&w.tuples[ti]))).or_insert((0, 0));
    e.0 += 1;
    e.1 += ns;
}

pub fn run(ctx: &Ctx, replay: Option<&Value>) -> i32 {
    if let Some(case) = replay {
        return run_replay(ctx, case);
    }
    let tier = ctx.tier;
    let bases = make_bases();

    // ---- honest tuples -------------------------------------------------------------------------
    let std_sets = standard_sets();
    let mut jobs: Vec<(usize, String, Option<(Params, u8)>)> = vec![];
    for bi in 0..bases.len() {
        for name in option_names(tier) {
            jobs.push((bi, name.to_string(), None));
        }
    }
    let n_honest = jobs.len();
    // ---- proofs under non-accepted neighbours (base plain; thorough: also deep_out) ---------------
    let specs = neighbour_specs(tier);
    let nb_bases: Vec<usize> = tier.pick(vec![0], vec![0, 3]);
    for &bi in &nb_bases {
        for (what, p, tag) in &specs {
            jobs.push((bi, format!("{}@{}", what, TAGS[*tag as usize].1), Some((*p, *tag))));
        }
    }
    let t_prove = std::time::Instant::now();
    let made: Vec<Result<Tuple, String>> = jobs
        .par_iter()
        .map(|(bi, name, custom)| {
            let options = match custom {
                None => std_sets.iter().find(|s| s.0 == name).expect("harness: option set").1.clone(),
                Some((p, tag)) => params_options(p, *tag),
            };
            make_tuple(&bases, *bi, name, options, *custom)
        })
        .collect();
    let prove_s = t_prove.elapsed().as_secs_f64();
    let mut tuples = vec![];
    let mut unprovable: Vec<Value> = vec![];
    for (i, r) in made.into_iter().enumerate() {
        match r {
            Ok(t) => tuples.push(t),
            Err(e) => {
                if i < n_honest {
                    panic!("SUBJECT: honest base {} under {} cannot be proved: {e} (that is C01's business)", bases[jobs[i].0].def.name, jobs[i].1);
                }
                unprovable.push(json!({"base": bases[jobs[i].0].def.name, "options": jobs[i].1, "why": e.chars().take(160).collect::<String>()}));
            }
        }
    }
    let w = World { bases, tuples };

    // ---- enumerate the small classes -------------------------------------------------------------------
    let mut cases: Vec<Case> = vec![];
    let mut dup_stmt = 0u64;
    let mut skipped_hist: BTreeMap<String, u64> = BTreeMap::new();
    for (ti, t) in w.tuples.iter().enumerate() {
        let base = &w.bases[t.base];
        if let Some((p, tag)) = t.custom {
            cases.push(Case { tuple: ti, class: "options_proved".into(), dev: Dev::J(json!({"kind": "options_proved", "what": t.opt, "params": params_json(&p, tag)})) });
            continue;
        }
        cases.push(Case { tuple: ti, class: "honest".into(), dev: Dev::J(json!({"kind": "honest"})) });

        // statement: singles (de-duplicated on the altered canonical statement), pairs in thorough
        let singles = stmt_devs(&base.stmt);
        let mut seen: HashSet<Stmt> = HashSet::new();
        let honest_canon = Stmt::canon_of(&base.stmt.build().expect("SUBJECT: honest statement must build"));
        let mut pre = |devs: Vec<Value>, class: String, cases: &mut Vec<Case>| {
            // cheap pre-pass without verification: applicability, constructibility, difference, duplicates
            let mut cur = base.stmt.clone();
            for d in &devs {
                match apply_dev(&cur, d, &base.foreign) {
                    Some(x) => cur = x,
                    None => {
                        *skipped_hist.entry("not_applicable".into()).or_insert(0) += 1;
                        return;
                    }
                }
            }
            match cur.build() {
                Err(e) => {
                    *skipped_hist.entry(format!("unconstructible:{}", variant(&e))).or_insert(0) += 1;
                }
                Ok(b) => {
                    let canon = Stmt::canon_of(&b);
                    if canon == honest_canon {
                        *skipped_hist.entry("equal_after_construction".into()).or_insert(0) += 1;
                    } else if !seen.insert(canon) {
                        dup_stmt += 1;
                    } else {
                        cases.push(Case { tuple: ti, class, dev: Dev::J(json!({"kind": "statement", "devs": devs})) });
                    }
                }
            }
        };
        for d in &singles {
            pre(vec![d.clone()], format!("statement:{}", dev_class(d)), &mut cases);
        }
        if tier == Tier::Thorough {
            for i in 0..singles.len() {
                for j in i + 1..singles.len() {
                    pre(vec![singles[i].clone(), singles[j].clone()], "statement_pair".into(), &mut cases);
                }
            }
        }

        // hash tag
        for (tag, _) in TAGS {
            if tag != t.bytes[0] {
                cases.push(Case { tuple: ti, class: "tag_relabel".into(), dev: Dev::J(json!({"kind": "tag_relabel", "to": tag})) });
            }
        }
        for to in 0..=255u8 {
            if to != t.bytes[0] {
                cases.push(Case { tuple: ti, class: if to < 3 { "tag_byte_valid" } else { "tag_byte_invalid" }.into(), dev: Dev::J(json!({"kind": "tag_byte", "to": to})) });
            }
        }
        // option bytes relabelled to every non-accepted neighbour of what this tag accepts
        let tag = t.bytes[0];
        let mut seen_p = BTreeSet::new();
        for acc in accepted_under(tag) {
            let mut cands = neighbours(&acc);
            for q in [REGULAR_96, REGULAR_128, RECURSIVE_96, RECURSIVE_128] {
                cands.push(("standard".into(), q));
            }
            for (what, q) in cands {
                let own = t.bytes[option_bytes_offset(&t.layout)..][..6] == [q.nq as u8, q.blowup as u8, q.grind as u8, q.ext, q.fold as u8, q.rem as u8];
                if !accepted_under(tag).contains(&q) && !own && seen_p.insert(q) {
                    cases.push(Case { tuple: ti, class: "options_relabel".into(), dev: Dev::J(json!({"kind": "options_relabel", "what": what, "params": params_json(&q, tag)})) });
                }
            }
        }
    }

    // ---- the two bulk classes: (tuple, offset) items, bits chosen by the tier's plan --------------------
    let honest_tuples: Vec<usize> = (0..w.tuples.len()).filter(|&ti| w.tuples[ti].custom.is_none()).collect();
    let byte_items: Vec<(usize, usize)> = honest_tuples.iter().flat_map(|&ti| (0..w.tuples[ti].bytes.len()).map(move |off| (ti, off))).collect();

    // ---- determinism of the machinery: the first 50 small cases and 50 flips twice ---------------------
    for c in cases.iter().take(50) {
        let a = format!("{:?}", eval_dev(&w, c.tuple, &c.dev).1);
        let b = format!("{:?}", eval_dev(&w, c.tuple, &c.dev).1);
        assert!(a == b, "harness: non-deterministic observation for {}: {a} vs {b}", c.dev.json());
    }
    for &(ti, off) in byte_items.iter().take(50) {
        let d = Dev::Flip(off, 3);
        let a = format!("{:?}", eval_dev(&w, ti, &d).1);
        let b = format!("{:?}", eval_dev(&w, ti, &d).1);
        assert!(a == b, "harness: non-deterministic observation for {}: {a} vs {b}", d.json());
    }

    // ---- evaluate ------------------------------------------------------------------------------------------
    let t_eval = std::time::Instant::now();
    let h_small: Hist = cases
        .par_iter()
        .fold(Hist::new, |mut m, c| {
            run_one(ctx, &w, c.tuple, &c.class, &c.dev, &mut m);
            m
        })
        .reduce(Hist::new, merge);
    let small_s = t_eval.elapsed().as_secs_f64();
    let t_flip = std::time::Instant::now();
    let h_flip: Hist = byte_items
        .par_iter()
        .fold(Hist::new, |mut m, &(ti, off)| {
            for &bit in flip_bits(tier, &w, &w.tuples[ti], off) {
                run_one(ctx, &w, ti, "flip", &Dev::Flip(off, bit), &mut m);
            }
            m
        })
        .reduce(Hist::new, merge);
    let flip_s = t_flip.elapsed().as_secs_f64();
    let h_trunc: Hist = byte_items
        .par_iter()
        .fold(Hist::new, |mut m, &(ti, len)| {
            if trunc_in_plan(tier, &w.tuples[ti], len) {
                run_one(ctx, &w, ti, "truncate", &Dev::Trunc(len), &mut m);
            }
            m
        })
        .reduce(Hist::new, merge);
    let hist = merge(merge(h_small, h_flip), h_trunc);

    // ---- evidence --------------------------------------------------------------------------------------------
    let sum = |f: &dyn Fn(&str) -> bool| -> u64 { hist.iter().filter(|(k, _)| f(k)).map(|(_, v)| v.0).sum() };
    let evaluated = sum(&|k| !k.contains("=> skipped:"));
    let honest_ok = sum(&|k| k.ends_with("=> accepted"));
    let rejected = sum(&|k| k.contains("=> rejected:"));
    let accepted_dev = sum(&|k| k.ends_with("=> ACCEPTED"));
    let panics = sum(&|k| k.ends_with("=> PANIC"));
    let mut per_class: BTreeMap<String, u64> = BTreeMap::new();
    let mut stage_hist: BTreeMap<String, u64> = BTreeMap::new();
    let mut cpu_by_class: BTreeMap<String, f64> = BTreeMap::new();
    let mut outcome_by_class: BTreeMap<String, u64> = BTreeMap::new();
    for (k, v) in &hist {
        let (class_tag, stage) = k.split_once(" => ").unwrap_or((k, "?"));
        let class = class_tag.split(" [").next().unwrap_or(class_tag);
        *per_class.entry(class.to_string()).or_insert(0) += v.0;
        *stage_hist.entry(stage.to_string()).or_insert(0) += v.0;
        *cpu_by_class.entry(class_tag.to_string()).or_insert(0.0) += v.1 as f64 / 1e9;
        *outcome_by_class.entry(format!("{class} => {stage}")).or_insert(0) += v.0;
    }
    for v in cpu_by_class.values_mut() {
        *v = (*v * 100.0).round() / 100.0;
    }
    for c in cases.iter().step_by(cases.len() / 5 + 1) {
        let t = &w.tuples[c.tuple];
        ctx.sample(json!({"base": w.bases[t.base].def.name, "options": t.opt, "proof_len": t.bytes.len(), "class": c.class, "dev": c.dev.json(),
                          "observation": format!("{:?}", eval_dev(&w, c.tuple, &c.dev).1)}));
    }
    for &(ti, off) in byte_items.iter().step_by(byte_items.len() / 2 + 1).skip(1).chain(byte_items.iter().skip(4).take(1)) {
        let t = &w.tuples[ti];
        let d = Dev::Flip(off, 7);
        ctx.sample(json!({"base": w.bases[t.base].def.name, "options": t.opt, "proof_len": t.bytes.len(), "class": "flip", "dev": d.json(),
                          "region": region_at(&t.layout, off).name, "observation": format!("{:?}", eval_dev(&w, ti, &d).1)}));
    }
    let tuples_json: Vec<Value> = honest_tuples
        .iter()
        .map(|&ti| {
            let t = &w.tuples[ti];
            let b = &w.bases[t.base];
            let flips: usize = (0..t.bytes.len()).map(|off| flip_bits(tier, &w, t, off).len()).sum();
            let truncs = (0..t.bytes.len()).filter(|&l| trunc_in_plan(tier, t, l)).count();
            json!({"base": b.def.name, "options": t.opt, "proof_bytes": t.bytes.len(), "inputs": b.stmt.inputs.len(), "outputs": b.stmt.out_stack.len(),
                   "overflow_addrs": b.stmt.out_addrs.len(), "kernel_procs": b.stmt.kernel.len(), "regions": t.layout.len(),
                   "flip_cases": flips, "truncation_cases": truncs})
        })
        .collect();
    let cov = json!({
        "evaluations": evaluated,
        "distinct_nontrivial": evaluated - honest_ok,
        "rule": "case = (honest tuple, deviation descriptor); every deviation of the stated classes is generated exactly once per tuple; \
                 statement deviations are de-duplicated on the altered statement as read back from the constructed objects and dropped when \
                 equal to the honest one (or unconstructible); non-trivial = the altered artefact differs from the honest one and was \
                 presented to from_bytes/verify (everything except the bound-0 'honest' cases); distinct by construction (tuple, descriptor)",
        "honest_tuples": tuples_json,
        "honest_tuples_verified": honest_ok,
        "cases_per_class": per_class,
        "outcome_by_class": outcome_by_class,
        "outcome_stages": stage_hist,
        "cpu_seconds_by_class_and_tag": cpu_by_class,
        "verifications_or_parses": evaluated,
        "rejected": rejected,
        "acceptances_of_deviations": accepted_dev,
        "panics": panics,
        "failures_by_kind_tag_region_site": FAIL_TALLY.lock().unwrap().iter().map(|(k, v)| json!({"what": k, "cases": v.0, "which": v.1})).collect::<Vec<_>>(),
        "statement_duplicates_dropped": dup_stmt,
        "statement_deviations_skipped": skipped_hist,
        "non_accepted_option_sets_proved": specs.iter().map(|(w_, p, tag)| json!({"what": w_, "params": params_json(p, *tag)})).collect::<Vec<_>>(),
        "non_accepted_option_sets_unprovable": unprovable,
        "accepted_options_rule": "verify() uses AcceptableOptions::OptionSet: exact membership of the proof's ProofOptions in the per-tag list (Blake3_192: REGULAR_96; Blake3_256: REGULAR_128; Rpo256: RECURSIVE_96, RECURSIVE_128); no security-level threshold",
        "deviation_bound": tier.pick(1, 2),
        "flip_sweep": flip_plan_text(tier),
        "truncation_sweep": tier.pick("all lengths < 128, every 97th length, the last 16 lengths, every length that cuts a scalar field", "every length 0..len-1"),
        "exhaustive": true,
        "bounds": "6 base programs x option sets of the tier; single deviations (pairs of statement deviations in thorough); trailing bytes not in scope",
        "prove_wall_s": prove_s,
        "small_classes_wall_s": small_s,
        "flip_wall_s": flip_s,
    });
    ctx.finish("fault_enumeration", cov, &[
        "the accepted option sets are the ones documented on miden::verify (copied into the check as the specification)",
        "honest proofs are produced by miden::prove on this tree; the prover is deterministic (trace randomness is seeded by the program hash)",
        "a stack-input vector of at most 16 elements denotes the same statement with or without deep zeros; such variants are not counted as alterations",
        "appending trailing bytes is outside the property's quantifier and not checked",
    ])
}

// ------------------------------------------------------------------------------------------------
// replay
// ------------------------------------------------------------------------------------------------

fn run_replay(ctx: &Ctx, case: &Value) -> i32 {
    let bases = make_bases();
    let name = case["base"].as_str().expect("harness: replay case without base");
    let bi = bases.iter().position(|b| b.def.name == name).expect("harness: unknown base in replay case");
    let opt = case["opt"].as_str().expect("opt").to_string();
    let custom = if case["custom_options"].is_null() { None } else { Some(params_from_json(&case["custom_options"])) };
    let options = match custom {
        None => standard_sets().into_iter().find(|s| s.0 == opt).expect("harness: option set").1,
        Some((p, tag)) => params_options(&p, tag),
    };
    let tuple = make_tuple(&bases, bi, &opt, options, custom).expect("harness: the base proof of the replay case cannot be re-created");
    let digest = blake3::hash(&tuple.bytes).to_hex().to_string();
    println!("base {name} / {opt}: re-created proof of {} bytes, blake3 {}", tuple.bytes.len(), digest);
    if case["proof_blake3"].as_str() != Some(&digest) {
        println!("note: the re-created proof differs from the recorded one ({}): the code under test changed", case["proof_blake3"]);
    }
    let dev = Dev::from_json(&case["dev"]);
    let class = case["class"].as_str().unwrap_or("?").to_string();
    let w = World { bases, tuples: vec![tuple] };
    let (altered, obs) = eval_dev(&w, 0, &dev);
    println!("honest statement: {}", w.bases[bi].stmt.to_json());
    if let Some(a) = altered {
        println!("altered statement (as constructed): {}", a.to_json());
    }
    if let Dev::Flip(off, bit) = dev {
        let r = region_at(&w.tuples[0].layout, off);
        let h = w.tuples[0].bytes[off];
        println!("offset {off} lies in region {} [{}..{}); honest byte 0x{:02x} -> 0x{:02x}", r.name, r.start, r.end, h, h ^ (1 << bit));
    }
    if let Dev::Trunc(len) = dev {
        let r = region_at(&w.tuples[0].layout, len);
        println!("the first {len} bytes are kept: the cut is inside region {} [{}..{})", r.name, r.start, r.end);
    }
    println!("deviation: {}", dev.json());
    println!("observation: {obs:?}");
    println!("expected: {}", if class == "honest" { "Ok(level)" } else { "Err(_) from ExecutionProof::from_bytes or miden::verify (no Ok, no panic)" });
    judge(ctx, &w, 0, &class, &dev, &obs);
    ctx.finish("fault_enumeration", json!({}), &[])
}
