#!/usr/bin/env python3
"""validate MANIFEST.json and every evidence file against the schemas (run with python3-vt)"""
import json, sys, glob, jsonschema
ok = True
m = json.load(open('/verif/MANIFEST.json')) if len(sys.argv) < 2 or sys.argv[1] != '--evidence-only' else None
if m is not None:
    jsonschema.validate(m, json.load(open('/root/.vp/MANIFEST.schema.json')))
    ids = [c['property_id'] for c in m['checks']] + [n['property_id'] for n in m.get('not_applicable', [])]
    allp = [json.loads(l)['id'] for l in open('/verif/properties.jsonl')]
    assert sorted(ids) == sorted(allp), (sorted(ids), allp)
    print('MANIFEST ok:', len(m['checks']), 'checks,', len(m.get('not_applicable', [])), 'not applicable')
sch = json.load(open('/root/.vp/EVIDENCE.schema.json'))
for f in sorted(glob.glob('/verif/evidence/*.json')):
    try:
        e = json.load(open(f)); jsonschema.validate(e, sch)
        print('ok', f, e['tier'], e['level'], 'violations=', e.get('violations'), 'wall=', e['wall_s'])
    except Exception as ex:
        ok = False; print('INVALID', f, str(ex)[:300])
sys.exit(0 if ok else 1)
